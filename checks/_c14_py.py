"""
C14, Python part: structural rules over the Serializer / Deserializer / ZeroExtendingBuffer classes of the Python support
module (py/support/nunavut_support.j2).  The template is rendered statically (j2text) and the Python text parsed with `ast`;
nothing is imported or run.

  R-C14-PY-ADVANCE   every add_* / fetch_* method moves the bit cursor by exactly the number of bits its name and arguments
                     address: the net effect on `_bit_offset` (own += / -= statements, loops, delegated calls with arguments
                     substituted, struct format sizes) is evaluated as a linear form and compared with the expected one
  R-C14-PY-WIDTH     width tables: u<W> is composed of two u<W/2> halves (low half first, `>> W/2` / `<< W/2`), i<W> converts with
                     2**W and the threshold 2**(W-1), f<W> uses the little-endian struct format of that width on all four siblings
  R-C14-PY-SHIFT     the unaligned byte copy splits every byte at offset % 8 with complementary shifts, masks the part that stays in
                     the current byte to 8 bits, and the reader combines byte o and o+1 the same way; bit set / get use 1 << (offset % 8)
  R-C14-PY-MASK      _unsigned_to_bytes masks the value to bit_length bits and emits ceil(bit_length/8) little-endian bytes;
                     _unsigned_from_bytes masks the most significant byte to bit_length % 8 bits
  R-C14-PY-ZEROEXT   ZeroExtendingBuffer: an out-of-range byte read gives 0, negative indices are refused, a slice is right-padded with
                     zeros to the requested size; aligned accessors that index the buffer directly assert byte alignment first
"""
import ast
import typing

from nvsa import j2front, j2text
from nvsa.report import AnalysisError

TMPL = "src/nunavut/lang/py/support/nunavut_support.j2"
STRUCT_SIZE = {"e": 2, "f": 4, "d": 8}

RULES = {
    "R-C14-PY-ADVANCE": "Python support: every add_*/fetch_* method moves the bit cursor by exactly the number of bits it addresses "
                        "(net effect on _bit_offset evaluated as a linear form over own statements, loops and delegated calls)",
    "R-C14-PY-WIDTH": "Python support: u<W> = two u<W/2> halves, low half first, shifted by W/2; i<W> converts with 2**W at threshold "
                      "2**(W-1); f<W> uses the little-endian struct format of its width on all four add/fetch aligned/unaligned siblings",
    "R-C14-PY-SHIFT": "Python support: the unaligned byte copy and its reader split / combine bytes at offset % 8 with complementary "
                      "shifts and an 8-bit mask; single-bit access uses 1 << (offset % 8)",
    "R-C14-PY-MASK": "Python support: _unsigned_to_bytes masks to bit_length bits and emits ceil(bit_length/8) little-endian bytes; "
                     "_unsigned_from_bytes masks the most significant byte",
    "R-C14-PY-ZEROEXT": "Python support: reads beyond the buffer give zero (get_byte on IndexError, get_unsigned_slice right-padded), "
                        "negative indices are refused, direct buffer indexing in aligned accessors is under an alignment assertion",
}

Lin = typing.Dict[str, int]   # linear form: atom -> coefficient ("1" is the constant)


def _add(a: Lin, b: Lin, k: int = 1) -> Lin:
    out = dict(a)
    for x, c in b.items():
        out[x] = out.get(x, 0) + k * c
    return {x: c for x, c in out.items() if c != 0}


def _scale(a: Lin, k: int) -> Lin:
    return {x: c * k for x, c in a.items() if c * k != 0}


def _show(a: Lin) -> str:
    if not a:
        return "0"
    return " + ".join((f"{c}*{x}" if x != "1" else str(c)) if not (c == 1 and x != "1") else x for x, c in sorted(a.items()))


# ---- two's complement conversions, recognised by shape with constants folded ------------------------------------------------
# value domain of the folding: int | ("p2", a, b) = 2**(a*W + b) | ("p2m1", a, b) = 2**(a*W + b) - 1, W the symbolic bit length
def _fold(e, env):
    """fold an integer expression over {name: int | ('w',)}; returns a domain value or None"""
    if isinstance(e, ast.Constant) and isinstance(e.value, int) and not isinstance(e.value, bool):
        return e.value
    if isinstance(e, ast.Name):
        v = env.get(e.id)
        return v if v is not None else None
    if isinstance(e, ast.BinOp):
        a, b = _fold(e.left, env), _fold(e.right, env)
        if a is None or b is None:
            return None
        lin = lambda v: (0, v) if isinstance(v, int) else ((1, 0) if v == ("w",) else (v[1], v[2]) if v[0] == "lin" else None)   # noqa: E731
        if isinstance(e.op, ast.Pow) and a == 2 or isinstance(e.op, ast.LShift) and a == 1:
            l_ = lin(b)
            if l_ is None:
                return None
            return (2 ** l_[1]) if l_[0] == 0 and l_[1] >= 0 else ("p2", l_[0], l_[1])
        if isinstance(e.op, (ast.Add, ast.Sub)):
            sign = 1 if isinstance(e.op, ast.Add) else -1
            if isinstance(a, int) and isinstance(b, int):
                return a + sign * b
            la, lb = lin(a), lin(b)
            if la is not None and lb is not None and (a == ("w",) or b == ("w",) or (isinstance(a, tuple) and a[0] == "lin") or (isinstance(b, tuple) and b[0] == "lin")):
                r = (la[0] + sign * lb[0], la[1] + sign * lb[1])
                return r[1] if r[0] == 0 else ("lin", r[0], r[1])
            if isinstance(a, tuple) and a[0] == "p2" and b == 1 and sign == -1:
                return ("p2m1", a[1], a[2])
            return None
        if isinstance(a, int) and isinstance(b, int):
            try:
                if isinstance(e.op, ast.Mult):
                    return a * b
                if isinstance(e.op, ast.FloorDiv):
                    return a // b
                if isinstance(e.op, ast.RShift):
                    return a >> b
                if isinstance(e.op, ast.LShift):
                    return a << b
                if isinstance(e.op, ast.Pow) and b >= 0:
                    return a ** b
            except (ZeroDivisionError, ValueError):
                return None
            return None
        if isinstance(a, tuple) and a[0] == "p2" and (isinstance(e.op, ast.FloorDiv) and b == 2 or isinstance(e.op, ast.RShift) and b == 1):
            return ("p2", a[1], a[2] - 1)
        return None
    return None


def _p2(w, k=0):
    """2**(W + k) in the folding domain, W = w (int) or symbolic"""
    return 2 ** (w + k) if isinstance(w, int) else ("p2", 1, k)


def _p2m1(w, k=0):
    return 2 ** (w + k) - 1 if isinstance(w, int) else ("p2m1", 1, k)


def _strip_int(e):
    while isinstance(e, ast.Call) and isinstance(e.func, ast.Name) and e.func.id == "int" and len(e.args) == 1 and not e.keywords:
        e = e.args[0]
    return e


def _same(a, b) -> bool:
    return ast.unparse(a).replace(" ", "") == ast.unparse(b).replace(" ", "")


def _is_to_unsigned(e, x, w, env) -> bool:
    """e is the W-bit two's complement image of the signed value x:  (2**W + x) if x < 0 else x  |  x & (2**W - 1)  |  x % 2**W"""
    e = _strip_int(e)
    K, Mk = _p2(w), _p2m1(w)
    if isinstance(e, ast.IfExp):
        t, a, b = e.test, _strip_int(e.body), _strip_int(e.orelse)
        neg = isinstance(t, ast.Compare) and len(t.ops) == 1 and (
            (isinstance(t.ops[0], ast.Lt) and _same(t.left, x) and _fold(t.comparators[0], env) == 0) or
            (isinstance(t.ops[0], ast.Gt) and _same(t.comparators[0], x) and _fold(t.left, env) == 0))
        nonneg = isinstance(t, ast.Compare) and len(t.ops) == 1 and (
            (isinstance(t.ops[0], ast.GtE) and _same(t.left, x) and _fold(t.comparators[0], env) == 0) or
            (isinstance(t.ops[0], ast.LtE) and _same(t.comparators[0], x) and _fold(t.left, env) == 0))
        if nonneg:
            a, b, neg = b, a, True
        if neg and _same(b, x) and isinstance(a, ast.BinOp) and isinstance(a.op, ast.Add):
            l_, r_ = a.left, a.right
            return (_same(r_, x) and _fold(l_, env) == K) or (_same(l_, x) and _fold(r_, env) == K)
        return False
    if isinstance(e, ast.BinOp) and isinstance(e.op, ast.BitAnd):
        return (_same(e.left, x) and _fold(e.right, env) == Mk) or (_same(e.right, x) and _fold(e.left, env) == Mk)
    if isinstance(e, ast.BinOp) and isinstance(e.op, ast.Mod):
        return _same(e.left, x) and _fold(e.right, env) == K
    return False


def _is_to_signed(e, u, w, env) -> bool:
    """e is the signed reading of the W-bit pattern u:  (u - 2**W) if u >= 2**(W-1) else u  |  (u & (H - 1)) - (u & H)  |  (u ^ H) - H"""
    e = _strip_int(e)
    K, H, Hm = _p2(w), _p2(w, -1), _p2m1(w, -1)
    if isinstance(e, ast.IfExp):
        t, a, b = e.test, _strip_int(e.body), _strip_int(e.orelse)
        hi = False
        if isinstance(t, ast.Compare) and len(t.ops) == 1:
            op, l_, r_ = t.ops[0], t.left, t.comparators[0]
            hi = (isinstance(op, ast.GtE) and _same(l_, u) and _fold(r_, env) == H) or (isinstance(op, ast.LtE) and _same(r_, u) and _fold(l_, env) == H) or \
                 (isinstance(op, ast.Gt) and _same(l_, u) and _fold(r_, env) == Hm) or (isinstance(op, ast.Lt) and _same(r_, u) and _fold(l_, env) == Hm)
            lo = (isinstance(op, ast.Lt) and _same(l_, u) and _fold(r_, env) == H) or (isinstance(op, ast.Gt) and _same(r_, u) and _fold(l_, env) == H) or \
                 (isinstance(op, ast.LtE) and _same(l_, u) and _fold(r_, env) == Hm) or (isinstance(op, ast.GtE) and _same(r_, u) and _fold(l_, env) == Hm)
            if lo:
                a, b, hi = b, a, True
        elif isinstance(t, ast.BinOp) and isinstance(t.op, ast.BitAnd):
            hi = (_same(t.left, u) and _fold(t.right, env) == H) or (_same(t.right, u) and _fold(t.left, env) == H)
        return bool(hi) and _same(b, u) and isinstance(a, ast.BinOp) and isinstance(a.op, ast.Sub) and _same(a.left, u) and _fold(a.right, env) == K
    if isinstance(e, ast.BinOp) and isinstance(e.op, ast.Sub):
        l_, r_ = _strip_int(e.left), _strip_int(e.right)
        def masked(n, m):
            return isinstance(n, ast.BinOp) and isinstance(n.op, ast.BitAnd) and ((_same(n.left, u) and _fold(n.right, env) == m) or (_same(n.right, u) and _fold(n.left, env) == m))
        if masked(l_, Hm) and masked(r_, H):
            return True
        if isinstance(l_, ast.BinOp) and isinstance(l_.op, ast.BitXor) and _fold(r_, env) == H:
            return (_same(l_.left, u) and _fold(l_.right, env) == H) or (_same(l_.right, u) and _fold(l_.left, env) == H)
    return False


def _body_expr(f: ast.FunctionDef) -> typing.Optional[ast.expr]:
    """the value a small pure function returns, as one expression over its parameters: docstring and asserts dropped, single-assigned
    locals substituted, `if c: return a` ... `return b` turned into `a if c else b`"""
    import copy
    env: typing.Dict[str, ast.expr] = {}

    class B(ast.NodeTransformer):
        def visit_Name(self, node):
            if isinstance(node.ctx, ast.Load) and node.id in env:
                return copy.deepcopy(env[node.id])
            return node

    def seq(stmts):
        for i, st in enumerate(stmts):
            if isinstance(st, ast.Expr) and isinstance(st.value, ast.Constant) or isinstance(st, ast.Assert):
                continue
            if isinstance(st, ast.Assign) and len(st.targets) == 1 and isinstance(st.targets[0], ast.Name):
                env[st.targets[0].id] = B().visit(copy.deepcopy(st.value))
                continue
            if isinstance(st, ast.AnnAssign) and isinstance(st.target, ast.Name) and st.value is not None:
                env[st.target.id] = B().visit(copy.deepcopy(st.value))
                continue
            if isinstance(st, ast.Return) and st.value is not None:
                return B().visit(copy.deepcopy(st.value))
            if isinstance(st, ast.If):
                saved = dict(env)
                a = seq(st.body)
                env.clear(); env.update(saved)
                b = seq(st.orelse) if st.orelse else None
                env.clear(); env.update(saved)
                if a is None:
                    return None
                if b is None:
                    b = seq(stmts[i + 1:])
                if b is None:
                    return None
                return ast.IfExp(test=B().visit(copy.deepcopy(st.test)), body=a, orelse=b)
            return None
        return None

    r = seq(f.body)
    return ast.fix_missing_locations(r) if r is not None else None


def _through_method(cls_: typing.Dict[str, ast.FunctionDef], e: ast.expr, depth: int = 0) -> ast.expr:
    """replace a call of a small helper of the same class (`self._h(a, b)` / `Cls._h(a, b)`) by the helper's value with the arguments
    bound; other expressions are returned as they are"""
    import copy
    e = _strip_int(e)
    if depth > 2 or not (isinstance(e, ast.Call) and isinstance(e.func, ast.Attribute) and isinstance(e.func.value, ast.Name) and not e.keywords):
        return e
    h = cls_.get(e.func.attr)
    if h is None or not e.func.attr.startswith("_"):
        return e
    params = [a.arg for a in h.args.args]
    static = any(isinstance(d, ast.Name) and d.id == "staticmethod" for d in h.decorator_list)
    if not static:
        params = params[1:]
    if len(params) != len(e.args):
        return e
    body = _body_expr(h)
    if body is None:
        return e
    env = dict(zip(params, e.args))

    class B(ast.NodeTransformer):
        def visit_Name(self, node):
            if isinstance(node.ctx, ast.Load) and node.id in env:
                return copy.deepcopy(env[node.id])
            return node

    return _through_method(cls_, ast.fix_missing_locations(B().visit(copy.deepcopy(body))), depth + 1)



class _Unknown(Exception):
    pass


class Model:
    def __init__(self, tree):
        self.cls = {c.name: c for c in tree.body if isinstance(c, ast.ClassDef)}
        self.methods: typing.Dict[str, typing.Dict[str, ast.FunctionDef]] = {
            cn: {f.name: f for f in c.body if isinstance(f, ast.FunctionDef)} for cn, c in self.cls.items()}
        self.memo: typing.Dict[typing.Tuple[str, str], typing.List[typing.Tuple[tuple, Lin]]] = {}

    # ---- linear evaluation of integer expressions ------------------------------------------------------------
    def lin(self, e, env: typing.Dict[str, Lin], lens: typing.Dict[str, Lin]) -> Lin:
        if isinstance(e, ast.Constant) and isinstance(e.value, int) and not isinstance(e.value, bool):
            return {"1": e.value} if e.value else {}
        if isinstance(e, ast.Name):
            if e.id in env:
                return env[e.id]
            return {e.id: 1}
        if isinstance(e, ast.Call) and isinstance(e.func, ast.Name) and e.func.id == "len" and len(e.args) == 1:
            a = e.args[0]
            if isinstance(a, ast.Name):
                return lens.get(a.id, {f"len({a.id})": 1})
            return self.length_of(a, env, lens)
        if isinstance(e, ast.Call) and isinstance(e.func, ast.Name) and e.func.id == "int" and len(e.args) == 1:
            return self.lin(e.args[0], env, lens)
        if isinstance(e, ast.Attribute) and not any(isinstance(x, ast.Name) and x.id == "self" for x in ast.walk(e)):
            return {ast.unparse(e).replace(" ", ""): 1}     # opaque quantity (out.nbytes, numpy.dtype(dtype).itemsize)
        if isinstance(e, ast.BinOp):
            if isinstance(e.op, ast.Add):
                return _add(self.lin(e.left, env, lens), self.lin(e.right, env, lens))
            if isinstance(e.op, ast.Sub):
                return _add(self.lin(e.left, env, lens), self.lin(e.right, env, lens), -1)
            if isinstance(e.op, ast.Mult):
                l, r = self.lin(e.left, env, lens), self.lin(e.right, env, lens)
                if set(l) <= {"1"}:
                    return _scale(r, l.get("1", 0))
                if set(r) <= {"1"}:
                    return _scale(l, r.get("1", 0))
                if len(l) == 1 and len(r) == 1:   # product of two atoms, e.g. count * itemsize
                    (x, c1), (y, c2) = next(iter(l.items())), next(iter(r.items()))
                    return {"*".join(sorted((x, y))): c1 * c2}
            if isinstance(e.op, ast.FloorDiv):
                # (n + 7) // 8 stays an atom: ceil8(n)
                txt = ast.unparse(e).replace(" ", "")
                return {txt: 1}
        raise _Unknown(ast.unparse(e))

    def length_of(self, a, env, lens) -> Lin:
        """len() of an expression: float byte strings, unsigned byte strings, packed bits"""
        if isinstance(a, ast.Call) and isinstance(a.func, ast.Attribute) and a.func.attr == "_float_to_bytes" and a.args and isinstance(a.args[0], ast.Constant):
            return {"1": STRUCT_SIZE[a.args[0].value]}
        if isinstance(a, ast.Call) and isinstance(a.func, ast.Attribute) and a.func.attr == "view" and isinstance(a.func.value, ast.Name):
            return {f"nbytes({a.func.value.id})": 1}
        raise _Unknown("len(" + ast.unparse(a) + ")")

    # ---- net cursor advance of a method, per return path -------------------------------------------------------
    def advance(self, cname: str, mname: str, depth: int = 0) -> typing.List[typing.Tuple[tuple, Lin]]:
        key = (cname, mname)
        if key in self.memo:
            return self.memo[key]
        f = self.lookup(cname, mname)
        if f is None or depth > 8:
            raise _Unknown(f"{cname}.{mname}")
        res = self._walk(cname, f.body, (), {}, {}, {}, depth)
        out = [(c, a) for c, a, done in res]
        self.memo[key] = out
        return out

    def lookup(self, cname, mname):
        seen = set()
        while cname and cname not in seen:
            seen.add(cname)
            f = self.methods.get(cname, {}).get(mname)
            if f is not None and not any("abstractmethod" in ast.unparse(d) for d in f.decorator_list):
                return f
            bases = [ast.unparse(b) for b in self.cls[cname].bases] if cname in self.cls else []
            cname = next((b for b in bases if b in self.cls), None)
        return None

    def _call_advance(self, cname, call, env, lens, depth) -> typing.Optional[Lin]:
        fn = call.func
        if not (isinstance(fn, ast.Attribute) and isinstance(fn.value, ast.Name) and fn.value.id == "self"):
            return None
        if not (fn.attr.startswith(("add_", "fetch_")) or fn.attr in ("skip_bits", "pad_to_alignment")):
            return None
        g = self.lookup(cname, fn.attr)
        if g is None:
            raise _Unknown(f"self.{fn.attr}")
        paths = self.advance(cname, fn.attr, depth + 1)
        forms = {tuple(sorted(a.items())) for _c, a in paths if not self._zero_path(_c, a)}
        if len(forms) != 1:
            raise _Unknown(f"self.{fn.attr} has {len(forms)} different advances")
        form = dict(next(iter(forms)))
        params = [p.arg for p in g.args.args][1:]
        out: Lin = {}
        for atom, c in form.items():
            if atom == "1":
                out = _add(out, {"1": c})
                continue
            repl = None
            for i, pn in enumerate(params):
                if i < len(call.args):
                    arg = call.args[i]
                    if atom == pn:
                        repl = self.lin(arg, env, lens)
                    elif atom == f"len({pn})":
                        repl = lens.get(arg.id, {f"len({arg.id})": 1}) if isinstance(arg, ast.Name) else self.length_of(arg, env, lens)
                    elif atom == f"nbytes({pn})" and isinstance(arg, ast.Name):
                        repl = {f"nbytes({arg.id})": 1}
            if repl is None:
                raise _Unknown(f"cannot bind `{atom}` of self.{fn.attr} at {ast.unparse(call)[:50]}")
            out = _add(out, _scale(repl, c))
        return out

    @staticmethod
    def _zero_path(conds, a) -> bool:
        """the `count > 0` false path of a fetch returns an empty array and does not move"""
        return not a and any(c.replace(" ", "") in ("count>0",) and not pol for c, pol in conds)

    def _walk(self, cname, body, conds, env, lens, adv: Lin, depth):
        """-> list of (conds, advance, finished)"""
        states = [(conds, dict(env), dict(lens), dict(adv), False)]
        for st in body:
            nxt = []
            for cs, en, ln, ad, done in states:
                if done:
                    nxt.append((cs, en, ln, ad, done))
                    continue
                nxt.extend(self._stmt(cname, st, cs, en, ln, ad, depth))
            states = nxt
        return [(cs, ad, done) for cs, en, ln, ad, done in states]

    def _expr_calls(self, cname, node, en, ln, depth) -> Lin:
        total: Lin = {}
        for c in ast.walk(node):
            if isinstance(c, ast.Call):
                a = self._call_advance(cname, c, en, ln, depth)
                if a:
                    total = _add(total, a)
        return total

    def _stmt(self, cname, st, cs, en, ln, ad, depth):
        if isinstance(st, ast.If):
            t = ast.unparse(st.test)
            a = self._walk(cname, st.body, cs + ((t, True),), en, ln, ad, depth)
            b = self._walk(cname, st.orelse, cs + ((t, False),), en, ln, ad, depth)
            return [(c, dict(en), dict(ln), x, d) for c, x, d in a + b]
        if isinstance(st, (ast.Return, ast.Raise)):
            ad2 = _add(ad, self._expr_calls(cname, st, en, ln, depth)) if isinstance(st, ast.Return) and st.value is not None else ad
            return [(cs + (("raise", True),) if isinstance(st, ast.Raise) else cs, en, ln, ad2, True)]
        if isinstance(st, ast.For):
            # trip count: `for b in value` -> len(value); `for i in range(n)` -> n
            it = st.iter
            if isinstance(it, ast.Call) and isinstance(it.func, ast.Name) and it.func.id == "range" and len(it.args) == 1:
                trips = self.lin(it.args[0], en, ln)
            elif isinstance(it, ast.Name):
                trips = ln.get(it.id, {f"len({it.id})": 1})
            else:
                raise _Unknown("loop over " + ast.unparse(it))
            inner = self._walk(cname, st.body, cs, en, ln, {}, depth)
            forms = {tuple(sorted(a.items())) for _c, a, _d in inner}
            if len(forms) != 1:
                raise _Unknown("loop body with several advances")
            per = dict(next(iter(forms)))
            if not per:
                return [(cs, en, ln, ad, False)]
            if not set(per) <= {"1"} or len(trips) != 1:
                raise _Unknown("non-constant advance per iteration")
            (atom, c), = trips.items()
            return [(cs, en, ln, _add(ad, {atom: c * per["1"]}), False)]
        if isinstance(st, ast.While):
            # pad_to_alignment: data dependent; no fixed advance
            return [(cs, en, ln, _add(ad, {"<alignment padding>": 1}), False)]
        if isinstance(st, ast.AugAssign) and ast.unparse(st.target) == "self._bit_offset":
            v = self.lin(st.value, en, ln)
            k = 1 if isinstance(st.op, ast.Add) else (-1 if isinstance(st.op, ast.Sub) else None)
            if k is None:
                raise _Unknown(ast.unparse(st))
            return [(cs, en, ln, _add(ad, v, k), False)]
        if isinstance(st, ast.Assign) and ast.unparse(st.targets[0]) == "self._bit_offset":
            raise _Unknown("cursor assigned: " + ast.unparse(st))
        ad2 = _add(ad, self._expr_calls(cname, st, en, ln, depth))
        en2, ln2 = dict(en), dict(ln)
        if isinstance(st, (ast.Assign, ast.AnnAssign)) and st.value is not None:
            tg = st.targets[0] if isinstance(st, ast.Assign) else st.target
            if isinstance(tg, ast.Name):
                try:
                    en2[tg.id] = self.lin(st.value, en, ln)
                except _Unknown:
                    en2.pop(tg.id, None)
                L = self._len_of_value(st.value, en, ln)
                if L is not None:
                    ln2[tg.id] = L
        return [(cs, en2, ln2, ad2, False)]

    def _len_of_value(self, v, en, ln) -> typing.Optional[Lin]:
        """length (in elements) of a freshly built byte/bit array"""
        try:
            if isinstance(v, ast.Call) and isinstance(v.func, ast.Attribute):
                a = v.func.attr
                if a == "_unsigned_to_bytes" and len(v.args) == 2:
                    return {f"({ast.unparse(v.args[1])}+7)//8".replace(" ", ""): 1}
                if a == "_float_to_bytes":
                    return self.length_of(v, en, ln)
                if a in ("fetch_unaligned_bytes", "fetch_aligned_bytes") and v.args:
                    return self.lin(v.args[0], en, ln)
                if a == "get_unsigned_slice" and len(v.args) == 2:
                    return _add(self.lin(v.args[1], en, ln), self.lin(v.args[0], en, ln), -1)
                if a == "packbits" and v.args and isinstance(v.args[0], ast.Name):
                    return {f"(len({v.args[0].id})+7)//8": 1}
        except _Unknown:
            return None
        return None


# =================================================================================================================
def _render(ctx):
    ts = j2front.TemplateSet(ctx.root)
    t = next((x for x in ts.templates if x.rel == TMPL), None)
    if t is None:
        raise AnalysisError(f"anchor missing: {TMPL}")
    paths = j2text.render_paths(ts.nodes, t.ast.body, limit=64)
    try:
        return ast.parse(paths[0].text), t
    except SyntaxError as e:
        raise AnalysisError(f"rendered nunavut_support does not parse: {e}")


def _expected(name: str, params: typing.List[str]) -> typing.Optional[Lin]:
    import re
    m = re.fullmatch(r"(add|fetch)_(un)?aligned_([uif])(\d+)", name)
    if m:
        return {"1": int(m.group(4))}
    kind = name.split("aligned_", 1)[1] if "aligned_" in name else name
    add = name.startswith("add_")
    if kind in ("unsigned", "signed"):
        return {"bit_length": 1}
    if kind == "bit":
        return {"1": 1}
    if kind == "bytes":
        return {f"len({params[0]})": 8} if add else {"count": 8}
    if kind == "array_of_bits":
        return {f"len({params[0]})": 1} if add else {"count": 1}
    if kind == "array_of_standard_bit_length_primitives":
        return {f"nbytes({params[0]})": 8} if add else None
    return None


def run(ctx):
    for r, t in RULES.items():
        ctx.rule(r, t)
    tree, t = _render(ctx)
    M = Model(tree)
    for need in ("Serializer", "Deserializer", "ZeroExtendingBuffer"):
        if need not in M.cls:
            raise AnalysisError(f"anchor missing: class {need} in the Python support module")
    rel = t.rel

    # ---- ADVANCE ---------------------------------------------------------------------------------------------
    R = "R-C14-PY-ADVANCE"
    n = 0
    for cname in ("Serializer", "_LittleEndianSerializer", "Deserializer", "_LittleEndianDeserializer"):
        if cname not in M.cls:
            continue
        for mname, f in sorted(M.methods[cname].items()):
            if not mname.startswith(("add_", "fetch_")):
                continue
            if any("abstractmethod" in ast.unparse(d) for d in f.decorator_list):
                continue
            params = [p.arg for p in f.args.args][1:]
            exp = _expected(mname, params)
            if exp is None and not mname.endswith("array_of_standard_bit_length_primitives"):
                continue
            try:
                paths = M.advance(cname, mname)
            except _Unknown as e:
                ctx.ob(R, rel, f"{cname}.{mname} :: cursor advance", False, f"cannot evaluate the cursor movement: {e}", f.lineno)
                continue
            for conds, adv in paths:
                if any(c == "raise" for c, _ in conds):
                    continue
                n += 1
                if mname == "fetch_aligned_array_of_standard_bit_length_primitives":
                    ok = adv in ({"out.nbytes": 8}, {"count*numpy.dtype(dtype).itemsize": 8}) or _show(adv).replace(" ", "") in ("8*out.nbytes",)
                elif mname == "fetch_unaligned_array_of_standard_bit_length_primitives":
                    ok = len(adv) == 1 and list(adv.values()) == [8] and "itemsize" in next(iter(adv)) and "count" in next(iter(adv))
                else:
                    ok = adv == exp or M._zero_path(conds, adv)
                shown = [f"{'' if pol else 'not '}{c[:40]}" for c, pol in conds]
                ctx.ob(R, rel, f"{cname}.{mname} {shown if shown else ''} :: cursor moves by {_show(exp) if exp else 'the byte size of the array * 8'}".replace("  ", " "), ok,
                       "" if ok else f"net effect on _bit_offset is {_show(adv)}: the next field is read / written at the wrong bit", f.lineno)
    ctx.floor(R, n, 40)

    S, D = M.methods["Serializer"], M.methods["Deserializer"]

    # ---- WIDTH -----------------------------------------------------------------------------------------------
    R = "R-C14-PY-WIDTH"
    for w in (16, 32, 64):
        h = w // 2
        f = S.get(f"add_aligned_u{w}")
        calls = [c for c in ast.walk(f) if isinstance(c, ast.Call) and ast.unparse(c.func) == f"self.add_aligned_u{h}"] if f else []
        x = f.args.args[1].arg if f else "x"
        args = [ast.unparse(c.args[0]).replace(" ", "") for c in sorted(calls, key=lambda c: (c.lineno, c.col_offset))]
        lo_ok = len(args) == 2 and args[0] in (x, f"{x}&{hex(2 ** h - 1)}", f"{x}&0x{2 ** h - 1:X}", f"{x}&{2 ** h - 1}")
        hi_ok = len(args) == 2 and args[1] in (f"{x}>>{h}", f"({x}>>{h})&{hex(2 ** h - 1)}", f"({x}>>{h})&0x{2 ** h - 1:X}", f"{x}>>{h}&0x{2 ** h - 1:X}", f"{x}>>{h}&{2 ** h - 1}")
        ctx.ob(R, rel, f"Serializer.add_aligned_u{w} :: low half, then x >> {h}", lo_ok and hi_ok, "" if lo_ok and hi_ok else f"halves written: {args}", f.lineno if f else None)
        g = D.get(f"fetch_aligned_u{w}")
        ok = False
        if g:
            first = [s for s in g.body if isinstance(s, ast.Assign) and ast.unparse(s.value) == f"self.fetch_aligned_u{h}()"]
            second = [s for s in g.body if isinstance(s, ast.AugAssign) and isinstance(s.op, ast.BitOr) and ast.unparse(s.value).replace(" ", "") == f"self.fetch_aligned_u{h}()<<{h}"]
            ok = len(first) == 1 and len(second) == 1 and first[0].lineno < second[0].lineno
        ctx.ob(R, rel, f"Deserializer.fetch_aligned_u{w} :: low half | (high half << {h})", ok, "", g.lineno if g else None)
    def _call_of(f, callee):
        cs = [c for c in ast.walk(f) if isinstance(c, ast.Call) and ast.unparse(c.func) == f"self.{callee}"] if f else []
        return cs[0] if len(cs) == 1 else None

    for w in (8, 16, 32, 64):
        f = S.get(f"add_aligned_i{w}")
        x = ast.Name(id=f.args.args[1].arg, ctx=ast.Load()) if f else None
        c = _call_of(f, f"add_aligned_u{w}")
        ok = c is not None and len(c.args) == 1 and _is_to_unsigned(_through_method(S, c.args[0]), x, w, {})
        ctx.ob(R, rel, f"Serializer.add_aligned_i{w} :: two's complement with 2**{w}", ok,
               "" if ok else (f"writes `{ast.unparse(c.args[0])}`" if c is not None and c.args else f"no single call of add_aligned_u{w}") +
               f": not the {w}-bit two's complement image of the argument", f.lineno if f else None)
        g = D.get(f"fetch_aligned_i{w}")
        e = _body_expr(g) if g else None
        ok = False
        if e is not None:
            e = _through_method(D, e)
            us = [c for c in ast.walk(e) if isinstance(c, ast.Call) and ast.unparse(c.func) == f"self.fetch_aligned_u{w}" and not c.args]
            ok = bool(us) and _is_to_signed(e, us[0], w, {})
        ctx.ob(R, rel, f"Deserializer.fetch_aligned_i{w} :: x - 2**{w} when x >= 2**{w - 1}", ok,
               "" if ok else f"returns `{ast.unparse(e) if e is not None else '?'}`: not the signed reading of the {w}-bit pattern fetch_aligned_u{w}() delivers", g.lineno if g else None)
    for meth in ("add_aligned_signed", "add_unaligned_signed"):
        f = S.get(meth)
        c = _call_of(f, meth.replace("signed", "unsigned"))
        ok = False
        if f is not None and c is not None and len(c.args) == 2 and len(f.args.args) == 3:
            xv, bl = f.args.args[1].arg, f.args.args[2].arg
            ok = _same(c.args[1], ast.Name(id=bl, ctx=ast.Load())) and _is_to_unsigned(_through_method(S, c.args[0]), ast.Name(id=xv, ctx=ast.Load()), None, {bl: ("w",)})
        ctx.ob(R, rel, f"Serializer.{meth} :: 2**bit_length + value for negative values, same bit_length", ok,
               "" if ok else (f"writes `{ast.unparse(c.args[0])}`" if c is not None and c.args else "delegation not recognised"), f.lineno if f else None)
    for meth in ("fetch_aligned_signed", "fetch_unaligned_signed"):
        g = D.get(meth)
        e = _body_expr(g) if g else None
        ok = False
        if e is not None and len(g.args.args) == 2:
            bl = g.args.args[1].arg
            e = _through_method(D, e)
            us = [c for c in ast.walk(e) if isinstance(c, ast.Call) and ast.unparse(c.func) == f"self.{meth.replace('signed', 'unsigned')}"
                  and len(c.args) == 1 and _same(c.args[0], ast.Name(id=bl, ctx=ast.Load()))]
            ok = bool(us) and _is_to_signed(e, us[0], None, {bl: ("w",)})
        ctx.ob(R, rel, f"Deserializer.{meth} :: u - 2**bit_length when u >= 2**(bit_length - 1)", ok,
               "" if ok else f"returns `{ast.unparse(e) if e is not None else '?'}`", g.lineno if g else None)
    for w, ch in ((16, "e"), (32, "f"), (64, "d")):
        for al in ("aligned", "unaligned"):
            f = S.get(f"add_{al}_f{w}")
            src = ast.unparse(f).replace(" ", "") if f else ""
            ok = f"self.add_{al}_bytes(self._float_to_bytes('{ch}'," in src
            ctx.ob(R, rel, f"Serializer.add_{al}_f{w} :: struct format '{ch}'", ok, "", f.lineno if f else None)
            g = D.get(f"fetch_{al}_f{w}")
            src = ast.unparse(g).replace(" ", "") if g else ""
            ok = f"struct.unpack('<{ch}',self.fetch_{al}_bytes({w // 8}))" in src
            ctx.ob(R, rel, f"Deserializer.fetch_{al}_f{w} :: struct format '<{ch}' over {w // 8} bytes", ok, "", g.lineno if g else None)
    f = S.get("_float_to_bytes")
    src = ast.unparse(f).replace(" ", "") if f else ""
    ok = "'<'+format_char" in src or "f'<{format_char}'" in src
    ctx.ob(R, rel, "Serializer._float_to_bytes :: little-endian struct format", ok, "", f.lineno if f else None)

    # ---- SHIFT -----------------------------------------------------------------------------------------------
    R = "R-C14-PY-SHIFT"
    import re
    f = S.get("add_unaligned_bytes")
    src = ast.unparse(f).replace(" ", "") if f else ""
    m1 = re.search(r"(?P<l>\w+)=self\._bit_offset%8\n(?P<r>\w+)=8-(?P=l)\n", src)
    ctx.ob(R, rel, "Serializer.add_unaligned_bytes :: left = offset % 8, right = 8 - left", m1 is not None, "", f.lineno if f else None)
    loops = [n_ for n_ in ast.walk(f) if isinstance(n_, ast.For)] if f else []
    seq = [ast.unparse(s_).replace(" ", "") for s_ in (loops[0].body if loops else [])]
    ok = False
    if m1 and loops and isinstance(loops[0].target, ast.Name) and len(seq) == 3:
        b, l, r = loops[0].target.id, m1.group("l"), m1.group("r")
        ok = seq[0] in (f"self._buf[self._byte_offset]|={b}<<{l}&255", f"self._buf[self._byte_offset]|=({b}<<{l})&255") \
            and seq[1] == "self._bit_offset+=8" and seq[2] == f"self._buf[self._byte_offset]={b}>>{r}"
    ctx.ob(R, rel, "Serializer.add_unaligned_bytes :: current byte |= (b << left) & 0xFF; advance 8; next byte = b >> right", ok, "" if ok else f"loop body: {seq}", f.lineno if f else None)
    g = D.get("fetch_unaligned_bytes")
    src = ast.unparse(g).replace(" ", "") if g else ""
    m2 = re.search(r"(?P<r>\w+)=self\._bit_offset%8\n\s*(?P<l>\w+)=8-(?P=r)\n", src)
    ok = False
    if m2:
        l, r = m2.group("l"), m2.group("r")
        ok = re.search(rf"self\._buf\.get_byte\((?P<o>\w+)\)>>{r}\|self\._buf\.get_byte\((?P=o)\+1\)<<{l}&255", src) is not None
    ctx.ob(R, rel, "Deserializer.fetch_unaligned_bytes :: (byte[o] >> right) | ((byte[o+1] << left) & 0xFF), right = offset % 8, left = 8 - right", ok, "", g.lineno if g else None)
    cnt = g.args.args[1].arg if g else "count"
    ok = "ifself._bit_offset%8!=0:" in src and f"returnself.fetch_aligned_bytes({cnt})" in src
    ctx.ob(R, rel, "Deserializer.fetch_unaligned_bytes :: the byte-aligned case is delegated (the shift pair is undefined for right == 0)", ok, "", g.lineno if g else None)
    f = S.get("add_unaligned_bit")
    src = ast.unparse(f).replace(" ", "") if f else ""
    xb = f.args.args[1].arg if f else "x"
    ok = f"self._buf[self._byte_offset]|=bool({xb})<<self._bit_offset%8" in src
    ctx.ob(R, rel, "Serializer.add_unaligned_bit :: byte |= bool(x) << (offset % 8)", ok, "", f.lineno if f else None)
    g = D.get("fetch_unaligned_bit")
    src = ast.unparse(g).replace(" ", "") if g else ""
    mm = re.search(r"(?P<m>\w+)=1<<self\._bit_offset%8\n", src)
    ok = mm is not None and f"self._buf.get_byte(self._byte_offset)&{mm.group('m')}=={mm.group('m')}" in src
    ctx.ob(R, rel, "Deserializer.fetch_unaligned_bit :: byte & (1 << (offset % 8))", ok, "", g.lineno if g else None)
    for cls_, nm in ((S, "Serializer"), (D, "Deserializer")):
        p = cls_.get("_byte_offset")
        ok = p is not None and "returnself._bit_offset//8" in ast.unparse(p).replace(" ", "")
        ctx.ob(R, rel, f"{nm}._byte_offset :: offset // 8", ok, "", p.lineno if p else None)

    # ---- MASK ------------------------------------------------------------------------------------------------
    R = "R-C14-PY-MASK"
    f = S.get("_unsigned_to_bytes")
    src = ast.unparse(f).replace(" ", "") if f else ""
    ok = False
    if f and len(f.args.args) >= 2:
        v, bl = f.args.args[-2].arg, f.args.args[-1].arg
        m3 = re.search(rf"(?P<n>\w+)=\({bl}\+7\)//8\n", src)
        if m3:
            nb = m3.group("n")
            ok = f"{v}&=2**{bl}-1" in src and re.search(rf"for(?P<i>\w+)inrange\({nb}\):\n\s*(?P<o>\w+)\[(?P=i)\]={v}&255\n\s*{v}>>=8", src) is not None
            # the same octets without consuming the value: out[i] = (value >> (i * 8)) & 0xFF
            ok = ok or (f"{v}&=2**{bl}-1" in src and re.search(
                rf"for(?P<i>\w+)inrange\({nb}\):\n\s*(?P<o>\w+)\[(?P=i)\]={v}>>(?:(?P=i)\*8|8\*(?P=i))&255\n", src) is not None and f"{v}>>=" not in src)
    ctx.ob(R, rel, "Serializer._unsigned_to_bytes :: value masked to bit_length bits, ceil(bit_length / 8) bytes, least significant first", ok, "", f.lineno if f else None)
    g = D.get("_unsigned_from_bytes")
    src = ast.unparse(g).replace(" ", "") if g else ""
    ok = False
    if g and len(g.args.args) >= 2:
        xa, bl = g.args.args[-2].arg, g.args.args[-1].arg
        m4 = re.search(rf"(?P<n>\w+)=\({bl}\+7\)//8\n", src)
        m5 = re.search(rf"(?P<m>\w+)=2\*\*\({bl}%8\)-1if{bl}%8!=0else255\n", src)
        if m4 and not m5:
            # the width of the top octet as `bit_length % 8 or 8`
            m5b = re.search(rf"(?P<w>\w+)={bl}%8or8\n", src)
            if m5b:
                m5 = re.search(rf"(?P<m>\w+)=2\*\*{m5b.group('w')}-1\n", src)
        if m4 and m5:
            nb, mk = m4.group("n"), m5.group("m")
            m6 = re.search(rf"(?P<last>\w+)={nb}-1\n", src)
            if m6:
                last = m6.group("last")
                ok = re.search(rf"for(?P<i>\w+)inrange\({last}\):\n\s*(?P<o>\w+)\|=int\({xa}\[(?P=i)\]\)<<(?P=i)\*8", src) is not None and \
                    re.search(rf"\w+\|=\(int\({xa}\[{last}\]\)&{mk}\)<<{last}\*8", src) is not None
                # the low octets as a sum of disjoint terms, the masked top octet OR-ed on
                msum = re.search(rf"(?P<lo>\w+)=sum\(\(?int\({xa}\[(?P<i>\w+)\]\)<<(?P=i)\*8for(?P=i)inrange\({last}\)\)?\)\n", src)
                if not ok and msum:
                    ok = re.search(rf"\w+={msum.group('lo')}\|\(int\({xa}\[{last}\]\)&{mk}\)<<{last}\*8", src) is not None
    ctx.ob(R, rel, "Deserializer._unsigned_from_bytes :: bytes combined least significant first, the last one masked to bit_length % 8 bits", ok, "", g.lineno if g else None)

    # ---- ZEROEXT ---------------------------------------------------------------------------------------------
    R = "R-C14-PY-ZEROEXT"
    Z = M.methods["ZeroExtendingBuffer"]
    gb = Z.get("get_byte")
    ok = False
    if gb:
        idx = gb.args.args[1].arg
        tries = [n_ for n_ in ast.walk(gb) if isinstance(n_, ast.Try)]
        ok = any(any(h.type is not None and ast.unparse(h.type) == "IndexError" and any(isinstance(r, ast.Return) and ast.unparse(r.value) == "0" for r in h.body) for h in t_.handlers)
                 for t_ in tries)
        # ... or by an explicit range test in front of the access: `if index >= len(self._buf): return 0`
        ok = ok or any(isinstance(i_, ast.If) and ast.unparse(i_.test).replace(" ", "") in (f"{idx}>=len(self._buf)", f"len(self._buf)<={idx}", f"not{idx}<len(self._buf)")
                       and any(isinstance(r, ast.Return) and ast.unparse(r.value) == "0" for r in i_.body) for i_ in gb.body)
        neg = any(isinstance(i_, ast.If) and ast.unparse(i_.test).replace(" ", "") == f"{idx}<0" and any(isinstance(r, ast.Raise) for r in i_.body) for i_ in gb.body)
        ctx.ob(R, rel, "ZeroExtendingBuffer.get_byte :: a negative index is refused (it would read from the end)", neg, "", gb.lineno)
    ctx.ob(R, rel, "ZeroExtendingBuffer.get_byte :: out-of-range read returns 0", ok, "", gb.lineno if gb else None)
    gs = Z.get("get_unsigned_slice")
    src = ast.unparse(gs).replace(" ", "") if gs else ""
    ok = ("ifnot0<=left<=right:" in src or "ifleft<0orright<left:" in src or "ifright<leftorleft<0:" in src) and "count=int(right-left)" in src and "iflen(out)<count:" in src and \
        "numpy.concatenate((out,numpy.zeros(count-len(out),dtype=Byte)))" in src
    ctx.ob(R, rel, "ZeroExtendingBuffer.get_unsigned_slice :: bounds refused unless 0 <= left <= right; result right-padded with zeros to right - left", ok, "", gs.lineno if gs else None)
    fb = Z.get("fork_bytes")
    src = ast.unparse(fb).replace(" ", "") if fb else ""
    ok = "ifoffset_bytes+length_bytes>len(self._buf):" in src and "raiseValueError" in src
    ctx.ob(R, rel, "ZeroExtendingBuffer.fork_bytes :: a fork beyond the buffer is refused", ok, "", fb.lineno if fb else None)
    # direct indexing of the raw buffer by the byte offset only after an alignment assertion
    for cname, cls_ in (("Serializer", S), ("Deserializer", D), ("_LittleEndianDeserializer", M.methods.get("_LittleEndianDeserializer", {}))):
        for mname, f in sorted(cls_.items()):
            if "_aligned_" not in mname or "unaligned" in mname:
                continue
            direct = [n_ for n_ in ast.walk(f) if (isinstance(n_, ast.Subscript) and ast.unparse(n_.value) == "self._buf") or
                      (isinstance(n_, ast.Call) and ast.unparse(n_.func) in ("self._buf.get_byte", "self._buf.get_unsigned_slice"))]
            if not direct:
                continue
            first = min(n_.lineno for n_ in direct)
            asserts = [a for a in f.body if isinstance(a, ast.Assert) and ast.unparse(a.test).replace(" ", "") == "self._bit_offset%8==0" and a.lineno < first]
            ctx.ob(R, rel, f"{cname}.{mname} :: byte alignment asserted before the buffer is indexed by offset // 8", bool(asserts),
                   "" if asserts else "an unaligned cursor would silently be rounded down to the byte boundary", f.lineno)
