"""Helpers shared by the C and C++ halves of the C14 check (terms are nvsa.cast tuples)."""
import re
import typing

from nvsa import cast

MIN_NAMES = {"nunavutChooseMin", "min"}
TYPE_BYTES = {"uint8_t": 1, "int8_t": 1, "uint16_t": 2, "int16_t": 2, "uint32_t": 4, "int32_t": 4, "uint64_t": 8, "int64_t": 8,
              "unsigned char": 1, "bool": 1}
# C minimum widths of literal types (value bits; a signed type loses one to the sign)
LITERAL_BITS = {"int": 15, "unsigned int": 16, "long": 31, "unsigned long": 32, "long long": 63, "unsigned long long": 64}


def res(rule: str, fn: str, construct: str, ok: bool, detail: str = "") -> dict:
    return {"rule": rule, "fn": fn, "construct": construct, "ok": bool(ok), "detail": "" if ok else detail}


def flat(op: str, t) -> list:
    if t[0] == "bin" and t[1] == op:
        return flat(op, t[2]) + flat(op, t[3])
    return [t]


def is_int(t, v=None) -> bool:
    return t[0] == "int" and (v is None or t[1] == v)


def is_min(t) -> bool:
    return t[0] == "call" and t[1] in MIN_NAMES and len(t[2]) == 2


def times8(t):
    """S for S*8 / 8*S"""
    if t[0] == "bin" and t[1] == "*":
        if is_int(t[3], 8):
            return t[2]
        if is_int(t[2], 8):
            return t[3]
    return None


def type_bytes(qual: str) -> typing.Optional[int]:
    q = qual.replace("const ", "").replace("volatile ", "").strip()
    m = re.fullmatch(r"(\w[\w ]*?)\s*\[(\d+)\]", q)
    if m:
        b = TYPE_BYTES.get(m.group(1).strip())
        return b * int(m.group(2)) if b else None
    m = re.fullmatch(r"(?:std::)?array<(?:const )?(\w+), (\d+)>", q)
    if m:
        b = TYPE_BYTES.get(m.group(1))
        return b * int(m.group(2)) if b else None
    return TYPE_BYTES.get(q)


def upper_bound(t, param_types: typing.Dict[str, str], sat_names: typing.Set[str]) -> typing.Optional[int]:
    """a constant the (unsigned) term cannot exceed, if one is visible in its shape"""
    if t[0] == "int":
        return t[1]
    if is_min(t):
        bs = [b for b in (upper_bound(a, param_types, sat_names) for a in t[2]) if b is not None]
        return min(bs) if bs else None
    if t[0] == "call" and t[1] in sat_names and t[2]:
        return upper_bound(t[2][-1], param_types, sat_names)
    if t[0] == "mcall" and t[2] in sat_names and t[3]:
        return upper_bound(t[3][-1], param_types, sat_names)
    if t[0] == "ref" and t[1] in param_types:
        b = type_bytes(param_types[t[1]])
        if b == 1:
            return 255
    return None


def return_type(fn) -> str:
    return cast.fn_type(fn).split("(")[0].strip()


def name_width(name: str) -> typing.Optional[int]:
    m = re.search(r"(?:[UIF])(8|16|32|64)$", name.split("/")[0])
    return int(m.group(1)) if m else None


def then_returns(if_node) -> typing.Optional[tuple]:
    """term of the return statement that ends the then-branch of an IfStmt without else (None otherwise)"""
    inner = if_node.get("inner") or []
    if len(inner) != 2:
        return None
    body = inner[1]
    last = body
    while last.get("kind") == "CompoundStmt" and last.get("inner"):
        last = last["inner"][-1]
    if last.get("kind") != "ReturnStmt":
        return None
    ri = last.get("inner") or []
    return cast.term(ri[0]) if ri else ("int", 0, "void")


def alpha_print(fn, drop_calls: typing.Sequence[str] = (), width: typing.Optional[int] = None, callee_map=None) -> typing.List[str]:
    """statement-by-statement print of a function with locals/parameters renamed by order of first appearance, casts gone,
    assertion calls dropped and (optionally) the width W and width-named callees abstracted"""
    names: typing.Dict[str, str] = {}
    local_names = set(cast.local_defs(fn)) | {p for p in cast.params_of(fn) if p}

    def ren(t):
        if t[0] == "ref":
            n = t[1]
            if n in local_names:
                names.setdefault(n, f"v{len(names)}")
                return ("ref", names[n])
            if callee_map:
                return ("ref", callee_map(n))
            return t
        if t[0] == "int":
            if width is not None and t[1] == width:
                return ("ref", "W")
            return ("int", t[1], "")
        if t[0] == "call":
            nm = callee_map(t[1]) if callee_map else t[1]
            return ("call", nm, tuple(ren(a) for a in t[2]))
        if t[0] == "mcall":
            nm = callee_map(t[2]) if callee_map else t[2]
            return ("mcall", ren(t[1]), nm, tuple(ren(a) for a in t[3]))
        if t[0] == "sizeof":
            return ("sizeof", ("type", "T"))
        if t[0] == "ctor":
            return ("ctor", re.sub(r"\d+", "W", t[1]), tuple(ren(a) for a in t[2]))
        out = []
        for x in t:
            if isinstance(x, tuple):
                if x and isinstance(x[0], str):
                    out.append(ren(x))
                else:
                    out.append(tuple(ren(y) if isinstance(y, tuple) else y for y in x))
            else:
                out.append(x)
        return tuple(out)

    lines = []
    for s in cast.statements(fn):
        depth = "".join(g[0][0] for g in s.guards)
        k = s.node.get("kind")
        if k == "DeclStmt":
            for name, _ty, init in cast.decls_of(s):
                names.setdefault(name, f"v{len(names)}")
                if init is not None and init[0] == "ctor" and not init[2]:
                    init = None     # default construction of a local aggregate == C declaration without initialiser
                lines.append(f"{depth}|{names[name]}:={cast.show(ren(init)) if init is not None else '?'}")
            continue
        t = cast.stmt_term(s)
        if t is None:
            continue
        if t[0] == "call" and t[1] in drop_calls:
            continue
        if t[0] == "other":
            continue
        tag = {"IfStmt": "if ", "WhileStmt": "while "}.get(k, "")
        lines.append(f"{depth}|{tag}{cast.show(ren(t))}")
    return lines


def zero_fill_guard_ok(guards, count, env) -> typing.Tuple[bool, str]:
    """a zero-extension memset may only be skipped when its own byte count is zero"""
    for kind, cond in guards:
        c = cast.substitute(cond, env)
        cnt = cast.substitute(count, env)
        ok = kind == "if" and c[0] == "bin" and (
            (c[1] in (">", "!=") and c[2] == cnt and is_int(c[3], 0)) or (c[1] in ("<", "!=") and is_int(c[2], 0) and c[3] == cnt))
        if not ok:
            return False, (f"the zero fill runs only under `{cast.show(cond)}`: when that is false the output keeps stale bits "
                           "(e.g. the padding of the last byte when the length is not a multiple of 8)")
    return True, ""


def early_exit_before(stmts, before_index: int, len_names) -> typing.Tuple[bool, str]:
    """no return statement precedes the zero fill, except under `<requested length> == 0` (nothing to clear then)"""
    for st in stmts:
        if st.index >= before_index:
            break
        if st.node.get("kind") == "ReturnStmt":
            ok = False
            for kind, cond in st.guards:
                if kind == "if" and cond[0] == "bin" and cond[1] == "==":
                    a, b = cond[2], cond[3]
                    if (is_int(a, 0) and b[0] == "ref" and b[1] in len_names) or (is_int(b, 0) and a[0] == "ref" and a[1] in len_names):
                        ok = True
            if not ok:
                conds = " && ".join(cast.show(c) for _k, c in st.guards) or "always"
                return False, (f"the routine returns early under `{conds}` before the zero fill: the output keeps stale bytes on that path "
                               "(e.g. an array that lies entirely past the end of a truncated buffer is not zero-extended)")
    return True, ""


def rule_f16_special(fn, fname: str) -> typing.List[dict]:
    """Half-precision unpack: a half whose exponent field is all ones (0x7C00 .. 0x7FFF after the sign is removed) is infinity or NaN
    and must come out non-finite.  The routines recognise these either on the scaled float (`x >= 2**16`, the first value that a
    finite half cannot reach) or on the bit pattern (`magnitude >= 0x7C00`, `(h & 0x7C00) == 0x7C00`).  The boundary belongs to the
    special values: a strict comparison lets +-infinity through as the finite 65536.0."""
    R = "R-C14-F16-SPECIAL"
    out = []
    # constants held in locals: <local>.bits = K  /  local = K
    consts = {}
    for s in cast.statements(fn):
        t = cast.stmt_term(s)
        if t is not None and t[0] == "bin" and t[1] == "=" and not s.guards:
            lhs, rhs = t[2], t[3]
            v = _const_value(rhs)
            if v is not None:
                consts[cast.show(lhs)] = v
    # ... or initialised in their declaration: `const uint32_t k = 0x8FU << 23U;`
    for n in cast.walk(fn):
        if n.get("kind") == "VarDecl" and n.get("inner") and n.get("name"):
            try:
                v = _const_value(cast.term(n["inner"][-1]))
            except Exception:  # noqa
                v = None
            if v is not None:
                consts.setdefault(n["name"], v)
    found = False
    for s in cast.statements(fn):
        if s.node.get("kind") != "IfStmt":
            continue
        c = cast.stmt_term(s)
        if c is None:
            continue
        for t in cast.subterms(c):
            if not (isinstance(t, tuple) and t and t[0] == "bin" and t[1] in (">", ">=", "<", "<=", "==")):
                continue
            for a, b, op in ((t[2], t[3], t[1]), (t[3], t[2], {">": "<", ">=": "<=", "<": ">", "<=": ">=", "==": "=="}[t[1]])):
                k = _const_value(b)
                if k is None:
                    k = _float_bits_of(cast.show(b), consts)
                if k is None:
                    continue
                # a op K  with K the boundary: 0x7C00 on bits, 65536.0 (float bits 0x47800000 == 0x8F << 23) on the scaled value
                if k in (0x7C00, 65536.0, 0x8F << 23):
                    found = True
                    masked = a[0] == "bin" and a[1] == "&" and any(_const_value(x) == 0x7C00 for x in a[2:4])
                    ok = op == ">=" or (op == "==" and masked)
                    out.append(res(R, fname, f"{fname}: exponent-all-ones halves (boundary {'0x7C00' if k == 0x7C00 else '2**16'}) are treated as infinity / NaN", ok,
                                   f"the special-value test is `{cast.show(t)}`: the boundary value itself (+-infinity) is excluded and unpacks as the finite 65536.0"))
    if not found:
        from nvsa.report import AnalysisError
        raise AnalysisError(f"anchor changed: the test of {fname} that separates infinity / NaN from finite halves is not recognised "
                            "(no comparison with 0x7C00, 2**16 or its binary32 pattern in an if)")
    return out


def _const_value(t):
    """integer / float value of a constant expression term (literals, shifts and ors of literals)"""
    if not isinstance(t, tuple) or not t:
        return None
    if t[0] == "int":
        return t[1]
    if t[0] == "float":
        return t[1]
    if t[0] == "bin" and t[1] in ("<<", "|", "+", "*"):
        a, b = _const_value(t[2]), _const_value(t[3])
        if isinstance(a, int) and isinstance(b, int):
            return {"<<": a << b if b < 64 else None, "|": a | b, "+": a + b, "*": a * b}[t[1]]
    return None


def _float_bits_of(shown: str, consts) -> typing.Optional[int]:
    """`x.real` where `x.bits` was set to a constant: the float is given by those bits"""
    if shown.endswith(".real") and shown[:-5] + ".bits" in consts:
        return consts[shown[:-5] + ".bits"]
    return consts.get(shown)


def rule_f16_pack_order(fn, fname: str) -> typing.List[dict]:
    """Half-precision pack: the classification of the input as infinity / NaN (comparison of the magnitude bits with 0x7F800000 and the
    test of the mantissa) reads the input's own bits.  Before it the value may only be loaded and have its sign removed; rounding
    masks, scaling and re-biasing belong to the finite branch - applied earlier they turn NaNs with a small payload into infinity."""
    R = "R-C14-F16-SPECIAL"
    consts = {}
    stmts = cast.statements(fn)
    for s in stmts:
        t = cast.stmt_term(s)
        if t is not None and t[0] == "bin" and t[1] == "=" and not s.guards:
            v = _const_value(t[3])
            if v is not None:
                consts[cast.show(t[2])] = v
    cls_idx, subject = None, None
    for s in stmts:
        if s.node.get("kind") != "IfStmt" or s.guards:
            continue
        c = cast.stmt_term(s)
        if c is None:
            continue
        for t in cast.subterms(c):
            if isinstance(t, tuple) and t and t[0] == "bin" and t[1] in (">=", ">", "<", "<="):
                for a, b in ((t[2], t[3]), (t[3], t[2])):
                    k = _const_value(b)
                    if k is None:
                        k = consts.get(cast.show(b))
                    if k == 0x7F800000:
                        cls_idx, subject = s.index, cast.show(a)
        if cls_idx is not None:
            break
    if cls_idx is None:
        return [res(R, fname, f"{fname}: the infinity / NaN classification is recognised", True, "")]
    base = subject.rsplit(".", 1)[0]
    bad = []
    for s in stmts:
        if s.index >= cls_idx or s.guards:
            continue
        t = cast.stmt_term(s)
        if t is None or t[0] != "bin" or not t[1].endswith("="):
            continue
        if t[1] in ("==", "<=", ">=", "!="):
            continue
        lhs = cast.show(t[2])
        if lhs.rsplit(".", 1)[0] != base:
            continue
        if t[1] == "=" or t[1] == "^=":
            continue       # load of the input / removal of the sign
        bad.append(cast.show(t))
    ok = not bad
    out = [res(R, fname, f"{fname}: the input is only loaded and stripped of its sign before it is classified as infinity / NaN", ok,
               f"`{'; '.join(bad)}` modifies the value before the classification: a NaN whose payload lies in the masked / scaled-away bits is packed as infinity")]
    # the finite branch: the re-biased 32-bit pattern is clamped to the pattern of half-precision infinity (31 << 23) *before* it is narrowed
    # to 16 bits.  Narrowed first, the exponent bits above bit 28 are gone and magnitudes from 2**49 on pack to finite garbage.
    F16INF32 = 31 << 23
    for s in stmts:
        t = cast.stmt_term(s)
        if t is None or t[0] != "bin" or t[1] != "=":
            continue
        shifted = [x for x in cast.subterms(t[3]) if isinstance(x, tuple) and x and x[0] == "bin" and x[1] == ">>" and _const_value(x[3]) == 13]
        if not shifted:
            continue
        subj = cast.show(shifted[0][2])
        if subj.rsplit(".", 1)[0] != base:
            continue
        clamped = False
        for g in stmts:
            if g.index >= s.index or g.node.get("kind") != "IfStmt":
                continue
            c = cast.stmt_term(g)
            if c is None:
                continue
            for u in cast.subterms(c):
                if isinstance(u, tuple) and u and u[0] == "bin" and u[1] in (">", ">=", "<", "<="):
                    for a, b in ((u[2], u[3]), (u[3], u[2])):
                        kv = _const_value(b)
                        if kv is None:
                            kv = consts.get(cast.show(b))
                        if cast.show(a) == subj and kv == F16INF32:
                            clamped = True
        out.append(res(R, fname, f"{fname}: the finite result is clamped to infinity as a 32-bit pattern, before it is narrowed to 16 bits", clamped,
                       f"`{cast.show(t)[:70]}` narrows `{subj}` without a preceding comparison of `{subj}` with 31 << 23: bits above the half-precision exponent are cut "
                       "off first, so magnitudes of 2**49 and more become finite values instead of infinity (and the mapping is no longer monotone)"))
    return out


# ---- shift amounts stay below the width of what is shifted ----------------------------------------------------------------
def _int_lit(n) -> typing.Optional[int]:
    from nvsa import cast
    n = cast.strip_casts(n)
    if n.get("kind") == "IntegerLiteral":
        try:
            return int(n.get("value"))
        except (TypeError, ValueError):
            return None
    return None


def _cmp_facts(cond, pol: bool):
    """(variable, 'ub'|'lb', bound) facts implied by a guard: conjunctions are split for a guard that holds, disjunctions for one
    that does not; comparisons of a variable with an integer literal only"""
    from nvsa import cast
    c = cast.strip_casts(cond)
    if c.get("kind") == "BinaryOperator" and c.get("opcode") in ("&&", "||"):
        if (c["opcode"] == "&&") == pol:
            out = []
            for x in c.get("inner", []):
                out += _cmp_facts(x, pol)
            return out
        return []
    if c.get("kind") == "UnaryOperator" and c.get("opcode") == "!":
        return _cmp_facts(c["inner"][0], not pol)
    if c.get("kind") == "BinaryOperator" and c.get("opcode") in ("<", "<=", ">", ">=", "!=", "=="):
        a, b = c["inner"]
        op = c["opcode"]
        va, vb, la, lb = cast.ref_name(a), cast.ref_name(b), _int_lit(a), _int_lit(b)
        if va is None and vb is not None and la is not None:
            va, lb = vb, la
            op = {"<": ">", "<=": ">=", ">": "<", ">=": "<=", "!=": "!=", "==": "=="}[op]
        elif not (va is not None and lb is not None):
            return []
        if not pol:
            op = {"<": ">=", "<=": ">", ">": "<=", ">=": "<", "!=": "==", "==": "!="}[op]
        k = lb
        return {"<": [(va, "ub", k - 1)], "<=": [(va, "ub", k)], ">": [(va, "lb", k + 1)], ">=": [(va, "lb", k)],
                "!=": [(va, "lb", 1)] if k == 0 else [], "==": [(va, "ub", k), (va, "lb", k)]}[op]
    return []


def rule_shift_range(fn, fname: str, min_fns=("nunavutChooseMin", "min")) -> typing.List[dict]:
    """R-C14-SHIFT-RANGE: a shift by a run-time amount is undefined when the amount reaches the width of the (promoted) left operand.
    Decided where the amount is a saturated length `v` or `v - c` with v = min(.., K): on the way to the shift - the condition of an
    enclosing ?:, the left operand of an enclosing && / ||, an enclosing if - v must be bounded below the width (and, for `v - c`,
    from below by c).  A mask hoisted out of its `(v < W) ? .. : ..` is evaluated for v == W as well."""
    from nvsa import cast
    R = "R-C14-SHIFT-RANGE"
    out: typing.List[dict] = []
    # saturated locals:  T v = (T) min(x, K)
    sat: typing.Dict[str, int] = {}
    for n in cast.walk(fn):
        if n.get("kind") == "VarDecl" and n.get("inner"):
            init = cast.strip_casts(n["inner"][-1])
            if init.get("kind") in ("CallExpr", "CXXMemberCallExpr") and (cast.callee_name(init) or "").split("::")[-1] in min_fns:
                ks = [_int_lit(a) for a in cast.call_args(init)]
                ks = [k for k in ks if k is not None]
                if ks:
                    sat[n.get("name")] = min(ks)

    def visit(n, guards):
        k = n.get("kind")
        inner = n.get("inner") or []
        if k == "ConditionalOperator" and len(inner) == 3:
            visit(inner[0], guards)
            visit(inner[1], guards + [(inner[0], True)])
            visit(inner[2], guards + [(inner[0], False)])
            return
        if k == "BinaryOperator" and n.get("opcode") in ("&&", "||") and len(inner) == 2:
            visit(inner[0], guards)
            visit(inner[1], guards + [(inner[0], n["opcode"] == "&&")])
            return
        if k == "IfStmt" and len(inner) >= 2:
            cond_i = next((i for i, x in enumerate(inner) if x.get("kind") not in ("DeclStmt", "CompoundStmt", "NullStmt") and "type" in x), 0)
            for x in inner[:cond_i + 1]:
                visit(x, guards)
            rest = inner[cond_i + 1:]
            if rest:
                visit(rest[0], guards + [(inner[cond_i], True)])
            for x in rest[1:]:
                visit(x, guards + [(inner[cond_i], False)])
            return
        if k in ("BinaryOperator", "CompoundAssignOperator") and n.get("opcode") in ("<<", ">>", "<<=", ">>=") and len(inner) == 2:
            amount = cast.strip_casts(inner[1])
            v, off = None, 0
            if amount.get("kind") == "DeclRefExpr":
                v = cast.ref_name(amount)
            elif amount.get("kind") == "BinaryOperator" and amount.get("opcode") in ("-", "+") and len(amount.get("inner", [])) == 2:
                a, b = amount["inner"]
                if cast.ref_name(a) is not None and _int_lit(b) is not None:
                    v, off = cast.ref_name(a), (-_int_lit(b) if amount["opcode"] == "-" else _int_lit(b))
            if v is not None and v in sat:
                ub, lb = sat[v], 0
                for g, pol in guards:
                    for var, kind_, bound in _cmp_facts(g, pol):
                        if var == v:
                            if kind_ == "ub":
                                ub = min(ub, bound)
                            else:
                                lb = max(lb, bound)
                qual = (inner[0].get("type") or {}).get("qualType", "")
                bits = {"int": 16, "unsigned int": 16, "long": 32, "unsigned long": 32, "long long": 64, "unsigned long long": 64}.get(qual.replace("const ", ""))
                if bits is None:
                    tb = type_bytes(qual)
                    bits = tb * 8 if tb else None
                if bits is not None:
                    shown = f"{v}{off:+d}" if off else v
                    ok = ub + off < bits and lb + off >= 0
                    out.append(res(R, fname, f"{fname}: `{qual}` shifted by `{shown}` only where 0 <= {shown} < {bits}", ok,
                                   f"the shift is evaluated for {v} in [{lb}, {ub}]" + (f" (amount up to {ub + off})" if ub + off >= bits else " (amount below zero)") +
                                   f": shifting a {bits}-bit operand by {bits} or more (or by a negative amount) is undefined behaviour - "
                                   "the guard that kept the amount in range does not dominate this evaluation"))
        for x in inner:
            visit(x, guards)

    visit(fn, [])
    return out


def print_shape(lines: typing.Sequence[str]) -> typing.List[str]:
    """statement structure of an alpha_print: nesting prefix + statement kind (if / while / declaration / other).  Routines are
    compared operand by operand only while their shapes agree; an independently restructured sibling is not comparable"""
    import re
    return [re.sub(r"^([a-z]*\|)(if |while |v\d+:=)?.*$", lambda m_: m_.group(1) + (m_.group(2) or "=" if ":=" not in (m_.group(2) or "") else "decl"), ln) for ln in lines]


def norm(t):
    """one spelling for min written as a conditional and for the remaining-bits idiom:
       (a < b) ? a : b  ->  min(a, b);     (a < b) ? 0 : a - b  ->  a - min(a, b)"""
    if not isinstance(t, tuple) or not t:
        return t
    if t and isinstance(t[0], str):
        t = tuple(norm(x) if isinstance(x, tuple) else x for x in t)
    else:
        return tuple(norm(x) if isinstance(x, tuple) else x for x in t)
    if t[0] == "cond" and t[1][0] == "bin" and t[1][1] in ("<", "<=", ">", ">="):
        op, a, b = t[1][1], t[1][2], t[1][3]
        if op in (">", ">="):
            a, b, op = b, a, "<" if op == ">" else "<="          # a < b
        yes, no = t[2], t[3]
        if (yes, no) in ((a, b),):
            return ("call", "min", (a, b))
        if (yes, no) == (b, a):
            return ("call", "max", (a, b))
        if is_int(yes, 0) and no == ("bin", "-", a, b):
            return ("bin", "-", a, ("call", "min", (a, b)))        # a < b ? 0 : a - b
        if is_int(no, 0) and yes == ("bin", "-", b, a):
            return ("bin", "-", b, ("call", "min", (b, a)))        # a < b ? b - a : 0
    return t


