"""
Shared machinery for the codec properties (C01-C05): per-path rendering of the (de)serialization macros of the C, C++
and Python templates and a small event scanner over the emitted target-language text.
"""
import re
import typing

from nvsa import j2front, j2text
from nvsa.j2front import xs
from nvsa.report import AnalysisError

LANG_FILES = {
    "c": {"ser": "serialization.j2", "des": "deserialization.j2", "defs": "definitions.j2"},
    "cpp": {"ser": "serialization.j2", "des": "deserialization.j2", "defs": "_composite_type.j2"},
    "py": {"ser": "serialization.j2", "des": "deserialization.j2", "defs": "base.j2"},
}
KINDS = ["void", "boolean", "integer", "float", "fixed_length_array", "variable_length_array", "composite"]
KIND_TEST = {
    "VoidType": "void", "BooleanType": "boolean", "IntegerType": "integer", "FloatType": "float",
    "FixedLengthArrayType": "fixed_length_array", "VariableLengthArrayType": "variable_length_array", "CompositeType": "composite",
}


def strip_comments(text: str, lang: str) -> str:
    if lang in ("c", "cpp"):
        text = re.sub(r"/\*.*?\*/", " ", text, flags=re.S)
        text = re.sub(r"//[^\n]*", " ", text)
    else:
        text = re.sub(r"#[^\n]*", " ", text)
    return text


def squash(text: str) -> str:
    return re.sub(r"\s+", " ", text).strip()


class Codec:
    def __init__(self, ts: j2front.TemplateSet):
        self.ts = ts
        self.N = ts.nodes
        self._paths: typing.Dict[typing.Tuple[str, str, str], typing.List[j2text.TPath]] = {}

    def tmpl(self, lang, which):
        return self.ts.get(lang, LANG_FILES[lang][which])

    def macro(self, lang, which, name):
        return self.ts.macro(self.tmpl(lang, which), name)

    def has_macro(self, lang, which, name) -> bool:
        return name in self.ts.macros(self.tmpl(lang, which))

    def paths(self, lang, which, name, for_zero=False) -> typing.List[j2text.TPath]:
        key = (lang, which, name, for_zero)
        if key not in self._paths:
            m = self.macro(lang, which, name)
            self._paths[key] = j2text.render_paths(self.N, m.body, limit=4096, for_zero=for_zero)
        return self._paths[key]

    def text(self, lang, p: j2text.TPath) -> str:
        return squash(strip_comments(p.text, lang))

    # ---- dispatch -------------------------------------------------------------------------------------------------
    def dispatch_chain(self, lang, which, name):
        """the `t is X` if-chain of a *_any macro: [(class name, callee names)], closed?"""
        N = self.N
        m = self.macro(lang, which, name)
        chain = None
        for n in m.find_all(N.If):
            if re.match(r"^\(t is \w+Type\)$", xs(n.test)):
                chain = n
                break
        if chain is None:
            raise AnalysisError(f"anchor missing: kind dispatch in {lang}/{name}")
        out = []
        for cond, body in j2text.branches_of(N, chain):
            if cond == "else":
                closed = any(isinstance(x, N.CallBlock) and "_do_assert" in xs(x.call) and xs(x.call.args[0]) == "False"
                             for b in body for x in [b] + list(b.find_all(N.CallBlock)))
                out.append(("else", closed))
                continue
            cls = re.match(r"^\(t is (\w+)\)$", cond)
            callees = []
            text = ""
            for b in body:
                for c in [b] + list(b.find_all(N.Call)):
                    if isinstance(c, N.Call) and isinstance(c.node, N.Name):
                        callees.append(c.node.name)
                text += "".join(d.data for d in b.find_all(N.TemplateData))
            out.append((cls.group(1) if cls else cond, callees, text))
        return chain, out


def pydsdl_concrete_kinds():
    """concrete (leaf or instantiable) classes below SerializableType with their ancestor chains"""
    import pydsdl

    out = {}

    def rec(c):
        subs = c.__subclasses__()
        out[c.__name__] = [k.__name__ for k in c.__mro__ if k is not object]
        for s in subs:
            rec(s)

    rec(pydsdl.SerializableType)
    return out


# ---- event scanner for C / C++ text ---------------------------------------------------------------------------------
EV_ADV_C = re.compile(r"\boffset_bits \+= ([^;]+);")
EV_ADV_CPP = re.compile(r"\b(?:out_buffer|in_buffer)\.add_offset\(([^;]+)\);")
EV_RET_ERR_C = re.compile(r"\breturn -(NUNAVUT_ERROR_[A-Z_]+);")
EV_RET_ERR_CPP = re.compile(r"\breturn -nunavut::support::Error::(\w+);")
EV_PH = re.compile(r"Pz\d+z")


def events(text: str, lang: str, macro_phs: typing.Dict[str, str]):
    """ordered (pos, kind, payload) events of a rendered path"""
    ev = []
    adv = EV_ADV_C if lang == "c" else EV_ADV_CPP
    err = EV_RET_ERR_C if lang == "c" else EV_RET_ERR_CPP
    for m in adv.finditer(text):
        ev.append((m.start(), "advance", m.group(1).strip()))
    for m in err.finditer(text):
        ev.append((m.start(), "ret_err", m.group(1)))
    for m in EV_PH.finditer(text):
        if m.group(0) in macro_phs:
            ev.append((m.start(), "macro", macro_phs[m.group(0)]))
    if lang == "c":
        for m in re.finditer(r"(?<![&\w])buffer\[[^\]]*\] ?=(?!=)", text):
            ev.append((m.start(), "rawwrite", "buffer[..] ="))
        for m in re.finditer(r"\bmemmove\(&buffer\[|\bmemset\(&buffer\[|\bnunavutCopyBits\(&buffer\[0\]", text):
            ev.append((m.start(), "rawwrite", m.group(0)))
        for m in re.finditer(r"\b(nunavutSet\w+)\(", text):
            ev.append((m.start(), "call", m.group(1)))
        for m in re.finditer(r"\b(nunavutGet\w+)\(", text):
            ev.append((m.start(), "call", m.group(1)))
        for m in re.finditer(r"(?<![&\w])buffer\[[^\]]*\](?! ?=(?!=))", text):
            ev.append((m.start(), "rawread", "buffer[..]"))
    else:
        for m in re.finditer(r"\bout_buffer\.(set\w+|padAndMoveToAlignment|subspan)\(", text):
            ev.append((m.start(), "call", m.group(1)))
        for m in re.finditer(r"\bin_buffer\.(get\w+)\(", text):
            ev.append((m.start(), "call", m.group(1)))
    ev.sort()
    return ev


def macro_placeholders(p: j2text.TPath) -> typing.Dict[str, str]:
    """placeholders of a path that stand for macro calls: name -> callee"""
    out = {}
    for n, e in p.ph:
        s = e if isinstance(e, str) else xs(e)
        m = re.match(r"^\(*(_?\w+)\(", s)
        if m and (m.group(1).startswith("_") or m.group(1) in ("serialize", "deserialize", "assert")):
            out[n] = m.group(1)
    return out


def unplaceholder(p: j2text.TPath, s: str) -> str:
    """replace placeholders by their normalised expression strings and drop integer-literal suffixes"""
    def rep(m):
        v = p.xs_of(m.group(0))
        return "{" + v + "}" if v is not None else m.group(0)

    s = EV_PH.sub(rep, s)
    s = re.sub(r"(?<=[0-9}])(ULL|UL|LL|U|L)\b", "", s)
    return squash(s)
