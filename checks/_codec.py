"""
Shared machinery for the codec properties (C01-C05): per-path rendering of the (de)serialization macros of the C, C++
and Python templates and a small event scanner over the emitted target-language text.
"""
import re
import typing

from nvsa import j2front, j2text
from nvsa.j2front import xs
from nvsa.report import AnalysisError

LANG_FILES = {
    "c": {"ser": "serialization.j2", "des": "deserialization.j2", "defs": "definitions.j2"},
    "cpp": {"ser": "serialization.j2", "des": "deserialization.j2", "defs": "_composite_type.j2"},
    "py": {"ser": "serialization.j2", "des": "deserialization.j2", "defs": "base.j2"},
}
KINDS = ["void", "boolean", "integer", "float", "fixed_length_array", "variable_length_array", "composite"]
KIND_TEST = {
    "VoidType": "void", "BooleanType": "boolean", "IntegerType": "integer", "FloatType": "float",
    "FixedLengthArrayType": "fixed_length_array", "VariableLengthArrayType": "variable_length_array", "CompositeType": "composite",
}


def strip_comments(text: str, lang: str) -> str:
    if lang in ("c", "cpp"):
        text = re.sub(r"/\*.*?\*/", " ", text, flags=re.S)
        text = re.sub(r"//[^\n]*", " ", text)
    else:
        text = re.sub(r"#[^\n]*", " ", text)
    return text


def squash(text: str) -> str:
    return re.sub(r"\s+", " ", text).strip()


class Codec:
    def __init__(self, ts: j2front.TemplateSet):
        self.ts = ts
        self.N = ts.nodes
        self._paths: typing.Dict[typing.Tuple[str, str, str], typing.List[j2text.TPath]] = {}

    def tmpl(self, lang, which):
        return self.ts.get(lang, LANG_FILES[lang][which])

    def macro(self, lang, which, name):
        return self.ts.macro(self.tmpl(lang, which), name)

    def has_macro(self, lang, which, name) -> bool:
        return name in self.ts.macros(self.tmpl(lang, which))

    def paths(self, lang, which, name, for_zero=False) -> typing.List[j2text.TPath]:
        key = (lang, which, name, for_zero)
        if key not in self._paths:
            m = self.macro(lang, which, name)
            self._paths[key] = j2text.render_paths(self.N, m.body, limit=4096, for_zero=for_zero, macros=self.ts.macros(self.tmpl(lang, which)))
        return self._paths[key]

    def text(self, lang, p: j2text.TPath) -> str:
        return squash(strip_comments(p.text, lang))

    # ---- dispatch -------------------------------------------------------------------------------------------------
    def dispatch_chain(self, lang, which, name):
        """the `t is X` if-chain of a *_any macro: [(class name, callee names)], closed?"""
        N = self.N
        m = self.macro(lang, which, name)
        chain = None
        for n in m.find_all(N.If):
            if re.match(r"^\(t is \w+Type\)$", xs(n.test)):
                chain = n
                break
        if chain is None:
            raise AnalysisError(f"anchor missing: kind dispatch in {lang}/{name}")
        out = []
        for cond, body in j2text.branches_of(N, chain):
            if cond == "else":
                closed = any(j2front.is_assert_false(N, x) for b in body for x in j2front.find_asserts(N, b))
                out.append(("else", closed))
                continue
            cls = re.match(r"^\(t is (\w+)\)$", cond)
            callees = []
            text = ""
            for b in body:
                for c in [b] + list(b.find_all(N.Call)):
                    if isinstance(c, N.Call) and isinstance(c.node, N.Name):
                        callees.append(c.node.name)
                text += "".join(d.data for d in b.find_all(N.TemplateData))
            out.append((cls.group(1) if cls else cond, callees, text))
        return chain, out


def pydsdl_concrete_kinds():
    """concrete (leaf or instantiable) classes below SerializableType with their ancestor chains"""
    import pydsdl

    out = {}

    def rec(c):
        subs = c.__subclasses__()
        out[c.__name__] = [k.__name__ for k in c.__mro__ if k is not object]
        for s in subs:
            rec(s)

    rec(pydsdl.SerializableType)
    return out


# ---- event scanner for C / C++ text ---------------------------------------------------------------------------------
EV_ADV_C = re.compile(r"\boffset_bits \+= ([^;]+);")
EV_ADV_CPP = re.compile(r"\b(?:out_buffer|in_buffer)\.add_offset\(([^;]+)\);")
EV_RET_ERR_C = re.compile(r"\breturn -(NUNAVUT_ERROR_[A-Z_]+);")
EV_RET_ERR_CPP = re.compile(r"\breturn -nunavut::support::Error::(\w+);")
EV_PH = re.compile(r"Pz\d+z")


def events(text: str, lang: str, macro_phs: typing.Dict[str, str]):
    """ordered (pos, kind, payload) events of a rendered path"""
    ev = []
    adv = EV_ADV_C if lang == "c" else EV_ADV_CPP
    err = EV_RET_ERR_C if lang == "c" else EV_RET_ERR_CPP
    for m in adv.finditer(text):
        ev.append((m.start(), "advance", m.group(1).strip()))
    for m in err.finditer(text):
        ev.append((m.start(), "ret_err", m.group(1)))
    for m in EV_PH.finditer(text):
        if m.group(0) in macro_phs:
            ev.append((m.start(), "macro", macro_phs[m.group(0)]))
    if lang == "c":
        for m in re.finditer(r"(?<![&\w])buffer\[[^\]]*\] ?=(?!=)", text):
            ev.append((m.start(), "rawwrite", "buffer[..] ="))
        for m in re.finditer(r"\bmemmove\(&buffer\[|\bmemset\(&buffer\[|\bnunavutCopyBits\(&buffer\[0\]", text):
            ev.append((m.start(), "rawwrite", m.group(0)))
        for m in re.finditer(r"\b(nunavutSet\w+)\(", text):
            ev.append((m.start(), "call", m.group(1)))
        for m in re.finditer(r"\b(nunavutGet\w+)\(", text):
            ev.append((m.start(), "call", m.group(1)))
        for m in re.finditer(r"(?<![&\w])buffer\[[^\]]*\](?! ?=(?!=))", text):
            ev.append((m.start(), "rawread", "buffer[..]"))
    else:
        for m in re.finditer(r"\bout_buffer\.(set\w+|padAndMoveToAlignment|subspan)\(", text):
            ev.append((m.start(), "call", m.group(1)))
        for m in re.finditer(r"\bin_buffer\.(get\w+)\(", text):
            ev.append((m.start(), "call", m.group(1)))
    ev.sort()
    return ev


def macro_placeholders(p: j2text.TPath) -> typing.Dict[str, str]:
    """placeholders of a path that stand for macro calls: name -> callee"""
    out = {}
    for n, e in p.ph:
        s = e if isinstance(e, str) else xs(e)
        m = re.match(r"^\(*(_?\w+)\(", s)
        if m and (m.group(1).startswith("_") or m.group(1) in ("serialize", "deserialize", "assert")):
            out[n] = m.group(1)
    return out


def unplaceholder(p: j2text.TPath, s: str) -> str:
    """replace placeholders by their normalised expression strings and drop integer-literal suffixes"""
    def rep(m):
        v = p.xs_of(m.group(0))
        return "{" + v + "}" if v is not None else m.group(0)

    s = EV_PH.sub(rep, s)
    s = re.sub(r"(?<=[0-9}])(ULL|UL|LL|U|L)\b", "", s)
    return squash(s)


# ---- the zero-cost predicate that selects the bulk-copy array paths ------------------------------------------------------
def rule_zero_cost(ctx, px, rule_id: str):
    """`is zero_cost_primitive` selects the branches that copy count * bit_length bits between the wire and the C array in
    one piece.  That is the wire format only when an element's storage is exactly its wire width and byte order: the
    predicate may admit nothing but standard-width integers and float32/64, and only for target_endianness == 'little'."""
    import ast

    from nvsa import pyfront

    ctx.rule(
        rule_id,
        "is_zero_cost_primitive (selector of the bulk-copy array branches) returns true only under target_endianness == "
        "'little', for integers only when bit_length is a standard width (storage width == wire width) and for floats only "
        "when bit_length is 32 or 64; every other return is False",
    )
    f = px.func("nunavut.lang.c", "is_zero_cost_primitive")
    # a ladder written as a loop over a module-level table of (kind, predicate) rows is the ladder: the table is put in place of its
    # name, the loop written out, and `(lambda x: body)(a)` reduced to body[x := a]
    import copy as _copy
    fnode = _copy.deepcopy(f.node)
    consts_ = {st_.targets[0].id: st_.value for st_ in f.module.tree.body if isinstance(st_, ast.Assign) and len(st_.targets) == 1 and isinstance(st_.targets[0], ast.Name)
               and isinstance(st_.value, (ast.Tuple, ast.List))}
    changed_ = False
    for lp_ in ast.walk(fnode):
        if isinstance(lp_, ast.For) and isinstance(lp_.iter, ast.Name) and lp_.iter.id in consts_:
            lp_.iter = _copy.deepcopy(consts_[lp_.iter.id])
            changed_ = True
    if changed_:
        fnode = pyfront.unroll_literal_loops(fnode)

        class _Beta(ast.NodeTransformer):
            def visit_Call(self, node):
                self.generic_visit(node)
                if isinstance(node.func, ast.Lambda) and not node.keywords and len(node.args) == len(node.func.args.args):
                    env_ = {a_.arg: v_ for a_, v_ in zip(node.func.args.args, node.args)}

                    class _S(ast.NodeTransformer):
                        def visit_Name(self, n_):
                            return _copy.deepcopy(env_[n_.id]) if isinstance(n_.ctx, ast.Load) and n_.id in env_ else n_
                    return _S().visit(_copy.deepcopy(node.func.body))
                return node
        fnode = ast.fix_missing_locations(_Beta().visit(fnode))
        f = _copy.copy(f)
        f.node = fnode
    ps = [a.arg for a in f.node.args.args]
    if len(ps) < 2:
        raise AnalysisError("anchor changed: is_zero_cost_primitive(language, t)")
    t = ps[1]
    asg = {}
    for n in ast.walk(f.node):
        if isinstance(n, ast.Assign) and len(n.targets) == 1 and isinstance(n.targets[0], ast.Name):
            asg.setdefault(n.targets[0].id, []).append(n.value)

    def resolve(e, depth=0):
        if isinstance(e, ast.Name) and e.id in asg and len(asg[e.id]) == 1 and depth < 4:
            return resolve(asg[e.id][0], depth + 1)
        return e

    def widths(e):
        """set of bit lengths an expression over t.bit_length admits, None if not of that shape"""
        e = resolve(e)
        if isinstance(e, ast.Call) and isinstance(e.func, ast.Name) and e.func.id == "bool" and len(e.args) == 1 and not e.keywords:
            return widths(e.args[0])     # bool(x) admits what x admits
        if isinstance(e, ast.Attribute) and e.attr == "standard_bit_length" and isinstance(e.value, ast.Name) and e.value.id == t:
            return {8, 16, 32, 64}
        if isinstance(e, ast.Compare) and len(e.ops) == 1 and isinstance(e.left, ast.Attribute) and e.left.attr == "bit_length" \
                and isinstance(e.left.value, ast.Name) and e.left.value.id == t:
            c = e.comparators[0]
            if isinstance(e.ops[0], ast.In) and isinstance(c, (ast.Tuple, ast.List, ast.Set)) and all(isinstance(x, ast.Constant) and isinstance(x.value, int) for x in c.elts):
                return {x.value for x in c.elts}
            if isinstance(e.ops[0], ast.Eq) and isinstance(c, ast.Constant) and isinstance(c.value, int):
                return {c.value}
        if isinstance(e, ast.BoolOp) and isinstance(e.op, ast.Or):
            parts = [widths(v) for v in e.values]
            if all(p is not None for p in parts):
                return set().union(*parts)
        if isinstance(e, ast.BoolOp) and isinstance(e.op, ast.And):
            parts = [widths(v) for v in e.values]
            known = [p for p in parts if p is not None]
            if known:
                out = known[0]
                for p in known[1:]:
                    out = out & p
                return out
        if isinstance(e, ast.Constant) and e.value is False:
            return set()
        return None

    little_gate = False
    n = 0
    for st, gd in pyfront.walk_guarded(f.node.body):
        if not isinstance(st, ast.Return) or st.value is None:
            continue
        terms = pyfront.guard_terms([(pyfront.subst_locals(f.node, t_) if not isinstance(t_, str) else t_, p_) for t_, p_ in gd])
        v = resolve(st.value)
        is_false = isinstance(v, ast.Constant) and v.value is False
        endian = [(e, p) for e, p in terms if "target_endianness" in e]
        if endian and is_false and any(("!= 'little'" in e and p) or ("== 'little'" in e and not p) for e, p in endian):
            little_gate = True
            first_gate_line = st.lineno
            continue
        n += 1
        kinds = [e for e, p in terms if p and e.startswith(f"isinstance({t},")]
        w = widths(st.value)
        where = kinds[-1] if kinds else "fallthrough"
        if is_false:
            ctx.ob(rule_id, f.module.rel, f"{f.short} :: return False [{where}]", True, "", st.lineno)
        elif "IntegerType" in where:
            ok = w is not None and w <= {8, 16, 32, 64}
            ctx.ob(rule_id, f.module.rel, f"{f.short} :: integers are zero-cost only at standard widths", ok,
                   "" if ok else f"`{ast.unparse(st.value)}` admits integers whose storage is wider than their wire representation "
                   "(e.g. uint24 in uint32_t): the bulk copy then packs elements at the wrong stride", st.lineno)
        elif "FloatType" in where:
            ok = w is not None and w <= {32, 64}
            ctx.ob(rule_id, f.module.rel, f"{f.short} :: floats are zero-cost only at 32/64 bits", ok,
                   "" if ok else f"`{ast.unparse(st.value)}` admits float16 (stored as a 32-bit float)", st.lineno)
        else:
            ctx.ob(rule_id, f.module.rel, f"{f.short} :: no other kind is zero-cost [{where}]", False,
                   f"`{ast.unparse(st.value)}` can be true for a type that is neither integer nor float", st.lineno)
    ok = little_gate and all(r.lineno >= first_gate_line for r in ast.walk(f.node) if isinstance(r, ast.Return))
    ctx.ob(rule_id, f.module.rel, f"{f.short} :: False unless target_endianness is 'little' (first statement)", ok,
           "" if ok else "the bulk copy can be selected for a host whose byte order is not the wire order", f.node.lineno)
    ctx.floor(rule_id, n, 2)


# ---- the clamped temporary is the value that is written --------------------------------------------------------------
def rule_sat_use(ctx, cd, rule_id: str):
    ctx.rule(
        rule_id,
        "C/C++ serializers: on every template path where the field value is copied into a local temporary (the clamping "
        "temporary of saturated fields), the raw field reference is not read again on that path - every later store or "
        "support call takes the temporary (or a value derived from it)",
    )
    n = 0
    for lang in ("c", "cpp"):
        t = cd.tmpl(lang, "ser")
        for name, m in cd.ts.macros(t).items():
            if not name.startswith("_serialize_") or len(m.args) < 2:
                continue
            ref_param = m.args[1].name
            try:
                paths = cd.paths(lang, "ser", name)
            except Exception:
                continue
            for p in paths:
                text = cd.text(lang, p)
                ref_ph = p.name_of(ref_param)
                if ref_ph is None:
                    continue
                d = re.search(rf"\b(Pz\d+z) (Pz\d+z) = {ref_ph};", text)
                if d is None:
                    continue
                n += 1
                later = text[d.end():]
                again = re.search(rf"{ref_ph}(?!\d)", later)
                label = " & ".join(c.strip("()") for c, pol in p.conds if pol)[-90:] or "default"
                ok = again is None
                stmt = ""
                if again is not None:
                    a = later.rfind(";", 0, again.start()) + 1
                    b = later.find(";", again.start())
                    stmt = unplaceholder(p, later[a:b + 1].strip())
                ctx.ob(rule_id, t.rel, f"{lang}: {name}: after `{p.xs_of(d.group(2))} = {ref_param}` the raw value is not used again [{label}]", ok,
                       "" if ok else f"`{stmt}` reads the unclamped field although a saturated temporary was prepared: an out-of-range value is "
                       "written truncated instead of saturated on this path", m.lineno)
    ctx.floor(rule_id, n, 6)


# ---- compile-time offset sets handed to element emitters ---------------------------------------------------------------
def rule_offset_sets(ctx, cd, which: str, rule_id: str):
    """The templates specialise emitted code on `offset` (a pydsdl BitLengthSet of all positions the code can run at):
    alignment fast paths are chosen with offset.is_aligned_at_byte().  Inside an emitted element loop the set must cover
    the position of *every* element."""
    N = cd.N
    ctx.rule(
        rule_id,
        "the offset set given to the per-element emitter inside an emitted element loop is `offset + <something that covers "
        "every element index>`: element_type.bit_length_set.repeat_range(capacity - 1 or more) for fixed arrays, the array's "
        "own bit_length_set (or repeat_range(capacity)) after the length prefix for variable arrays; never the entry offset "
        "itself and never repeat(k) (which describes one index only)",
    )
    n = 0
    stem = "_serialize_" if which == "ser" else "_deserialize_"
    for lang in ("c", "cpp", "py"):
        t = cd.tmpl(lang, which)
        for name, m in cd.ts.macros(t).items():
            if not name.startswith(stem) or not name.endswith("_array") or len(m.args) < 3:
                continue
            tp, off = m.args[0].name, m.args[-1].name
            sets = {}
            for a in m.find_all(N.Assign):
                if isinstance(a.target, N.Name):
                    sets[a.target.name] = a.node
            loops_text = "".join(d.data for d in m.find_all(N.TemplateData))
            for call in m.find_all(N.Call):
                if not (isinstance(call.node, N.Name) and call.node.name == stem + "any"):
                    continue
                if len(call.args) < 3:
                    continue
                arg = call.args[-1]
                n += 1
                expr = sets.get(arg.name) if isinstance(arg, N.Name) else arg
                shown = xs(expr) if expr is not None else xs(arg)
                ok, why = False, ""
                if isinstance(arg, N.Name) and arg.name == off:
                    why = "the element emitter is specialised for the array's entry offset only: alignment fast paths are then taken for elements that are not aligned"
                elif expr is None:
                    why = f"`{xs(arg)}` is not assigned in the macro"
                else:
                    s_ = shown.replace(" ", "")
                    cap = rf"{tp}\.capacity"
                    pats = [
                        rf"^\(?{off}\+{tp}\.element_type\.bit_length_set\.repeat_range\(\(?{cap}(-1)?\)?\)\)?$",
                        rf"^\(?{off}\+{tp}\.bit_length_set\)?$",
                    ]
                    ok = any(re.match(p_, s_) for p_ in pats)
                    if not ok:
                        if ".repeat(" in s_:
                            why = (f"`{shown}` describes the position of one element index only; every other element is emitted with the wrong "
                                   "alignment specialisation (byte-aligned fast path at unaligned positions)")
                        else:
                            why = f"`{shown}` is not recognised as covering every element position"
                    elif name.endswith("variable_length_array") and "repeat_range" in s_ and "length_field_type" not in s_ and f"{tp}.bit_length_set" not in s_:
                        ok, why = False, f"`{shown}` ignores the length prefix that precedes the elements"
                ctx.ob(rule_id, t.rel, f"{lang}: {name}: element emitter receives an offset set covering all elements", ok, "" if ok else why, call.lineno)
    ctx.floor(rule_id, n, 4)


# ---- the empty-type shortcut of the top-level (de)serializers ------------------------------------------------------------
def rule_top_empty(ctx, cd, rule_id: str):
    """serialize(t) / deserialize(t) of C and C++ emit a `(void) obj; return 0` shortcut for types without payload.  A type's own
    routine never emits a delimiter header (its container does), so the test must be on t.inner_type; the outer bit length
    set of a delimited type includes the 32-bit header and is never empty."""
    N = cd.N
    ctx.rule(
        rule_id,
        "the four top-level macros (C/C++ serialize, deserialize) decide 'this type has no payload' on "
        "t.inner_type.bit_length_set.max (the routine's own output) - never on t.bit_length_set, which includes the delimiter "
        "header emitted by the container: an empty delimited type would otherwise get a full body that compares against zero "
        "and never touches its object (diagnostics under -Werror) ",
    )
    n = 0
    for lang in ("c", "cpp"):
        for which, mname in (("ser", "serialize"), ("des", "deserialize")):
            t = cd.tmpl(lang, which)
            m = cd.ts.macros(t).get(mname)
            if m is None:
                raise AnalysisError(f"anchor missing: macro {mname} in {t.rel}")
            tparam = m.args[0].name if m.args else "t"
            ifs = [x for x in m.body if isinstance(x, N.If)] or list(m.find_all(N.If))[:1]
            if not ifs:
                raise AnalysisError(f"anchor missing: emptiness test in {lang}/{mname}")
            test = ifs[0].test
            while isinstance(test, N.Not):
                test = test.node
            subj = [xs(g) for g in [test] + list(test.find_all(N.Getattr)) if isinstance(g, N.Getattr) and g.attr in ("max", "min") and "bit_length_set" in xs(g)]
            n += 1
            ok = bool(subj) and all(s_.startswith(f"{tparam}.inner_type.bit_length_set.") for s_ in subj)
            ctx.ob(rule_id, t.rel, f"{lang}: {mname}: the empty-type shortcut is decided on {tparam}.inner_type.bit_length_set", ok,
                   "" if ok else f"decided on {subj or xs(test)}", ifs[0].lineno)
    ctx.floor(rule_id, n, 4)


def macros_visible(ts, t, lang=None):
    """macros a template can call: its own plus those it imports by name from sibling templates ({% from 'x.j2' import a, b as c %})"""
    N = ts.nodes
    out = dict(ts.macros(t))
    lang = lang or t.lang
    for n in t.ast.find_all(N.FromImport):
        if not isinstance(n.template, N.Const):
            continue
        try:
            src = ts.get(lang, n.template.value)
        except Exception:
            continue
        ms = ts.macros(src)
        for nm in n.names:
            orig, alias = (nm if isinstance(nm, tuple) else (nm, nm))
            if orig in ms and alias not in out:
                out[alias] = ms[orig]
    return out


def bodies_in_caller_terms(ts, t, lang=None, depth=2):
    """[(node list, {macro parameter: argument node})]: the template's own top-level body, and the body of every visible helper
    macro it calls - once per call site, with the parameters mapped to that call's arguments (print with j2front.xs_with(mapping))."""
    N = ts.nodes
    vis = macros_visible(ts, t, lang)
    out = [([n for n in t.ast.body if not isinstance(n, N.Macro)], {})]
    seen = set()

    def calls_in(nodes, mapping, d):
        for top in nodes:
            for c in [top] + list(top.find_all(N.Call)):
                if isinstance(c, N.Call) and isinstance(c.node, N.Name) and c.node.name in vis and c.dyn_args is None and c.dyn_kwargs is None:
                    mac = vis[c.node.name]
                    m2 = {}
                    for i, a in enumerate(mac.args):
                        val = c.args[i] if i < len(c.args) else next((k.value for k in c.kwargs if k.key == a.name), None)
                        if val is None:
                            j = i - (len(mac.args) - len(mac.defaults))
                            val = mac.defaults[j] if 0 <= j < len(mac.defaults) else None
                        if val is not None:
                            if mapping:
                                import copy
                                val = copy.deepcopy(val)
                                holder = N.Tuple([val], "load")
                                j2front._replace_names(N, holder, mapping)
                                val = holder.items[0]
                            m2[a.name] = val
                    key = (id(mac), id(c))
                    if key in seen or d <= 0:
                        continue
                    seen.add(key)
                    out.append((list(mac.body), m2))
                    calls_in(mac.body, m2, d - 1)

    calls_in(out[0][0], {}, depth)
    for m in ts.macros(t).values():
        out.append((list(m.body), {}))
        calls_in(m.body, {}, depth)
    return out


# ---- bulk array transfers: the cursor moves by what was transferred, after it was transferred ---------------------------------
def rule_bulk_advance(ctx, cd, which: str, rule_id: str):
    """C array emitters move whole runs of bits with nunavutCopyBits / nunavutGetBits and then advance the cursor themselves.
    An advance with no transfer in front of it (the call swallowed by a `//` comment that lost its line break to whitespace
    control, say) leaves the run unwritten / unread while everything behind it is placed as if it had been."""
    mnames = ("_serialize_fixed_length_array", "_serialize_variable_length_array") if which == "ser" else \
        ("_deserialize_fixed_length_array", "_deserialize_variable_length_array")
    call = "nunavutCopyBits" if which == "ser" else "nunavutGetBits"
    t = cd.tmpl("c", which)
    n = 0
    for mname in mnames:
        for p in cd.paths("c", which, mname):
            text = cd.text("c", p)
            ev = events(text, "c", macro_placeholders(p))
            label = " & ".join(("" if pol else "not ") + c for c, pol in p.conds)[-90:] or "always"
            last = 0
            for pos, kind, payload in ev:
                if kind != "advance":
                    continue
                n += 1
                seg = text[last:pos]
                last = pos + 1
                m = None
                for m in re.finditer(rf"\b{call} ?\(", seg):
                    pass
                if m is None:
                    ctx.ob(rule_id, t.rel, f"c: {mname} [{label}]: the advance by `{unplaceholder(p, payload)}` follows a {call} of the run", False,
                           f"no {call} call between the previous advance and this one in the emitted code: the run is skipped, not transferred "
                           "(a call that shares its line with a // comment is not emitted code)")
                    continue
                # the call's arguments
                depth, i, args, cur = 0, m.end(), [], ""
                while i < len(seg):
                    ch = seg[i]
                    if ch in "([":
                        depth += 1
                    elif ch in ")]":
                        if depth == 0:
                            break
                        depth -= 1
                    if ch == "," and depth == 0:
                        args.append(cur.strip())
                        cur = ""
                    else:
                        cur += ch
                    i += 1
                args.append(cur.strip())
                ln = args[2] if which == "ser" and len(args) == 5 else (args[4] if which == "des" and len(args) == 5 else None)
                ok = ln is not None and unplaceholder(p, ln) == unplaceholder(p, payload)
                ctx.ob(rule_id, t.rel, f"c: {mname} [{label}]: the advance by `{unplaceholder(p, payload)}` follows a {call} of the run", ok,
                       "" if ok else f"{call} moves `{unplaceholder(p, ln or '?')}` bits but the cursor advances by `{unplaceholder(p, payload)}`")
    ctx.floor(rule_id + ":bulk", n, 8 if which == "ser" else 5)


# ---- the generated routine's body is the codec macro's output for every type ------------------------------------------------
def rule_entry(ctx, cd, which: str, rule_id: str):
    """The body of <T>_serialize_/_deserialize_ (C), serialize()/deserialize() (C++) and _serialize_/_deserialize_ (Python) is
    whatever the top-level codec macro renders.  A type-dependent alternative at the call site (a trivial body for a
    'fieldless' type, say) takes the type out of everything the codec rules decide: a padding-only type then consumes or
    produces nothing and whatever follows it in a container is read from / written to the wrong offset."""
    N = cd.N
    mname = "serialize" if which == "ser" else "deserialize"
    ctx.rule(
        rule_id,
        f"every call of the top-level macro {mname}(<type>) from a C, C++ or Python type template is reached under conditions "
        "that do not depend on the type (only on options, e.g. `not nunavut.support.omit`); the one type test allowed is the "
        "macro's own emptiness test <type>.inner_type.bit_length_set.max.  Any other type-dependent alternative replaces the "
        "decided codec body for some types",
    )
    n = 0
    for lang in ("c", "cpp", "py"):
        codec_t = cd.tmpl(lang, which)
        for t in cd.ts.of_lang(lang, "templates"):
            if t.rel == codec_t.rel:
                continue
            for node, stack in j2front.walk(t.ast, (), N):
                if not (isinstance(node, N.Call) and isinstance(node.node, N.Name) and node.node.name == mname and node.args):
                    continue
                arg = node.args[0]
                roots = j2front.names_in(arg)
                n += 1
                bad = []
                for g in stack:
                    if g.kind not in ("if", "condexpr"):
                        if g.kind == "for" and (roots & j2front.names_in(g.node.iter)) and not (roots & j2front.names_in(g.node.target)):
                            bad.append(f"for over {xs(g.node.iter)}")
                        continue
                    for e, pol in j2front.conj_terms(g.node, g.pol):
                        if not (j2front.names_in(e) & roots):
                            continue
                        txt = xs(e)
                        rest = txt
                        for r in roots:
                            rest = rest.replace(f"{r}.inner_type.bit_length_set.max", "")
                        if any(re.search(rf"\b{re.escape(r)}\b", rest) for r in roots):
                            bad.append(("" if pol else "not ") + txt)
                ok = not bad
                ctx.ob(rule_id, t.rel, f"{lang}: {mname}({xs(arg)}) is emitted for every type", ok,
                       "" if ok else f"the call sits under the type-dependent condition(s) {bad}: for the other types the routine's body "
                       "is not the codec macro's (not covered by any codec rule; a padding-only type that is given a trivial body "
                       "consumes/produces 0 bytes and shifts everything behind it in its container)", node.lineno)
    ctx.floor(rule_id, n, 3)


# ---- alignment padding before every field and at the end -----------------------------------------------------------------
def rule_padding(ctx, cd, which: str, rule_id: str):
    """The offsets pydsdl yields for fields are *after* alignment padding, so they can never justify omitting the padding:
    before every field but the first, and once after the last field, the padding macro is called unconditionally."""
    N = cd.N
    ctx.rule(
        rule_id,
        "C/C++: in the top-level impl macro the call _pad_to_alignment(<field>.data_type.alignment_requirement) is emitted for "
        "every field except the first (no further condition - the offset iterate_fields_with_offsets() yields is the padded "
        "one and cannot show whether padding is needed), and _pad_to_alignment(t.inner_type.alignment_requirement) once at "
        "the end, outside any condition other than the struct/union split",
    )
    n = 0
    mname = "_serialize_impl" if which == "ser" else "_deserialize_impl"
    for lang in ("c", "cpp"):
        t = cd.tmpl(lang, which)
        m = cd.macro(lang, which, mname)
        field_calls, final_calls = [], []
        for node, stack in j2front.walk(m):
            if isinstance(node, N.Call) and isinstance(node.node, N.Name) and node.node.name == "_pad_to_alignment" and node.args:
                a = xs(node.args[0])
                in_field_loop = [g for g in stack if g.kind == "for" and "iterate_fields_with_offsets" in xs(g.node.iter)]
                if in_field_loop and "data_type.alignment_requirement" in a:
                    field_calls.append((node, stack, in_field_loop[-1]))
                elif a.endswith("inner_type.alignment_requirement"):
                    final_calls.append((node, stack))
        for node, stack, loop in field_calls:
            n += 1
            # conditions between the loop and the call
            idx = list(stack).index(loop)
            inner = j2front.facts(list(stack)[idx + 1:])
            extra = [(e, p) for e, p in inner if "loop.first" not in e]
            lv = xs(loop.node.target).strip("()").split(",")[0].strip()
            ok = not extra and xs(node.args[0]) == f"{lv}.data_type.alignment_requirement"
            ctx.ob(rule_id, t.rel, f"{lang}: {mname}: padding before every field but the first is unconditional", ok,
                   "" if ok else f"padding call `{xs(node)}` only under {extra}: fields that need padding at run time are written/read unaligned "
                   "(nested composites then refuse the buffer or decode from the wrong bits)", node.lineno)
        if not field_calls:
            ctx.ob(rule_id, t.rel, f"{lang}: {mname}: padding before every field but the first is unconditional", False, "no padding call in the field loop", m.lineno)
            n += 1
        for node, stack in final_calls:
            n += 1
            extra = [(e, p) for e, p in j2front.facts(stack) if "UnionType" not in e]
            ok = not extra
            ctx.ob(rule_id, t.rel, f"{lang}: {mname}: final padding to the type's own alignment is unconditional", ok, "" if ok else f"only under {extra}", node.lineno)
        if not final_calls:
            n += 1
            ctx.ob(rule_id, t.rel, f"{lang}: {mname}: final padding to the type's own alignment is unconditional", False, "no final padding call", m.lineno)
    ctx.floor(rule_id, n, 4)


# ---- the standard storage width of a primitive ----------------------------------------------------------------------------
def rule_std_width(ctx, px, rule_id: str):
    """Setters/getters (`nunavutSetUxx`, `getU<W>`, numpy scalar types) and the storage type of every primitive are named after
    `to_standard_bit_length` / `pick_width`: the smallest of 8/16/32/64 that is not smaller than the bit length.  A selector that
    returns a narrower width truncates values on the wire; a wider one changes the storage type and the primitive that is called."""
    import ast

    from nvsa import pyfront
    from nvsa.report import AnalysisError

    ctx.rule(
        rule_id,
        "the standard-width selectors (C/C++ _CFit.get_best_fit behind to_standard_bit_length and type_from_primitive, Python "
        "pick_width behind numpy_scalar_type) return the smallest of 8/16/32/64 that is >= the bit length on every path and fail "
        "beyond 64; the enum members carry the width in their value; the filters hand the type's own bit_length to the selector",
    )
    STD = [8, 16, 32, 64]

    def const_int(e):
        return e.value if isinstance(e, ast.Constant) and isinstance(e.value, int) and not isinstance(e.value, bool) else None

    def bound(test, pol, w):
        """('le', K) when (test, pol) says  w <= K,  ('gt', K) when it says  w > K;  None otherwise"""
        if isinstance(test, ast.UnaryOp) and isinstance(test.op, ast.Not):
            return bound(test.operand, not pol, w)
        if not (isinstance(test, ast.Compare) and len(test.ops) == 1):
            return None
        l, op, r = test.left, test.ops[0], test.comparators[0]
        if isinstance(r, ast.Name) and r.id == w and const_int(l) is not None:      # K op w  ->  w op' K
            l, r = r, l
            op = {ast.Lt: ast.Gt, ast.Gt: ast.Lt, ast.LtE: ast.GtE, ast.GtE: ast.LtE}.get(type(op), type(op))()
        if not (isinstance(l, ast.Name) and l.id == w and const_int(r) is not None):
            return None
        k = const_int(r)
        kind = {ast.LtE: ("le", k), ast.Lt: ("le", k - 1), ast.Gt: ("gt", k), ast.GtE: ("gt", k - 1)}.get(type(op))
        if kind is None:
            return None
        return kind if pol else (("gt", kind[1]) if kind[0] == "le" else ("le", kind[1]))

    def analyse(fn, w, value_of, label, rel, outer=None, enum_seq=None, module=None):
        """value_of(expr) -> the integer width an assigned/returned expression stands for, or None"""
        found = []      # (lower bound exclusive, upper bound inclusive, selected width)
        closed = False
        has_chain = any(isinstance(st, ast.If) and bound(st.test, True, w) is not None for st in fn.body)
        if has_chain:
            # every path through the function: the bit lengths it admits form (lo, hi]; it must select hi, a standard width, and
            # lo must be the previous standard width
            for path in pyfront.enumerate_paths(fn.body):
                lo, hi = 0, None
                for test, pol in path.conds:
                    if isinstance(test, str):
                        continue
                    b = bound(test, pol, w)
                    if b is None:
                        continue
                    if b[0] == "le":
                        hi = b[1] if hi is None else min(hi, b[1])
                    else:
                        lo = max(lo, b[1])
                if path.outcome == "raise":
                    closed = closed or (hi is None and lo == STD[-1])
                    continue
                vals = [value_of(n.value) for st in path.stmts for n in ([st] if isinstance(st, (ast.Assign, ast.Return)) else []) if n.value is not None]
                vals = [v for v in vals if v is not None]
                if hi is not None and lo >= hi:
                    continue        # infeasible combination
                found.append((lo, hi, vals[0] if vals else None))
            want = [(a, b, b) for a, b in zip([0] + STD[:-1], STD)]
            ok = sorted(set(found), key=lambda x: (x[1] is None, x[1] or 0)) == want
        else:
            # loop / comprehension over an ascending constant sequence with the test  w <= <element>
            def resolve(e):
                e = pyfront.subst_locals(fn, e)
                if isinstance(e, ast.Name) and outer is not None:
                    e = pyfront.subst_locals(outer, e)
                if isinstance(e, ast.Name) and module is not None:
                    # a module-level constant table
                    defs_ = [st_.value for st_ in module.tree.body if isinstance(st_, ast.Assign) and any(isinstance(t_, ast.Name) and t_.id == e.id for t_ in st_.targets)]
                    if len(defs_) == 1:
                        e = defs_[0]
                return e
            ok = False
            for n in ast.walk(fn):
                it = var = test = None
                if isinstance(n, ast.For) and isinstance(n.target, ast.Name):
                    it, var = resolve(n.iter), n.target.id
                    inner = [s_ for s_ in n.body if isinstance(s_, ast.If)]
                    def _is_var(e_):
                        return (isinstance(e_, ast.Name) and e_.id == var) or \
                            (isinstance(e_, ast.Call) and len(e_.args) == 1 and not e_.keywords and isinstance(e_.args[0], ast.Name) and e_.args[0].id == var
                             and enum_seq is not None and ast.unparse(e_.func) in enum_seq[0])      # cls(member) is the member
                    if inner and any(isinstance(x, ast.Return) and x.value is not None and _is_var(x.value) for x in ast.walk(inner[0])):
                        test = inner[0].test
                elif isinstance(n, (ast.ListComp, ast.GeneratorExp)) and len(n.generators) == 1 and isinstance(n.generators[0].target, ast.Name) \
                        and isinstance(n.elt, ast.Name) and n.elt.id == n.generators[0].target.id and len(n.generators[0].ifs) == 1:
                    it, var, test = resolve(n.generators[0].iter), n.generators[0].target.id, n.generators[0].ifs[0]
                if it is None or test is None:
                    continue
                elem = var
                if isinstance(it, ast.Name) and enum_seq is not None and it.id in enum_seq[0]:
                    # `for member in cls:` - the members in declaration order; the test reads member.value, the member is returned
                    seq, elem = enum_seq[1], f"{var}.value"
                elif isinstance(it, (ast.List, ast.Tuple)):
                    seq = [const_int(e) for e in it.elts]
                else:
                    continue
                ok_t = isinstance(test, ast.Compare) and len(test.ops) == 1 and (
                    (isinstance(test.ops[0], ast.LtE) and ast.unparse(test.left) == w and ast.unparse(test.comparators[0]) == elem) or
                    (isinstance(test.ops[0], ast.GtE) and ast.unparse(test.left) == elem and ast.unparse(test.comparators[0]) == w))
                found = [(None, k, k) for k in seq]
                # the first element that fits wins (loop with return, [0] / next() / min() of the filtered sequence): ascending order
                ok = ok_t and seq == STD
                closed = any(isinstance(x, ast.Raise) for x in ast.walk(fn))
                break
            if not found:
                raise AnalysisError(f"anchor missing: width selection in {label}")
        ctx.ob(rule_id, rel, f"{label} :: smallest standard width >= bit length", ok,
               "" if ok else f"(admitted bit lengths (lo, hi], selected width): {found}: a primitive is stored in / accessed as a width that is not the smallest standard "
               "width holding it", fn.lineno)
        ctx.ob(rule_id, rel, f"{label} :: more than 64 bits fails", closed, "", fn.lineno)

    # C / C++
    cm = px.module("nunavut.lang.c")
    fit = cm.classes.get("_CFit")
    if fit is None:
        raise AnalysisError("anchor missing: nunavut.lang.c._CFit")
    members = {}
    for st in fit.node.body:
        if isinstance(st, ast.Assign) and isinstance(st.targets[0], ast.Name) and const_int(st.value) is not None:
            members[st.targets[0].id] = const_int(st.value)
    ok = sorted(members.values()) == STD and all(name.rsplit("_", 1)[-1] == str(v) for name, v in members.items())
    ctx.ob(rule_id, cm.rel, "_CFit :: members IN_8..IN_64 carry their width as value", ok, f"{members}", fit.node.lineno)
    gbf = fit.methods.get("get_best_fit")
    if gbf is None:
        raise AnalysisError("anchor missing: _CFit.get_best_fit")
    wparam = gbf.node.args.args[1].arg

    def member_value(e):
        if isinstance(e, ast.Attribute) and e.attr in members:
            return members[e.attr]
        if isinstance(e, ast.Call) and e.args:
            return member_value(e.args[0])
        return const_int(e)
    analyse(gbf.node, wparam, member_value, "_CFit.get_best_fit", cm.rel, enum_seq=({"cls", "_CFit", gbf.node.args.args[0].arg}, list(members.values())))
    for modname in ("nunavut.lang.c", "nunavut.lang.cpp"):
        m = px.module(modname)
        f = m.funcs.get("filter_to_standard_bit_length")
        if f is None:
            raise AnalysisError(f"anchor missing: filter_to_standard_bit_length in {modname}")
        tparam = f.node.args.args[-1].arg
        rets = [ast.unparse(pyfront.subst_locals(f.node, r.value)).replace(" ", "") for r in ast.walk(f.node) if isinstance(r, ast.Return) and r.value is not None]
        ok = bool(rets) and all(r in (f"int(_CFit.get_best_fit({tparam}.bit_length).value)", f"_CFit.get_best_fit({tparam}.bit_length).value") for r in rets)
        ctx.ob(rule_id, m.rel, f"{f.short} :: the selector is given the type's own bit_length", ok, f"{rets}", f.node.lineno)
    tfp = cm.funcs.get("filter_type_from_primitive")
    if tfp is not None:
        src = ast.unparse(tfp.node).replace(" ", "")
        vparam = tfp.node.args.args[-1].arg
        ok = f"_CFit.get_best_fit({vparam}.bit_length)" in src
        ctx.ob(rule_id, cm.rel, f"{tfp.short} :: storage type chosen from the type's own bit_length", ok, "", tfp.node.lineno)
    sti = fit.methods.get("to_std_int")
    if sti is not None:
        from nvsa import symstr
        alts = set()
        for r in ast.walk(sti.node):
            if isinstance(r, ast.Return) and r.value is not None:
                for c, pcs in symstr.sym(px, sti, r.value):
                    alts.add(symstr.render(pcs))
        sgn = sti.node.args.args[1].arg
        ok = alts <= {"int{self.value}_t", "uint{self.value}_t"} and len(alts) == 2 or \
            alts == {"{'' if " + sgn + " else 'u'}int{self.value}_t"} or alts == {"{'u' if not " + sgn + " else ''}int{self.value}_t"}
        ctx.ob(rule_id, cm.rel, f"{sti.short} :: [u]int<width>_t with the member's own width", ok, f"{sorted(alts)}", sti.node.lineno)
    # Python
    pm = px.module("nunavut.lang.py")
    nst = pm.funcs.get("filter_numpy_scalar_type")
    if nst is None:
        raise AnalysisError("anchor missing: filter_numpy_scalar_type")
    inner = [n for n in ast.walk(nst.node) if isinstance(n, ast.FunctionDef) and n is not nst.node]
    sel = next((n for n in inner if len(n.args.args) == 1), None)
    if sel is None:
        # ... or a private module-level function that is handed the bit length
        for c in ast.walk(nst.node):
            if isinstance(c, ast.Call) and isinstance(c.func, ast.Name) and c.func.id in pm.funcs and len(c.args) == 1 and ast.unparse(c.args[0]).endswith(".bit_length") \
                    and len(pm.funcs[c.func.id].node.args.args) == 1:
                sel = pm.funcs[c.func.id].node
    if sel is None:
        raise AnalysisError("anchor missing: width selector inside filter_numpy_scalar_type")
    analyse(sel, sel.args.args[0].arg, const_int, f"filter_numpy_scalar_type.{sel.name}", pm.rel, outer=nst.node, module=pm)
    tparam = nst.node.args.args[-1].arg
    calls = [c for c in ast.walk(nst.node) if isinstance(c, ast.Call) and isinstance(c.func, ast.Name) and c.func.id == sel.name]
    ok = bool(calls) and all(len(c.args) == 1 and ast.unparse(c.args[0]) == f"{tparam}.bit_length" for c in calls)
    ctx.ob(rule_id, pm.rel, f"{nst.short} :: the selector is given the type's own bit_length", ok, "", nst.node.lineno)


# ---- saturation of floats keeps non-finite values --------------------------------------------------------------------------
def _c_scopes(text: str):
    """[(position of '{', header text before it)] nesting for C-like text; returns a function pos -> list of enclosing headers"""
    opens = []
    spans = []     # (start, end, header)
    for i, ch in enumerate(text):
        if ch == "{":
            j = text.rfind(";", 0, i)
            k = text.rfind("}", 0, i)
            b = text.rfind("{", 0, i)
            hdr = text[max(j, k, b) + 1:i].strip()
            opens.append((i, hdr))
        elif ch == "}" and opens:
            st, hdr = opens.pop()
            spans.append((st, i, hdr))

    def enclosing(pos):
        return [h for s, e, h in spans if s < pos < e]
    return enclosing


def rule_float_sat(ctx, cd, rule_id: str):
    """A saturated float narrower than the native type is clamped to the finite range of the wire type - but only if it is finite:
    +-infinity and NaN have representations of their own and must reach the packer unchanged (clamping infinity to the largest finite
    value changes the value on the wire)."""
    import ast
    import textwrap

    ctx.rule(
        rule_id,
        "in every serializer path that emits float saturation, each statement that produces a clamped value from the range bounds "
        "(assignment of a bound, min/max/clamp with a bound, passing a bound to the emitter) is nested inside a test that the value is "
        "finite (isfinite / std::isfinite / _np_.isfinite); comparisons against the bounds are free",
    )
    n = 0
    for lang in ("c", "cpp", "py"):
        t = cd.tmpl(lang, "ser")
        if not cd.has_macro(lang, "ser", "_serialize_float"):
            continue
        for p in cd.paths(lang, "ser", "_serialize_float"):
            bounds = [name for name, key in p.ph if isinstance(key, str) and "inclusive_value_range" in key]
            if not bounds:
                continue
            label = " & ".join(("" if pol else "not ") + c for c, pol in p.conds if "bit_length" in c or "saturated" in c)[-90:]
            if lang == "py":
                txt = textwrap.dedent(p.text.replace("\t", "    "))
                txt = re.sub(r"\b(Pz\d+z)\.(\d+)\b", r"\1_dot\2", txt)
                lines = [ln for ln in txt.split("\n")]
                try:
                    tree = ast.parse(textwrap.dedent("\n".join(ln for ln in lines if ln.strip())))
                except SyntaxError:
                    ind = min((len(ln) - len(ln.lstrip()) for ln in lines if ln.strip()), default=0)
                    try:
                        tree = ast.parse("\n".join(ln[ind:] for ln in lines))
                    except SyntaxError as e:
                        raise AnalysisError(f"rendered Python of _serialize_float does not parse: {e}")
                from nvsa import pyfront
                for st, gd in pyfront.walk_guarded(tree.body, ()):
                    if isinstance(st, (ast.If, ast.For, ast.While)):
                        continue
                    src = ast.unparse(st)
                    if not any(b in src for b in bounds):
                        continue
                    n += 1
                    terms = pyfront.guard_terms(gd)
                    ok = any("isfinite(" in e and pol for e, pol in terms)
                    ctx.ob(rule_id, t.rel, f"py: `{src[:50]}` [{label}] produces a clamped value only for finite input", ok,
                           "" if ok else f"under {terms}: +-inf (and NaN) are replaced by the finite range bound", None)
                continue
            text = cd.text(lang, p)
            enclosing = _c_scopes(text)
            for b in bounds:
                for m in re.finditer(re.escape(b), text):
                    pos = m.start()
                    # the statement around the occurrence: from the previous ; { } to the next ; or {
                    st0 = max(text.rfind(";", 0, pos), text.rfind("{", 0, pos), text.rfind("}", 0, pos)) + 1
                    nxt = [x for x in (text.find(";", pos), text.find("{", pos)) if x >= 0]
                    st1 = min(nxt) if nxt else len(text)
                    stmt = text[st0:st1].strip()
                    if re.match(r"^(else )?if ?\(", stmt) and text[st1:st1 + 1] == "{":
                        continue      # a comparison in a branch header
                    n += 1
                    hdrs = enclosing(pos)
                    ok = any(re.search(r"\bisfinite ?\(", h) and not re.search(r"! ?(std::)?isfinite|not (std::)?isfinite", h) for h in hdrs)
                    ctx.ob(rule_id, t.rel, f"{lang}: `{stmt[:60]}` [{label}] produces a clamped value only for finite input", ok,
                           "" if ok else f"enclosing blocks {hdrs or 'none'}: +-infinity is replaced by the largest finite value of the wire type "
                           "(and compares false with nothing to stop it)", None)
    ctx.floor(rule_id, n, 6)


def rule_clamp(ctx, cd, rule_id: str):
    """Saturation replaces a value below the range by the lower bound and a value above it by the upper bound.  The comparisons and
    the bounds are all printed from t.inclusive_value_range; which end goes with which comparison is in the shape of the template."""
    ctx.rule(
        rule_id,
        "in every path of the integer and float serializer macros (C, C++, Python) each recognised clamp - `if (v < B) { v = B; }`, "
        "`v = (v < B) ? B : v`, Python `if v > B: emit(B)`, and min(..)/max(..) calls that take a bound - compares with the bound it "
        "then stores, compares the variable it then overwrites, takes the lower bound (inclusive_value_range[0] / .min) from below / in "
        "max(), and the upper bound ([1] / .max) from above / in min()",
    )
    n = 0
    for lang in ("c", "cpp", "py"):
        t = cd.tmpl(lang, "ser")
        for mname in ("_serialize_integer", "_serialize_float"):
            if not cd.has_macro(lang, "ser", mname):
                continue
            seen = set()
            for p in cd.paths(lang, "ser", mname):
                lo = {nm for nm, k in p.ph if isinstance(k, str) and "inclusive_value_range" in k and ("[0]" in k or ".min" in k)}
                hi = {nm for nm, k in p.ph if isinstance(k, str) and "inclusive_value_range" in k and ("[1]" in k or ".max" in k)}
                if not (lo | hi):
                    continue
                text = cd.text(lang, p)

                def side(op, b):
                    return (op.startswith("<") and b in lo) or (op.startswith(">") and b in hi)

                found = []      # (snippet, ok, why)
                if lang in ("c", "cpp"):
                    for m in re.finditer(r"if ?\( ?(\w+) ?(<=?|>=?) ?(Pz\d+z)\w* ?\) ?\{ ?(\w+) = (Pz\d+z)\w* ?; ?\}", text):
                        v1, op, b1, v2, b2 = m.groups()
                        if b1 in lo | hi or b2 in lo | hi:
                            found.append((m.group(0), v1 == v2 and b1 == b2 and side(op, b1), (op, b1 in lo, b2 in lo)))
                    for m in re.finditer(r"(\w+) = \(? ?(\w+) ?(<=?|>=?) ?(Pz\d+z)\w* ?\)? ?\? ?(Pz\d+z)\w* ?: ?(\w+) ?;", text):
                        v0, v1, op, b1, b2, v2 = m.groups()
                        if b1 in lo | hi or b2 in lo | hi:
                            found.append((m.group(0), v0 == v1 == v2 and b1 == b2 and side(op, b1), (op, b1 in lo, b2 in lo)))
                else:
                    for m in re.finditer(r"\b(?:el)?if (\w+) (<=?|>=?) (Pz\d+z)(?:\.0)? ?: (\w+)\((Pz\d+z)(?:\.0)?\)", text):
                        v1, op, b1, _f, b2 = m.groups()
                        if b1 in lo | hi or b2 in lo | hi:
                            found.append((m.group(0), b1 == b2 and side(op, b1), (op, b1 in lo, b2 in lo)))
                # min(.., HI) / max(.., LO) in any of the languages (std::min, fmin, fminf, _np_.minimum ...)
                for m in re.finditer(r"\b(?:std::)?(f?min|f?max)f?l? ?\(", text):
                    kind = "min" if "min" in m.group(1) else "max"
                    depth, i, args, cur = 1, m.end(), [], ""
                    while i < len(text) and depth:
                        ch = text[i]
                        if ch == "(":
                            depth += 1
                        elif ch == ")":
                            depth -= 1
                            if depth == 0:
                                break
                        if ch == "," and depth == 1:
                            args.append(cur.strip())
                            cur = ""
                        else:
                            cur += ch
                        i += 1
                    args.append(cur.strip())
                    for a in args:
                        ma = re.fullmatch(r"(Pz\d+z)(?:\.0)?\w{0,3}", a)
                        if ma and ma.group(1) in lo | hi:
                            b = ma.group(1)
                            found.append((f"{kind}(.., {b})", (kind == "min" and b in hi) or (kind == "max" and b in lo), (kind, b in lo)))
                for snip, ok, sig in found:
                    key = (re.sub(r"Pz\d+z", "P", snip), ok, sig)
                    if key in seen:
                        continue
                    seen.add(key)
                    n += 1
                    shown = unplaceholder(p, snip)
                    ctx.ob(rule_id, t.rel, f"{lang}: {mname}: `{shown[:110]}` stores the bound it compares with, the lower bound from below, the upper from above",
                           ok, "" if ok else "the clamp stores another bound than the one it tests, overwrites another variable, or takes the wrong end of the "
                           "range: out-of-range values are not saturated to the nearest representable value", None)
    ctx.floor(rule_id, n, 6)


def rule_union_tag(ctx, cd, which: str, rule_id: str):
    """The tag of the n-th union option is n, counted from zero, on the wire.  The templates print it from the loop over the options."""
    N = cd.N
    ctx.rule(
        rule_id,
        "inside every loop over the options of a union (`for f, offset in <type>.iterate_fields_with_offsets()` under a `is UnionType` "
        "test) of the C, C++ and Python " + ("serialization" if which == "ser" else "deserialization") + " templates the position of the "
        "option is taken from `loop.index0` (zero based) and never from loop.index / revindex / length; the loop is not filtered",
    )
    n = 0
    for lang in ("c", "cpp", "py"):
        t = cd.tmpl(lang, which)
        loops = []
        for mac in cd.ts.macros(t).values():
            for node, stack in j2front.walk(mac):
                if isinstance(node, N.For) and xs(node.iter).endswith(".iterate_fields_with_offsets()") and \
                        any("UnionType" in e and pol for e, pol in j2front.facts(stack)):
                    loops.append((mac, node))
        for mac, lp in loops:
            attrs = [g.attr for b in lp.body for g in [b] + list(b.find_all(N.Getattr)) if isinstance(g, N.Getattr) and isinstance(g.node, N.Name) and g.node.name == "loop"]
            pos = [a for a in attrs if a in ("index", "index0", "revindex", "revindex0", "length")]
            if not pos:
                continue      # the option is named another way (C++: VariantType::IndexOf::<name>)
            n += 1
            ok = all(a == "index0" for a in pos) and lp.test is None
            ctx.ob(rule_id, t.rel, f"{lang}: {mac.name}: union option loop counts the options from zero (loop.index0), unfiltered", ok,
                   "" if ok else f"loop.{sorted(set(pos) - {'index0'})} used / loop filtered: the tag on the wire is not the index of the option", lp.lineno)
    ctx.floor(rule_id, n, 2)
    # the places that define what the position of an option is called: C select / is helpers, C++ IndexOf constants
    k = 0
    for lang, fname, union_only in (("c", "definitions.j2", False), ("cpp", "_fields_as_union.j2", True), ("cpp", "_fields_as_variant.j2", True)):
        t = cd.ts.get(lang, fname)
        for node, stack in j2front.walk(t.ast):
            if not (isinstance(node, N.Getattr) and isinstance(node.node, N.Name) and node.node.name == "loop"
                    and node.attr in ("index", "index0", "revindex", "revindex0", "length")):
                continue
            loops_ = [g.node for g in stack if g.kind == "for"]
            if not loops_ or "fields" not in xs(loops_[-1].iter):
                continue
            if not (union_only or any("UnionType" in e and pol for e, pol in j2front.facts(stack))):
                continue
            k += 1
            lp = loops_[-1]
            ok = node.attr == "index0" and lp.test is None and xs(lp.iter).endswith((".fields_except_padding", ".iterate_fields_with_offsets()"))
            ctx.ob(rule_id, t.rel, f"{lang}: {fname}: option position printed in the loop over `{xs(lp.iter)}` is loop.index0 of the unfiltered option list", ok,
                   "" if ok else f"loop.{node.attr} over `{xs(lp.iter)}`" + (" (filtered)" if lp.test is not None else "") +
                   ": the name of an option no longer stands for its tag on the wire", getattr(node, "lineno", None))
    ctx.floor(rule_id + ":definitions", k, 4)
    # C++: an option is chosen when the index *equals* its IndexOf constant
    for which_ in (which,):
        t = cd.tmpl("cpp", which_)
        for mac in cd.ts.macros(t).values():
            for node, stack in j2front.walk(mac):
                if isinstance(node, N.For) and xs(node.iter).endswith(".iterate_fields_with_offsets()") and \
                        any("UnionType" in e and pol for e, pol in j2front.facts(stack)):
                    txt = "".join(d.data if isinstance(d, N.TemplateData) else "{" + xs(d) + "}" for o in node.body if isinstance(o, N.Output) for d in o.nodes)
                    ms = re.findall(r"IndexOf::\{[^}]*\} ?(==|!=|<=?|>=?) ?\{(\w+)\}|\{(\w+)\} ?(==|!=|<=?|>=?) ?VariantType::IndexOf::", txt)
                    if not ms:
                        continue
                    ok = all((a or d_) == "==" for a, _b, _c, d_ in ms)
                    ctx.ob(rule_id, t.rel, f"cpp: {mac.name}: an option is taken when the index equals its IndexOf constant", ok,
                           "" if ok else f"comparison operators {[(a or d_) for a, _b, _c, d_ in ms]}", node.lineno)


def rule_nested_window(ctx, cd, rule_id: str):
    """Serializing a nested composite: the nested routine is given a window that starts behind the place reserved for the delimiter
    header (delimited types) or at the cursor (sealed types), and whose size is the largest the nested type can need."""
    ctx.rule(
        rule_id,
        "C and C++ _serialize_composite, every path: the size variable handed to the nested serializer starts as "
        "t.inner_type.bit_length_set.max | bits2bytes_ceil; C++: the window is out_buffer.subspan(<delimiter header bits>, size * 8U) for "
        "delimited types and subspan(0U, size * 8U) for sealed ones; C: the nested routine writes at &buffer[offset_bits / 8U] with that "
        "size variable, after the cursor has moved over the header (delimited) or not at all (sealed)",
    )
    n = 0
    for lang in ("c", "cpp"):
        t = cd.tmpl(lang, "ser")
        seen = set()
        for p in cd.paths(lang, "ser", "_serialize_composite"):
            deli = ("(t is DelimitedType)", True) in p.conds
            text = cd.text(lang, p)
            label = ("delimited" if deli else "sealed") + (", fixed size" if ("t.inner_type.bit_length_set.fixed_length", True) in p.conds else ", variable size")
            if (lang, label) in seen:
                continue
            seen.add((lang, label))
            hdr = p.name_of("t.delimiter_header_type.bit_length")
            mi = re.search(r"(Pz\d+z) = (Pz\d+z)U?L?L? ?;", text)
            sz = mi.group(1) if mi and (p.xs_of(mi.group(2)) or "") == "(t.inner_type.bit_length_set.max | bits2bytes_ceil)" else None
            n += 1
            ctx.ob(rule_id, t.rel, f"{lang}: _serialize_composite [{label}]: the nested size starts as the largest size of the nested type, in bytes", sz is not None,
                   "" if sz is not None else "the window handed to the nested serializer is not sized by t.inner_type.bit_length_set.max | bits2bytes_ceil")
            if lang == "cpp":
                mw = re.search(r"\.subspan\( ?(\w+?)U? ?, ?(Pz\d+z) \* 8U ?\)", text)
                first = (p.xs_of(mw.group(1)) or mw.group(1)) if mw else None      # a printed variable stands for what it is bound to on this path
                ok = mw is not None and mw.group(2) == sz and ((deli and first == "t.delimiter_header_type.bit_length") or (not deli and first == "0"))
                ctx.ob(rule_id, t.rel, f"cpp: _serialize_composite [{label}]: window = subspan({'header bits' if deli else '0U'}, size * 8U)", ok,
                       "" if ok else f"window is {mw.group(0) if mw else 'not found'}: the nested object overlaps the delimiter header / starts off the cursor")
            else:
                mc = re.search(r"_serialize_ ?\( ?&Pz\d+z, &buffer\[offset_bits / 8U\], &(Pz\d+z) ?\)", text)
                before = text[:mc.start()] if mc else ""
                moved = [m_.group(1) for m_ in re.finditer(r"offset_bits \+= (\w+?)U? ?;", before)]
                hdr_macro = any(isinstance(k_, str) and k_.lstrip("(").startswith("_serialize_integer(t.delimiter_header_type,") and n_ in before for n_, k_ in p.ph)
                if deli:
                    okm = (moved == [hdr] and hdr is not None and not hdr_macro) or (moved == [] and hdr_macro)
                else:
                    okm = moved == [] and not hdr_macro
                ok = mc is not None and mc.group(1) == sz and okm
                ctx.ob(rule_id, t.rel, f"c: _serialize_composite [{label}]: nested routine writes at the cursor {'behind the header' if deli else '(no header)'} with the size variable", ok,
                       "" if ok else f"cursor moves before the nested call: {moved}, header emitted by macro: {hdr_macro}")
    ctx.floor(rule_id, n, 6)


# ---- what the padding macro itself emits -------------------------------------------------------------------------------------
def rule_pad_body(ctx, cd, which: str, rule_id: str):
    """The padding macros: the serializer writes zeros into the gap through the bounds-checked primitive (or with a mask that keeps
    exactly the bits already written) and moves the cursor to the next multiple; the deserializer only rounds the cursor up."""
    ctx.rule(
        rule_id,
        "C/C++ _pad_to_alignment(n): serializer - gap = n - offset % n, zeros written by nunavutSetUxx(.., offset_bits, 0U, gap) / "
        "padAndMoveToAlignment(n) with the error returned (or a raw masked store whose mask keeps exactly the offset % 8 bits already "
        "written), then the cursor advanced by the gap; deserializer - the cursor is rounded up to the next multiple of n",
    )
    n = 0
    for lang in ("c", "cpp"):
        t = cd.tmpl(lang, which)
        for p in cd.paths(lang, which, "_pad_to_alignment"):
            text = cd.text(lang, p)
            if not text.strip():
                continue      # n <= 1: nothing to pad
            n += 1
            pname = cd.macro(lang, which, "_pad_to_alignment").args[0].name
            nb = p.name_of(pname)
            if which == "des":
                if lang == "c":
                    nm1 = p.name_of(f"({pname} - 1)")
                    ok = nm1 is not None and re.search(r"offset_bits = \(offset_bits \+ " + nm1 + r"U\) & ~\(\w+\) ?" + nm1 + r"U;", text) is not None
                else:
                    ok = nb is not None and re.search(r"in_buffer\.align_offset_to<" + nb + r"U>\(\);", text) is not None
                ctx.ob(rule_id, t.rel, f"{lang}: deserializer padding rounds the cursor up to the next multiple of n", ok, "" if ok else f"emits `{text[:120]}`", None)
                continue
            if lang == "cpp":
                m = re.search(r"const auto (\w+) = out_buffer\.padAndMoveToAlignment\(" + (nb or "?") + r"U\);", text)
                ok = m is not None and re.search(r"if ?\(not " + m.group(1) + r"\) ?\{ return -" + m.group(1) + r"\.error\(\);", text) is not None
                ctx.ob(rule_id, t.rel, "cpp: serializer padding through padAndMoveToAlignment(n), error returned", ok, "" if ok else f"emits `{text[:160]}`", None)
                continue
            # C serializer
            g = re.search(r"const uint8_t (\w+) = \(uint8_t\) ?\(" + (nb or "?") + r"U - offset_bits % " + (nb or "?") + r"U\);", text)
            gap = g.group(1) if g else None
            ctx.ob(rule_id, t.rel, "c: serializer padding: gap = n - offset_bits % n", gap is not None, "" if gap else f"emits `{text[:160]}`", None)
            if gap is None:
                continue
            guarded = re.search(r"if ?\(offset_bits % " + nb + r"U != 0U\) ?\{", text) is not None
            ctx.ob(rule_id, t.rel, "c: serializer padding: only when the cursor is not aligned (gap in 1..n-1)", guarded, "", None)
            call = re.search(r"const \w+ (\w+) = nunavutSetUxx\(&buffer\[0\], capacity_bytes, offset_bits, 0U, " + gap + r"\);", text)
            raw = re.search(r"buffer\[offset_bits / 8U\] ?(=|&=)", text)
            if call:
                e = call.group(1)
                ok = re.search(r"if ?\(" + e + r" < 0\) ?\{ return " + e + r";", text) is not None
                ctx.ob(rule_id, t.rel, "c: serializer padding: zeros written by the bounds-checked primitive, error returned", ok, "", None)
            elif raw:
                # a raw store must keep exactly the low (offset_bits % 8) bits of the current byte and be preceded by a bound test
                keep_low = re.search(r"& ?\(?\(?\(1U << \(offset_bits % 8U\)\) - 1U\)", text) is not None or \
                    re.search(r"& ?\(?\(?(0xFFU|255U) >> \(8U - \(?offset_bits % 8U\)?\)", text) is not None
                bounded = re.search(r"if ?\(\(?offset_bits / 8U\)? >= capacity_bytes\) ?\{ return", text) is not None
                ctx.ob(rule_id, t.rel, "c: serializer padding: raw store keeps exactly the offset_bits % 8 bits already written and is bounds-checked", keep_low and bounded,
                       "" if keep_low and bounded else "the mask of the raw store is not ((1U << (offset_bits % 8U)) - 1U) (it clears written data bits or keeps stale ones), "
                       "or the byte index is not checked against capacity_bytes", None)
            else:
                ctx.ob(rule_id, t.rel, "c: serializer padding: zeros are written into the gap", False, "the gap keeps whatever the buffer held", None)
            adv = re.search(r"offset_bits \+= " + gap + r";", text) is not None
            ctx.ob(rule_id, t.rel, "c: serializer padding: cursor advanced by the gap", adv, "", None)
    ctx.floor(rule_id, n, 2)


# ---- Python: aligned accessors only where the compile-time offset set is byte aligned -------------------------------------------
def judged_at_call_sites(ts, t, mname: str) -> bool:
    """A helper macro of the codec templates (not an emitter with the family's (type, reference, offset) signature) whose every use
    is a printed call `{{ helper(..) }}`: render_paths expands it inside each caller with the caller's arguments, so a rule about
    the meaning of its parameters reads it there and not on its own, where the parameters are just names."""
    N = ts.nodes
    macs = ts.macros(t)
    mac = macs.get(mname)
    if mac is None or j2text._helper_call(N, N.Call(N.Name(mname, "load"), [], [], None, None), macs) is None:
        return False
    printed = set()
    for o in t.ast.find_all(N.Output):
        for e in o.nodes:
            hc = j2text._helper_call(N, e, macs)
            if hc is not None and hc[0] is mac:
                printed.add(id(hc[1]))
    uses = [c for c in t.ast.find_all(N.Call) if isinstance(c.node, N.Name) and c.node.name == mname]
    return bool(uses) and all(id(c) in printed for c in uses)


def rule_py_align(ctx, cd, px, which: str, rule_id: str):
    """The Python (de)serializer has aligned and unaligned accessors; the aligned ones assert byte alignment of the cursor.  The
    templates choose by the compile-time offset set of the item that is written / read."""
    import ast

    ctx.rule(
        rule_id,
        "Python: an accessor whose name is spelled `..._aligned_...` in the template is emitted only on paths where the macro's own "
        "offset is byte aligned (or for the delimiter header of a composite, which is byte aligned by its alignment requirement); an "
        "accessor chosen by `| alignment_prefix` is chosen from the offset of the very item it handles - the macro's offset, or "
        "offset + length-prefix width for the elements of a variable-length array; alignment_prefix answers 'aligned' exactly when "
        "the set is aligned at byte",
    )
    t = cd.tmpl("py", which)
    obj = "_ser_" if which == "ser" else "_des_"
    verb = "add" if which == "ser" else "fetch"
    n = 0
    for mname, mac in sorted(cd.ts.macros(t).items()):
        if not mname.startswith(("_serialize", "_deserialize")):
            continue
        if judged_at_call_sites(cd.ts, t, mname):
            continue        # read inside its callers, where its offset parameters are the callers' offsets
        seen = set()
        for p in cd.paths("py", which, mname):
            ph = dict(p.ph)
            for m in re.finditer(rf"{obj}\.{verb}_(Pz\d+z|aligned|unaligned)_?(\w*)", p.text):
                sel, rest = m.group(1), m.group(2)
                if sel == "unaligned":
                    continue      # always allowed
                if sel == "aligned":
                    composite_hdr = any(("CompositeType" in c or "DelimitedType" in c) and pol for c, pol in p.conds) and rest.startswith("u32")
                    ok = any(c in ("offset.is_aligned_at_byte()", "(offset.is_aligned_at_byte())") and pol for c, pol in p.conds) or \
                        any("offset.is_aligned_at_byte()" in c and pol and " or " not in c for c, pol in p.conds) or composite_hdr
                    key = (mname, "lit", rest, ok)
                    if key in seen:
                        continue
                    seen.add(key)
                    n += 1
                    ctx.ob(rule_id, t.rel, f"py: {mname}: `{verb}_aligned_{rest}` only where the offset is byte aligned", ok,
                           "" if ok else f"emitted under {[c for c, pol in p.conds if pol][-3:]}: at an unaligned offset the aligned accessor asserts / writes at the wrong bit", None)
                else:
                    k = str(ph.get(sel, ""))
                    mm = re.fullmatch(r"\((.*) \| alignment_prefix\)", k)
                    arg = mm.group(1) if mm else None
                    vla_elems = "VariableLengthArray" in mname or "variable_length_array" in mname
                    after_prefix = ("(offset + t.length_field_type.bit_length)", "(t.length_field_type.bit_length + offset)")
                    if vla_elems and rest.lstrip("_").startswith("array_of"):
                        ok = arg in after_prefix        # the elements start after the length prefix
                    else:
                        ok = arg == "offset"
                    key = (mname, "sel", arg, rest)
                    if key in seen:
                        continue
                    seen.add(key)
                    n += 1
                    ctx.ob(rule_id, t.rel, f"py: {mname}: `{verb}_<{arg}|alignment_prefix>_{rest}` is chosen from the offset of the item itself", ok,
                           "" if ok else f"the accessor is chosen from `{arg}`, which is not the offset at which this item starts", None)
    ctx.floor(rule_id, n, 5)
    g = px.func("nunavut.jinja", "DSDLCodeGenerator.filter_alignment_prefix")
    rets = [ast.unparse(r.value).replace(" ", "") for r in ast.walk(g.node) if isinstance(r, ast.Return) and r.value is not None]
    o = g.node.args.args[0].arg
    ok = rets in ([f"'aligned'if{o}.is_aligned_at_byte()else'unaligned'"], [f"'unaligned'ifnot{o}.is_aligned_at_byte()else'aligned'"])
    ctx.ob(rule_id, g.module.rel, f"{g.short} :: 'aligned' exactly when the offset set is aligned at byte", ok, f"{rets}", g.node.lineno)
