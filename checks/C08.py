"""
C08 - listing and dry-run modes tell the truth.  Static: effect analysis over the call graph + sibling cross-check.
"""
import ast
import re

from nvsa import effects, pyfront, reach
from nvsa.report import AnalysisError

GEN_MOD = "nunavut.jinja"
RUN_MOD = "nunavut.cli.runners"


def _has_not_dryrun(f, guards):
    """True when the guard conjunction contains `not is_dryrun` with is_dryrun a parameter of f (or enclosing)."""
    params = set()
    g = f
    while g is not None:
        params |= {a.arg for a in g.node.args.args + g.node.args.kwonlyargs}
        g = g.outer
    if "is_dryrun" not in params:
        return False
    return ("is_dryrun", False) in pyfront.guard_terms(guards)


def rule_dryrun(ctx, px):
    R = "R-C08-DRYRUN"
    ctx.rule(
        R,
        "every file-system effect (open for writing, mkdir, chmod, copy, move, delete, touch, subprocess, callback "
        "invocation of a post-processor) reachable from the listing entry points, from the constructors that run "
        "before listing, and from generate_all is control-dependent on `not is_dryrun`",
    )
    entries = [
        px.func(RUN_MOD, "ArgparseRunner.__init__"),
        px.func(RUN_MOD, "ArgparseRunner._list_outputs_only"),
        px.func(RUN_MOD, "ArgparseRunner._list_inputs_only"),
        px.func(RUN_MOD, "ArgparseRunner._list_configuration_only"),
        px.func(GEN_MOD, "DSDLCodeGenerator.generate_all"),
        px.func(GEN_MOD, "SupportGenerator.generate_all"),
    ]
    n_stmts = 0
    funcs = set()
    n_effects_unguarded = 0
    for f, st, g, chain in reach.region_walk(px, entries, _has_not_dryrun):
        n_stmts += 1
        funcs.add(f.qual)
        # effects syntactically in this statement's own expressions
        hdr_calls = pyfront.expr_calls(st)
        for c in hdr_calls:
            eff = effects.fs_effects(f.module, ast.Expression(body=c)) if False else None
        for c, kind, what in _effects_in_stmt(f, st):
            n_effects_unguarded += 1
            ctx.ob(R, f.module.rel, f"{f.short} :: {what}", False,
                   f"file-system effect ({kind}) reachable without a `not is_dryrun` guard via {' -> '.join(chain)}",
                   c.lineno, path=list(chain))
        for c in hdr_calls:
            if reach.is_logging_call(c):
                continue
            callees, kind = reach.resolve_callees(px, f, c)
            if kind == "indirect":
                name = ast.unparse(c.func)
                # calling a parameter / loop variable: a callback.  Accept pure-by-construction callbacks:
                if name in PURE_CALLBACKS.get(f.short, ()):
                    continue
                if _only_bound_to_effect_free_classes(px, f, name):
                    continue
                ctx.ob(R, f.module.rel, f"{f.short} :: callback {name}(...)", False,
                       f"callback invoked without a `not is_dryrun` guard via {' -> '.join(chain)}", c.lineno, path=list(chain))
    ctx.unit("dryrun_region_functions", len(funcs))
    ctx.unit("dryrun_region_statements", n_stmts)
    # positive obligations: each effect site in the generator module is listed with its guard status
    gm = px.module(GEN_MOD)
    pp = px.module("nunavut._postprocessors")
    n_sites = 0
    for m in (gm, pp):
        for f in px.all_funcs:
            if f.module is not m or f.outer is not None:
                continue
            for c, kind, what in effects.fs_effects(m, f.node):
                n_sites += 1
                in_region = f.qual in funcs
                g = pyfront.guards_of(f.node, c)
                local = g is not None and _has_not_dryrun(f, g)
                status = (
                    "locally under `not is_dryrun`" if local else
                    ("function entered only through a `not is_dryrun` call site" if not in_region else "in the unguarded region")
                )
                ok = local or not in_region
                # avoid double reporting: unguarded ones were reported above with their chain
                if ok:
                    ctx.ob(R, m.rel, f"{f.short} :: {what} [{kind}]", True, status, c.lineno)
    ctx.floor(R, n_sites, 7)
    # the key call sites that carry the guard
    for qual, callee in (("DSDLCodeGenerator._generate_type", "_generate_code"), ("SupportGenerator._generate_header", "_generate_code")):
        f = px.func(GEN_MOD, qual)
        found = False
        for st, g in pyfront.walk_guarded(f.node.body):
            for c in pyfront.expr_calls(st):
                if isinstance(c.func, ast.Attribute) and c.func.attr == callee:
                    found = True
                    ok = _has_not_dryrun(f, g)
                    ctx.ob(R, f.module.rel, f"{f.short} -> {callee} call site", ok,
                           "" if ok else "call to the writing routine is not under `not is_dryrun`", c.lineno)
        if not found:
            raise AnalysisError(f"anchor missing: call to {callee} in {qual}")


def _only_bound_to_effect_free_classes(px, f, param: str) -> bool:
    """`param(...)` where every call of f in the package passes, for that parameter, the name of a package class whose constructor
    chain has no file-system effect: the call constructs an object, it does not run user code"""
    params = [a.arg for a in f.node.args.args]
    if param not in params:
        return False
    pos = params.index(param)
    if f.cls is not None and params and params[0] in ("self", "cls") and not any(d == "staticmethod" for d in f.decorators):
        pos -= 1
    sites = []
    for g in px.all_funcs:
        for c in ast.walk(g.node):
            if isinstance(c, ast.Call) and ((isinstance(c.func, ast.Attribute) and c.func.attr == f.name) or (isinstance(c.func, ast.Name) and c.func.id == f.name)):
                a = c.args[pos] if 0 <= pos < len(c.args) else next((k.value for k in c.keywords if k.arg == param), None)
                sites.append(a)
    if not sites:
        return False
    classes = {c.name: c for m in px.modules.values() for c in m.classes.values()}
    for a in sites:
        # the class itself, or a factory `lambda: Class(...)` that does nothing but construct it
        if isinstance(a, ast.Lambda) and isinstance(a.body, ast.Call) and isinstance(a.body.func, ast.Name) and a.body.func.id in classes \
                and not any(isinstance(x_, ast.Call) and x_ is not a.body for x_ in ast.walk(a.body)):
            a = a.body.func
        if not (isinstance(a, ast.Name) and a.id in classes):
            return False
        init = classes[a.id].mro_lookup("__init__")
        if init is not None and list(effects.fs_effects(init.module, init.node)):
            return False
    return True


# callbacks that are pure by construction: (function short) -> names
PURE_CALLBACKS = {
    # _stdout_lister(things, to_string): to_string is str or a lambda building a string from a path (checked below)
    "ArgparseRunner._stdout_lister": ("to_string",),
}


def _effects_in_stmt(f, st):
    """fs effects in the statement's own expressions (not in nested statement bodies)."""
    own = set(id(c) for c in pyfront.expr_calls(st))
    # with-statement items are part of expr_calls header
    out = []
    for c, kind, what in effects.fs_effects(f.module, st):
        if id(c) in own:
            out.append((c, kind, what))
    return out


def rule_dryrun_flow(ctx, px):
    R = "R-C08-DRYRUN-FLOW"
    ctx.rule(
        R,
        "is_dryrun is never reassigned and every call to a function with an is_dryrun parameter passes the caller's "
        "own is_dryrun, the CLI flag (self._args.dry_run), or the constant True (listing)",
    )
    n = 0
    for f in px.all_funcs:
        params = [a.arg for a in f.node.args.args + f.node.args.kwonlyargs]
        if "is_dryrun" not in params:
            continue
        n += 1
        reassigned = [x for x in ast.walk(f.node) if isinstance(x, ast.Name) and x.id == "is_dryrun" and isinstance(x.ctx, (ast.Store, ast.Del))]
        ctx.ob(R, f.module.rel, f"{f.short}: is_dryrun not reassigned", not reassigned,
               "" if not reassigned else "parameter is_dryrun is reassigned", f.node.lineno)
    ctx.floor(R + ":params", n, 6)
    # call sites
    n = 0
    for f in px.all_funcs:
        for c in ast.walk(f.node):
            if not isinstance(c, ast.Call):
                continue
            callees = px.resolve_call(f, c)
            tg = [g for g in callees if "is_dryrun" in [a.arg for a in g.node.args.args + g.node.args.kwonlyargs]]
            if not tg:
                continue
            g = tg[0]
            names = [a.arg for a in g.node.args.args]
            if names and names[0] in ("self", "cls") and isinstance(c.func, ast.Attribute):
                names = names[1:]
            val = pyfront.call_keywords(f.node, c).get("is_dryrun")
            if val is None and "is_dryrun" in names:
                idx = names.index("is_dryrun")
                if idx < len(c.args):
                    val = c.args[idx]
            n += 1
            if val is None:
                # default False: a real run
                default_ok = not f.module.name.startswith("nunavut.cli")
                ctx.ob(R, f.module.rel, f"{f.short} -> {g.short}(is_dryrun=<default>)", default_ok,
                       "default (False) is a real run" if default_ok else "CLI call site relies on the default", c.lineno)
                continue
            txt = ast.unparse(pyfront.subst_locals(f.node, val))
            own = "is_dryrun" in [a.arg for a in f.node.args.args + f.node.args.kwonlyargs]
            # a function that receives the mode forwards it (or forces a dry run); only a function without the parameter may read the CLI flag
            ok = txt in (("is_dryrun", "True") if own else ("True", "self._args.dry_run"))
            ctx.ob(R, f.module.rel, f"{f.short} -> {g.short}(is_dryrun={txt})", ok,
                   "" if ok else ("the function's own is_dryrun parameter is not what is forwarded: a caller asking for a dry run gets a real one"
                                  if own else "is_dryrun argument is derived, not forwarded"), c.lineno)
    ctx.floor(R + ":calls", n, 8)


class _Bind(ast.NodeTransformer):
    def __init__(self, env):
        self.env = env

    def visit_Name(self, node):
        if isinstance(node.ctx, ast.Load) and node.id in self.env:
            import copy
            return copy.deepcopy(self.env[node.id])
        return node


def _norm_expr(func_node, e, env):
    """expression with single-assignment locals inlined and the parameters of a followed helper bound to the caller's arguments"""
    import copy
    out = pyfront.subst_locals(func_node, e)
    if env:
        out = _Bind(env).visit(copy.deepcopy(out))
        if isinstance(out, ast.Name) and out.id in env:
            out = copy.deepcopy(env[out.id])
    return ast.fix_missing_locations(out)


class GenCall:
    def __init__(self, call, guards, func_node, env, chain):
        self.call, self.guards, self.func_node, self.env, self.chain = call, guards, func_node, env, chain
        self.lineno = call.lineno

    def kw(self, name, pos=None):
        kws = pyfront.call_keywords(self.func_node, self.call)
        v = kws.get(name)
        if v is None and pos is not None and pos < len(self.call.args):
            v = self.call.args[pos]
        if v is None:
            return None
        return ast.unparse(_norm_expr(self.func_node, v, self.env))


def _gen_calls(f, attr_recv, meth, env=None, guards=(), depth=2, chain=()):
    """GenCall for every self.<attr_recv>.<meth>(...) call of f and of the private methods of the same class that f calls (their
    parameters bound to the call's arguments, their guards conjoined): a listing mode implemented as a dry run of the generating
    routine is followed into that routine."""
    env = env or {}
    out = []
    for st, g in pyfront.walk_guarded(f.node.body):
        here = guards + tuple((_norm_expr(f.node, t, env), p) for t, p in g)
        for c in pyfront.expr_calls(st):
            if isinstance(c.func, ast.Attribute) and c.func.attr == meth and ast.unparse(c.func.value) == attr_recv:
                out.append(GenCall(c, tuple(sorted(set(pyfront.guard_terms(here)))), f.node, env, chain + (f.short,)))
            elif depth > 0 and isinstance(c.func, ast.Attribute) and isinstance(c.func.value, ast.Name) and c.func.value.id == "self" \
                    and f.cls is not None and c.func.attr in f.cls.methods and c.func.attr.startswith("_") and c.func.attr != f.node.name:
                h = f.cls.methods[c.func.attr]
                hp = [a.arg for a in h.node.args.args][1:]
                henv = {}
                defaults = h.node.args.defaults
                for i, d in enumerate(defaults):
                    henv[hp[len(hp) - len(defaults) + i]] = d
                for a, d in zip(h.node.args.kwonlyargs, h.node.args.kw_defaults):
                    if d is not None:
                        henv[a.arg] = d
                for name, a in list(zip(hp, c.args)) + [(k, v) for k, v in pyfront.call_keywords(f.node, c).items()]:
                    henv[name] = _norm_expr(f.node, a, env)
                out.extend(_gen_calls(h, attr_recv, meth, henv, here, depth - 1, chain + (f.short,)))
    return out


def _kw(c, name, pos=None, func_node=None):
    kws = pyfront.call_keywords(func_node, c) if func_node is not None else {k.arg: k.value for k in c.keywords if k.arg}
    if name in kws:
        return ast.unparse(kws[name])
    if pos is not None and pos < len(c.args):
        return ast.unparse(c.args[pos])
    return None


def _receiver_classes(px):
    """self._generator / self._support_generator -> generator class, read from the tuple assignment in
    ArgparseRunner.__init__ and the tuple returned by create_default_generators."""
    init = px.func(RUN_MOD, "ArgparseRunner.__init__")
    targets = None
    for n in ast.walk(init.node):
        if isinstance(n, ast.Assign) and isinstance(n.targets[0], ast.Tuple) and isinstance(n.value, ast.Call) \
                and ast.unparse(n.value.func) == "create_default_generators":
            targets = [ast.unparse(e) for e in n.targets[0].elts]
    cdg = px.func("nunavut._generators", "create_default_generators")
    classes = None
    for n in ast.walk(cdg.node):
        if isinstance(n, ast.Return) and isinstance(n.value, ast.Tuple):
            classes = [ast.unparse(e.func) for e in n.value.elts if isinstance(e, ast.Call)]
    if not targets or not classes or len(targets) != len(classes):
        raise AnalysisError("anchor missing: generator tuple in ArgparseRunner.__init__ / create_default_generators")
    return dict(zip(targets, classes))


def _set_determining(px, cls_name, param):
    """Does `param` of <cls>.generate_all flow anywhere except into update_nunavut_globals(...)?"""
    f = px.func(GEN_MOD, f"{cls_name}.generate_all")
    inside = set()
    for c in ast.walk(f.node):
        if isinstance(c, ast.Call) and isinstance(c.func, ast.Attribute) and c.func.attr == "update_nunavut_globals":
            for n in ast.walk(c):
                inside.add(id(n))
    for n in ast.walk(f.node):
        if isinstance(n, ast.Name) and n.id == param and isinstance(n.ctx, ast.Load) and id(n) not in inside:
            return True
    return False


def rule_list_sibling(ctx, px):
    R = "R-C08-LIST-SIBLING"
    ctx.rule(
        R,
        "_list_outputs_only and _generate invoke each generator under the same condition and with the same "
        "output-determining arguments (all but is_dryrun / allow_overwrite / embed_auditing_info); listing passes "
        "is_dryrun=True; _list_inputs_only enumerates templates under the same conditions with the same "
        "omit_serialization_support",
    )
    gen = px.func(RUN_MOD, "ArgparseRunner._generate")
    lo = px.func(RUN_MOD, "ArgparseRunner._list_outputs_only")
    li = px.func(RUN_MOD, "ArgparseRunner._list_inputs_only")
    n = 0
    recv_cls = _receiver_classes(px)
    for recv in ("self._generator", "self._support_generator"):
        g_calls = _gen_calls(gen, recv, "generate_all")
        # a call with the constant is_dryrun=True inside the generating routine is a probe (it writes nothing and lists nothing):
        # what _generate *does* is the remaining call
        probes = [c_ for c_ in g_calls if c_.kw("is_dryrun", 0) == "True"]
        if len(g_calls) - len(probes) == 1:
            g_calls = [c_ for c_ in g_calls if c_ not in probes]
        l_calls = _gen_calls(lo, recv, "generate_all")
        i_calls = _gen_calls(li, recv, "get_templates")
        if len(g_calls) != 1:
            raise AnalysisError(f"anchor missing: exactly one {recv}.generate_all call expected in _generate, found {len(g_calls)}")
        gc = g_calls[0]
        gg = gc.guards
        ok = len(l_calls) == 1
        ctx.ob(R, lo.module.rel, f"{lo.short}: one {recv}.generate_all call", ok, "" if ok else f"found {len(l_calls)}", lo.node.lineno)
        n += 1
        if ok:
            lc = l_calls[0]
            lg = lc.guards
            ctx.ob(R, lo.module.rel, f"{lo.short}/{recv}: same condition as _generate", lg == gg,
                   "" if lg == gg else f"listing runs under {list(lg)} but generation under {list(gg)}", lc.lineno)
            d = lc.kw("is_dryrun", 0)
            ctx.ob(R, lo.module.rel, f"{lo.short}/{recv}: is_dryrun=True", d == "True",
                   "" if d == "True" else f"is_dryrun={d} on the listing path {' -> '.join(lc.chain)}: a listing run writes files", lc.lineno)
            for arg, pos in (("omit_serialization_support", 2),):
                a, b = lc.kw(arg, pos), gc.kw(arg, pos)
                if not _set_determining(px, recv_cls[recv], arg):
                    ctx.ob(R, lo.module.rel, f"{lo.short}/{recv}: {arg} as in _generate", True,
                           f"{recv_cls[recv]}.generate_all uses {arg} only for update_nunavut_globals (file content, "
                           "not rendered in a dry run): not output-set-determining", lc.lineno)
                    continue
                ctx.ob(R, lo.module.rel, f"{lo.short}/{recv}: {arg} as in _generate", a == b,
                       "" if a == b else f"listing passes {arg}={a} but the real run passes {b}: the two can enumerate different files", lc.lineno)
            n += 3
        ok = len(i_calls) == 1
        ctx.ob(R, li.module.rel, f"{li.short}: one {recv}.get_templates call", ok, "" if ok else f"found {len(i_calls)}", li.node.lineno)
        if ok:
            ic = i_calls[0]
            ig = ic.guards
            ctx.ob(R, li.module.rel, f"{li.short}/{recv}: same condition as _generate", ig == gg,
                   "" if ig == gg else f"template listing runs under {list(ig)} but generation under {list(gg)}", ic.lineno)
            a, b = ic.kw("omit_serialization_support", 0), gc.kw("omit_serialization_support", 2)
            ctx.ob(R, li.module.rel, f"{li.short}/{recv}: omit_serialization_support as in _generate", a == b,
                   "" if a == b else f"{a} vs {b}", ic.lineno)
            n += 2
    ctx.floor(R, n, 8)
    # run(): the dispatch reaches the listing functions without touching the generators otherwise
    run = px.func(RUN_MOD, "ArgparseRunner.run")
    calls = {}
    for st, g in pyfront.walk_guarded(run.node.body):
        for c in pyfront.expr_calls(st):
            if isinstance(c.func, ast.Attribute) and isinstance(c.func.value, ast.Name) and c.func.value.id == "self":
                calls[c.func.attr] = tuple(pyfront.guard_terms(g))
    ok = ("self._args.list_outputs", True) in calls.get("_list_outputs_only", ())
    ctx.ob(R, run.module.rel, "ArgparseRunner.run: --list-outputs dispatches to _list_outputs_only", ok, "", run.node.lineno)
    g = calls.get("_generate", ())
    ok = all((x, False) in g for x in ("self._args.list_outputs", "self._args.list_inputs", "self._args.list_configuration"))
    ctx.ob(R, run.module.rel, "ArgparseRunner.run: _generate only when no listing flag is set", ok,
           "" if ok else f"_generate guarded by {list(g)}", run.node.lineno)


def rule_lister(ctx, px):
    R = "R-C08-LIST-SIBLING"
    # (clause of the listing rule: what is printed is one well-formed list)
    f = px.func(RUN_MOD, "ArgparseRunner._stdout_lister")
    ps = [a.arg for a in f.node.args.args if a.arg != "self"]
    things, tostr = ps[0], ps[1]
    li = px.func(RUN_MOD, "ArgparseRunner._list_inputs_only")
    lo = px.func(RUN_MOD, "ArgparseRunner._list_outputs_only")
    n_calls = max(sum(1 for c in ast.walk(g.node) if isinstance(c, ast.Call) and isinstance(c.func, ast.Attribute) and c.func.attr == "_stdout_lister") for g in (li, lo))
    ok, why = False, ""
    loops = [n for n in f.node.body if isinstance(n, ast.For) and ast.unparse(n.iter) == things]
    if len(loops) == 1 and isinstance(loops[0].target, ast.Name):
        v = loops[0].target.id
        writes = [ast.unparse(st.value.args[0]) for st in loops[0].body if isinstance(st, ast.Expr) and isinstance(st.value, ast.Call)
                  and ast.unparse(st.value.func) in ("sys.stdout.write", "print") and st.value.args]
        item = f"{tostr}({v})"
        ok = writes in ([item, "';'"], [f"{item} + ';'"], [f"f'{{{item}}};'"])
        why = f"loop writes {writes}"
    else:
        src = ast.unparse(f.node)
        # a join is fine when every item still carries its own terminator, or when the listing functions print one list only
        terminated = f"''.join(({tostr}(" in src.replace(" ", "") and "+';'" in src.replace(" ", "")
        ok = terminated or (n_calls <= 1 and "';'.join(" in src)
        why = "items are joined with a separator between them only"
    ctx.ob(R, f.module.rel, f"{f.short} :: every item is followed by the separator, so that the {n_calls} listings of one run form one list", ok,
           "" if ok else f"{why}: the listing functions call the lister once per group (types, support files, DSDL files), and without a terminator the last item of "
           "one group runs into the first of the next (`.../Svc_1_0.hout/nunavut/support/serialization.h`)", f.node.lineno)


def rule_input_closure(ctx, px):
    R = "R-C08-INPUT-CLOSURE"
    ctx.rule(
        R,
        "the DSDL files named by --list-inputs are derived from a source that includes the types the root namespace "
        "depends on (templates read the attributes of foreign composites): the lister must reach the dependency closure",
    )
    li = px.func(RUN_MOD, "ArgparseRunner._list_inputs_only")
    # what feeds the `source_file_path` listing?
    feeds = []
    reaches_deps = False
    for c in ast.walk(li.node):
        if isinstance(c, ast.Attribute) and c.attr in ("get_all_types", "get_all_datatypes"):
            feeds.append(c.attr)      # called in place or taken as a method value (`provider = ns.get_all_types`)
        if isinstance(c, ast.Call) and isinstance(c.func, ast.Attribute):
            if c.func.attr in ("transitive", "direct", "get_dependency_builder") or "depend" in c.func.attr.lower():
                reaches_deps = True
        if isinstance(c, ast.Name) and "depend" in c.id.lower():
            reaches_deps = True
        if isinstance(c, ast.Attribute) and c.attr in ("_extra_includes",):
            reaches_deps = True
    # transitively: any callee (package-internal) that touches the dependency builder
    seen = set()
    work = [li]
    while work and not reaches_deps:
        f = work.pop()
        if f.qual in seen:
            continue
        seen.add(f.qual)
        for c in ast.walk(f.node):
            if isinstance(c, ast.Call):
                for g in px.resolve_call(f, c, by_name_fallback=False):
                    if g.module.name == "nunavut._dependencies":
                        reaches_deps = True
                    work.append(g)
    if not feeds:
        # a new enumeration: acceptable only as a thin wrapper of the enumerations the generator itself iterates
        ns_cls = px.cls("nunavut._namespace", "Namespace")
        used = sorted({c.func.attr for c in ast.walk(li.node) if isinstance(c, ast.Call) and isinstance(c.func, ast.Attribute) and c.func.attr in ns_cls.methods
                       and c.func.attr.startswith("get_all")})
        wrapped = False
        for u in used:
            body_attrs = {a.attr for a in ast.walk(ns_cls.methods[u].node) if isinstance(a, ast.Attribute)}
            wrapped = wrapped or bool(body_attrs & {"get_all_types", "get_all_datatypes"})
        if not used:
            raise AnalysisError("anchor missing: _list_inputs_only no longer enumerates get_all_types/get_all_datatypes")
        ctx.ob(R, li.module.rel, f"{li.short}: DSDL inputs are enumerated by the traversal the generator iterates (get_all_types / get_all_datatypes)", wrapped,
               "" if wrapped else f"the files are enumerated by {used}, a traversal of its own: whatever it skips (a namespace without definitions of its own, and everything "
               "below it) is generated by DSDLCodeGenerator.generate_all but never named as an input", li.node.lineno)
        if not wrapped:
            return
        feeds = used
    ctx.ob(R, li.module.rel, f"{li.short}: DSDL inputs from {sorted(set(feeds))}", reaches_deps,
           "" if reaches_deps else "only the root namespace's own types are enumerated; dependencies found through "
           "--lookup-dir (whose content shapes the generated code) are never listed", li.node.lineno)


def rule_template_listing(ctx, px):
    R = "R-C08-TEMPLATE-LISTING"
    ctx.rule(
        R,
        "the template list of the type generator is the loader's complete enumeration; if templates are left out when "
        "serialization support is omitted, each of them must be reachable (include/import/extends) only under "
        "`not nunavut.support.omit` in every built-in language - otherwise a template that is read is not listed",
    )
    f = px.func(GEN_MOD, "CodeGenerator.get_templates")
    rets = [r for r in ast.walk(f.node) if isinstance(r, ast.Return) and r.value is not None]
    full = len(rets) >= 1 and all(ast.unparse(r.value) == "self._dsdl_template_loader.get_templates()" for r in rets)
    if full:
        ctx.ob(R, f.module.rel, f"{f.short} :: returns the loader's complete enumeration", True, "", f.node.lineno)
        return
    # filtered listing: which stems can be dropped?
    stems = set()
    names = {n.id for n in ast.walk(f.node) if isinstance(n, ast.Name)} | {n.attr for n in ast.walk(f.node) if isinstance(n, ast.Attribute)}
    consts = [c.value for c in ast.walk(f.node) if isinstance(c, ast.Constant) and isinstance(c.value, str)]
    cls = f.cls
    for st in (cls.node.body if cls else []) + f.module.tree.body:
        if isinstance(st, (ast.Assign, ast.AnnAssign)):
            tg = st.targets[0] if isinstance(st, ast.Assign) else st.target
            if isinstance(tg, ast.Name) and tg.id in names and st.value is not None:
                consts += [c.value for c in ast.walk(st.value) if isinstance(c, ast.Constant) and isinstance(c.value, str)]
    stems = {c.split(".")[0] for c in consts if c and c.replace("_", "").replace(".j2", "").isalnum() and len(c) < 40}
    from nvsa import j2front

    ts = j2front.TemplateSet(ctx.root)
    n = 0
    for lang in sorted({t.lang for t in ts.templates}):
        orc = j2front.GuardOracle(ts, lang)
        for t in ts.of_lang(lang, "templates"):
            if t.path.stem not in stems:
                continue
            n += 1
            ok = orc.guarded(t, (), lambda facts: ("nunavut.support.omit", False) in facts)
            ctx.ob(R, t.rel, f"{f.short} may leave out `{t.name}` when support is omitted", ok,
                   "only loaded under `not nunavut.support.omit`" if ok else
                   f"`{t.name}` is imported/included outside a `not nunavut.support.omit` guard in language {lang}: it is read on every run "
                   "but --list-inputs --omit-serialization-support does not name it", f.node.lineno)
    if n == 0:
        ctx.ob(R, f.module.rel, f"{f.short} :: filtered template listing", False,
               "the listing is filtered in a way the analyser cannot relate to the templates (stems: %s)" % sorted(stems), f.node.lineno)


LOADERS_MOD = "nunavut.jinja.loaders"
_INJ_CALLS = ("str", "Path", "pathlib.Path", "pathlib.PurePath", "PurePath", "pathlib.PurePosixPath")
_INJ_METHODS = ("as_posix", "resolve", "absolute", "relative_to", "with_suffix")


def _mentions(e, var):
    return any(isinstance(n, ast.Name) and n.id == var for n in ast.walk(e))


def _injective(e, var):
    """is `e` an injective image of the loop variable `var` (distinct files stay distinct)?  The file itself, its string, its
    path below a fixed base, its path relative to the search directory; not its base name, stem, suffix or parent."""
    if isinstance(e, ast.Name):
        return e.id == var
    if isinstance(e, ast.Call):
        fn = ast.unparse(e.func)
        if fn in _INJ_CALLS and len(e.args) == 1 and not e.keywords:
            return _injective(e.args[0], var)
        if isinstance(e.func, ast.Attribute) and e.func.attr in _INJ_METHODS and not any(_mentions(a, var) for a in e.args):
            return _injective(e.func.value, var)
        if fn in ("os.path.join", "posixpath.join") and e.args and not any(_mentions(a, var) for a in e.args[:-1]):
            return _injective(e.args[-1], var)
        return False
    if isinstance(e, ast.BinOp) and isinstance(e.op, ast.Div) and not _mentions(e.left, var):
        return _injective(e.right, var)
    if isinstance(e, ast.Tuple):
        return any(_injective(x, var) for x in e.elts)
    return False


def _words(txt):
    """the variables an expression speaks about (enumeration constants in capitals are values, not variables)"""
    return {w.strip("_") for w in re.findall(r"[A-Za-z_][A-Za-z_0-9]*", txt) if not re.fullmatch(r"[A-Z][A-Z0-9_]*", w)}


def _creation_words(cls, ld):
    """identifiers of the conditions under which __init__ gives self.<ld> a loader object"""
    init = cls.methods.get("__init__")
    out = set()
    if init is None:
        return out
    for st, g in pyfront.walk_guarded(init.node.body):
        if isinstance(st, ast.Assign) and any(ast.unparse(t_) == f"self.{ld}" for t_ in st.targets) and not (isinstance(st.value, ast.Constant) and st.value.value is None):
            for t_, _p in g:
                out |= _words(ast.unparse(t_))
    return out


def rule_loader_enumeration(ctx, px):
    R = "R-C08-LOADER-ENUM"
    ctx.rule(
        R,
        "DSDLTemplateLoader.get_templates (what --list-inputs prints) accumulates, unconditionally, every file of a recursive glob "
        "over every file-system search path and every template the package loader lists, and the accumulation is injective in "
        "the file (a collection keyed by base name / stem loses same-named templates of different sub-directories); "
        "SupportGenerator.generate_all reads exactly the resources SupportGenerator.get_templates lists",
    )
    f = px.func(LOADERS_MOD, "DSDLTemplateLoader.get_templates")
    if f.cls is not None:
        # an enumeration split into private per-loader parts is judged as the one accumulating body the parts abbreviate
        import copy as _copy
        f_ = _copy.copy(f)
        f_.node = pyfront.gather_from_helpers(f.node, {k: v.node for k, v in f.cls.methods.items()})
        f = f_
    # whatever loader get_source may read from is enumerated whenever it exists: the enumeration of a loader's templates is guarded by
    # nothing but `<that loader> is not None` (a search policy may decide who wins a name, never who is listed - a template found
    # through the fallback loader is read but would not be named)
    gs = px.func(LOADERS_MOD, "DSDLTemplateLoader.get_source")
    consulted = sorted({c.func.value.attr for c in ast.walk(gs.node) if isinstance(c, ast.Call) and isinstance(c.func, ast.Attribute) and c.func.attr == "get_source"
                        and isinstance(c.func.value, ast.Attribute) and ast.unparse(c.func.value.value) == "self"})
    if not consulted:
        from checks import _loaders
        ol = _loaders.ordered_loop(gs)
        if ol is None:
            raise AnalysisError("anchor missing: the loaders DSDLTemplateLoader.get_source consults")
        consulted = sorted(ol[2])      # get_source walks the class's precedence-ordered loader list
    marks = {"_fsloader": ("_fsloader.searchpath", "_fsloader.list_templates"), "_package_loader": ("_package_loader.list_templates", "_templates_package_name")}
    for en in (f, px.func(LOADERS_MOD, "DSDLTemplateLoader.list_templates")):
        for ld in consulted:
            def _head(st_):      # the statement itself, or the header of a loop (its body is visited on its own)
                return ast.unparse(st_.iter) if isinstance(st_, ast.For) else ("" if isinstance(st_, (ast.If, ast.While, ast.Try, ast.With)) else ast.unparse(st_))
            sites = [(st, g) for st, g in pyfront.walk_guarded(en.node.body) if any(mk in _head(st) for mk in marks.get(ld, (ld,)))]
            if not sites:
                # enumerated through the same precedence-ordered loader list (each member is there whenever it exists)
                from checks import _loaders
                ol2 = _loaders.ordered_loop(en, comprehensions=True)
                if ol2 is not None and ld in ol2[2] and any(isinstance(c_, ast.Call) and isinstance(c_.func, ast.Attribute) and c_.func.attr == "list_templates"
                                                            and isinstance(c_.func.value, ast.Name) and c_.func.value.id == ol2[1] for c_ in ast.walk(ol2[0])) \
                        and not pyfront.guards_of(en.node, ol2[0]):
                    ctx.ob(R, en.module.rel, f"{en.short} :: templates of self.{ld} are enumerated whenever that loader exists", True, "member of the loader list the loop walks", ol2[0].lineno)
                    continue
            if not sites:
                ctx.ob(R, en.module.rel, f"{en.short} :: templates of self.{ld} are enumerated whenever that loader exists", False,
                       f"get_source reads from self.{ld}, but this enumeration never lists its templates", en.node.lineno)
                continue
            st, g = sites[0]
            bad = []
            for t_, pol in g:
                tx = ast.unparse(t_)
                # a private predicate is judged by what it returns
                if isinstance(t_, ast.Call) and isinstance(t_.func, ast.Attribute) and ast.unparse(t_.func.value) == "self" and en.cls is not None \
                        and t_.func.attr in en.cls.methods and not t_.args:
                    hrets = [ast.unparse(r.value) for r in ast.walk(en.cls.methods[t_.func.attr].node) if isinstance(r, ast.Return) and r.value is not None]
                    if pol and hrets == [f"self.{ld} is not None"]:
                        continue
                    # a restriction that only repeats the one under which the loader is created in the first place excludes nothing
                    if pol and _words(" ".join(hrets)) - {"False", "True", "None", ld.strip("_"), "self", "is", "not", "or", "and"} <= _creation_words(en.cls, ld):
                        continue
                    bad.append(f"{tx} -> returns {hrets}")
                    continue
                if (tx == f"self.{ld} is not None" and pol) or (tx == f"self.{ld} is None" and not pol) or tx.startswith("len(") or "TEMPLATE_SUFFIX" in tx or "suffix" in tx:
                    continue
                bad.append(("" if pol else "not ") + tx)
            ctx.ob(R, en.module.rel, f"{en.short} :: templates of self.{ld} are enumerated whenever that loader exists", not bad,
                   "" if not bad else f"enumerated only under {bad}: get_source falls back to self.{ld} whenever it exists, so a template it serves is read without being listed",
                   st.lineno)
    rets = [r for r in ast.walk(f.node) if isinstance(r, ast.Return) and r.value is not None]
    if not rets:
        raise AnalysisError("anchor missing: return of DSDLTemplateLoader.get_templates")
    # the returned collection
    coll = None
    rv = rets[-1].value
    assigned = {t.id for n in ast.walk(f.node) if isinstance(n, (ast.Assign, ast.AnnAssign)) for t in (n.targets if isinstance(n, ast.Assign) else [n.target])
                if isinstance(t, ast.Name)}
    for n in ast.walk(rv):
        if isinstance(n, ast.Name) and n.id in assigned:
            coll = n.id
            break
    lossy_ret = isinstance(rv, ast.Subscript) or any(isinstance(n, ast.Call) and ast.unparse(n.func) in ("next", "min", "max") for n in ast.walk(rv))
    ctx.ob(R, f.module.rel, f"{f.short} :: returns the whole accumulated collection `{coll}`", coll is not None and not lossy_ret and len(rets) == 1,
           "" if coll is not None and not lossy_ret and len(rets) == 1 else f"`return {ast.unparse(rv)}` / {len(rets)} returns", rets[-1].lineno)
    # collections that are poured into the returned one (coll.update(other) / coll.update(other.values()))
    colls = {coll}
    for _ in range(2):
        for n in ast.walk(f.node):
            if isinstance(n, ast.Call) and isinstance(n.func, ast.Attribute) and n.func.attr in ("update", "extend") and isinstance(n.func.value, ast.Name) \
                    and n.func.value.id in colls and len(n.args) == 1:
                a = n.args[0]
                if isinstance(a, ast.Call) and isinstance(a.func, ast.Attribute) and a.func.attr == "values" and not a.args:
                    a = a.func.value
                if isinstance(a, ast.Name) and a.id in assigned:
                    colls.add(a.id)
    for n in ast.walk(rv):
        if isinstance(n, ast.Name) and n.id in assigned:
            colls.add(n.id)
    sources = {"fs": 0, "package": 0}
    pm = pyfront.parent_map(f.node)
    guards_by_stmt = {id(st): g for st, g in pyfront.walk_guarded(f.node.body)}

    def classify(loop_iter, outer_loops):
        it = pyfront.subst_locals(f.node, loop_iter)
        txt = ast.unparse(it)
        for c in ast.walk(it):
            if isinstance(c, ast.Call) and isinstance(c.func, ast.Attribute) and c.func.attr in ("glob", "rglob"):
                pat = ast.unparse(pyfront.subst_locals(f.node, c.args[0])) if c.args else ""
                recursive = c.func.attr == "rglob" or "**/" in pat
                over_dirs = any("searchpath" in ast.unparse(pyfront.subst_locals(f.node, ol.iter)) for ol in outer_loops)
                by_suffix = "TEMPLATE_SUFFIX" in pat or ".j2" in pat
                return "fs", recursive and over_dirs and by_suffix, f"glob pattern {pat}, over searchpath: {over_dirs}"
        if "_package_loader.list_templates()" in txt:
            return "package", True, ""
        return None, True, ""

    def outer_loops(node):
        outer, cur = [], node
        while id(cur) in pm:
            cur = pm[id(cur)]
            if isinstance(cur, ast.For):
                outer.append(cur)
        return outer

    def judge(kind, var, st, g, key, val, extra_conds):
        terms = pyfront.guard_terms(g) + [(c, True) for c in extra_conds]
        # conditions that only test for the data source being configured sit outside the loop; inside, only a suffix test may filter
        only_suffix = all("TEMPLATE_SUFFIX" in e or "suffix" in e for e, _p in terms)
        val_n, key_n = pyfront.subst_locals(f.node, val), (pyfront.subst_locals(f.node, key) if key is not None else None)
        ok = _injective(val_n, var) and (key_n is None or _injective(key_n, var)) and only_suffix
        why = ""
        if not ok:
            why = (f"keyed by `{ast.unparse(key_n)}`: templates of the same key in different sub-directories collapse into one entry; a loaded template is not listed"
                   if key_n is not None and not _injective(key_n, var) else
                   (f"added under the condition {terms}" if not only_suffix else f"element `{ast.unparse(val_n)}` is not the file itself"))
        ctx.ob(R, f.module.rel, f"{f.short} :: {kind} accumulation `{ast.unparse(st)[:60]}` keeps distinct files distinct", ok, why, st.lineno)

    # form A: for <var> in <source>: <coll>.add(<image of var>)
    for loop in [n for n in ast.walk(f.node) if isinstance(n, ast.For) and isinstance(n.target, ast.Name)]:
        kind, ok_src, why = classify(loop.iter, outer_loops(loop))
        if kind is None:
            continue
        sources[kind] += 1
        var = loop.target.id
        ctx.ob(R, f.module.rel, f"{f.short} :: {kind} templates are enumerated completely", ok_src, why, loop.lineno)
        accs = []
        for st, g in pyfront.walk_guarded(loop.body):
            for c in pyfront.expr_calls(st):
                if isinstance(c.func, ast.Attribute) and isinstance(c.func.value, ast.Name) and c.func.value.id in colls:
                    if c.func.attr in ("add", "append") and len(c.args) == 1:
                        accs.append((st, g, None, c.args[0]))
                    elif c.func.attr == "setdefault" and len(c.args) == 2:
                        accs.append((st, g, c.args[0], c.args[1]))
            if isinstance(st, ast.Assign) and isinstance(st.targets[0], ast.Subscript) and isinstance(st.targets[0].value, ast.Name) and st.targets[0].value.id in colls:
                accs.append((st, g, st.targets[0].slice, st.value))
        ok = bool(accs)
        ctx.ob(R, f.module.rel, f"{f.short} :: every {kind} template is added to `{coll}`", ok, "" if ok else "no accumulation into the returned collection", loop.lineno)
        for st, g, key, val in accs:
            judge(kind, var, st, g, key, val, [])
    # form B: <coll>.update(<source or comprehension over it>)  /  <coll> |= ...  /  <coll> += ...
    for st in [n for n in ast.walk(f.node) if isinstance(n, (ast.Expr, ast.AugAssign))]:
        bulk = None
        if isinstance(st, ast.Expr) and isinstance(st.value, ast.Call) and isinstance(st.value.func, ast.Attribute) and st.value.func.attr in ("update", "extend") \
                and isinstance(st.value.func.value, ast.Name) and st.value.func.value.id in colls and len(st.value.args) == 1:
            bulk = st.value.args[0]
        elif isinstance(st, ast.AugAssign) and isinstance(st.target, ast.Name) and st.target.id in colls and isinstance(st.op, (ast.BitOr, ast.Add)):
            bulk = st.value
        if bulk is None:
            continue
        while isinstance(bulk, ast.Call) and ast.unparse(bulk.func) in ("set", "list", "sorted", "tuple", "frozenset") and len(bulk.args) == 1:
            bulk = bulk.args[0]
        if isinstance(bulk, (ast.GeneratorExp, ast.ListComp, ast.SetComp)) and len(bulk.generators) == 1 and isinstance(bulk.generators[0].target, ast.Name):
            gen = bulk.generators[0]
            it, var, elt, key, conds = gen.iter, gen.target.id, bulk.elt, None, [ast.unparse(c) for c in gen.ifs]
        elif isinstance(bulk, ast.DictComp) and len(bulk.generators) == 1 and isinstance(bulk.generators[0].target, ast.Name):
            gen = bulk.generators[0]
            it, var, elt, key, conds = gen.iter, gen.target.id, bulk.value, bulk.key, [ast.unparse(c) for c in gen.ifs]
        else:
            it, var, elt, key, conds = bulk, "_each", ast.Name(id="_each", ctx=ast.Load()), None, []
        kind, ok_src, why = classify(it, outer_loops(st))
        if kind is None:
            continue
        sources[kind] += 1
        ctx.ob(R, f.module.rel, f"{f.short} :: {kind} templates are enumerated completely", ok_src, why, st.lineno)
        ctx.ob(R, f.module.rel, f"{f.short} :: every {kind} template is added to `{coll}`", True, "bulk update", st.lineno)
        g = pyfront.guards_of(f.node, st.value) or ()
        # the guards of the statement outside any loop are data-source availability tests; only the loop-internal ones filter files
        inner = tuple(x for x in g if any(_mentions(x[0], ol.target.id) for ol in outer_loops(st) if isinstance(ol.target, ast.Name)))
        judge(kind, var, st, inner, key, elt, conds)
    for kind, cnt in sources.items():
        ctx.ob(R, f.module.rel, f"{f.short} :: a loop enumerates the {kind} loader's templates", cnt >= 1, "" if cnt else "source not enumerated any more", f.node.lineno)
    # the suffix filter only filters by suffix
    flt = px.func(LOADERS_MOD, "DSDLTemplateLoader._filter_template_list_by_suffix")
    conds = []
    for n in ast.walk(flt.node):
        if isinstance(n, (ast.ListComp, ast.GeneratorExp, ast.SetComp)):
            for gen in n.generators:
                conds += [ast.unparse(c) for c in gen.ifs]
        if isinstance(n, ast.If):
            conds.append(ast.unparse(n.test))
        if isinstance(n, ast.Call) and ast.unparse(n.func) == "filter" and n.args:
            conds.append(ast.unparse(n.args[0]))
    ok = bool(conds) and all("TEMPLATE_SUFFIX" in c or "suffix" in c.lower() for c in conds)
    ctx.ob(R, flt.module.rel, f"{flt.short} :: filters by the template suffix only", ok, f"{conds}", flt.node.lineno)
    # support generator: generation iterates what the listing returns
    sg = px.func(GEN_MOD, "SupportGenerator.generate_all")
    omit = "omit_serialization_support"
    loops = [n for n in ast.walk(sg.node) if isinstance(n, ast.For)]
    its = [ast.unparse(pyfront.subst_locals(sg.node, n.iter)) for n in loops]
    reads = [i for i in its if "get_templates" in i or "_get_templates_by_support_type" in i or "get_support_files" in i]
    ok = bool(reads) and all(i in (f"self.get_templates({omit})", f"self.get_templates({omit}={omit})") for i in reads)
    ctx.ob(R, sg.module.rel, f"{sg.short} :: support files read = self.get_templates({omit})", ok,
           "" if ok else f"generation enumerates {reads}: the listing and the run can differ", sg.node.lineno)


def rule_support_resolve(ctx, px):
    R = "R-C08-SUPPORT-RESOLVE"
    ctx.rule(
        R,
        "the support generator loads a support template by name through a loader that searches the user's --support-templates "
        "folders before the built-in package, so the file it lists for that template must come from the same lookup "
        "(loader.get_source / env.get_template(...).filename by the resource's name) - not from the built-in resource path",
    )
    gh = px.func(GEN_MOD, "SupportGenerator._generate_header")
    by_name = [c for c in ast.walk(gh.node) if isinstance(c, ast.Call) and isinstance(c.func, ast.Attribute) and c.func.attr == "get_template"
               and c.args and isinstance(c.args[0], ast.Attribute) and c.args[0].attr == "name"]
    init = px.func(GEN_MOD, "SupportGenerator.__init__")
    user_dirs = any(isinstance(k, ast.keyword) and k.arg == "use_support_templates_dir" and ast.unparse(k.value) == "True" for c in ast.walk(init.node)
                    if isinstance(c, ast.Call) for k in c.keywords)
    ctx.ob(R, gh.module.rel, f"{gh.short} :: support templates are loaded by name (user folders searched first: {user_dirs})", True,
           f"{len(by_name)} by-name load(s)", gh.node.lineno)
    if not by_name or not user_dirs:
        return
    gt = px.func(GEN_MOD, "SupportGenerator.get_templates")
    seen, work, resolved = set(), [gt], []
    while work:
        g = work.pop()
        if g.qual in seen:
            continue
        seen.add(g.qual)
        for c in ast.walk(g.node):
            if not isinstance(c, ast.Call):
                continue
            if isinstance(c.func, ast.Attribute) and c.func.attr in ("get_source", "get_template", "get_or_select_template") and \
                    any(isinstance(a, ast.Attribute) and a.attr == "name" for a in c.args):
                resolved.append((g, c))
            if isinstance(c.func, ast.Attribute) and isinstance(c.func.value, ast.Name) and c.func.value.id == "self" and g.cls is not None:
                h = g.cls.mro_lookup(c.func.attr)
                if h is not None:
                    work.append(h)
    ok = bool(resolved)
    ctx.ob(R, gt.module.rel, f"{gt.short} :: each listed support template is resolved through the loader by name", ok,
           f"in {resolved[0][0].short}" if ok else "the built-in resource path is listed as is: with --support-templates DIR the overriding DIR/<name> is read "
           "but --list-inputs names the built-in file", gt.node.lineno)
    # the resolved value is what is returned (not computed and dropped)
    if ok:
        g, c = resolved[0]
        pm = pyfront.parent_map(g.node)
        st = pyfront.enclosing_stmt(c, pm)
        used = isinstance(st, (ast.Assign, ast.Return, ast.AnnAssign)) or (isinstance(st, ast.Expr) and st.value is not c)
        ctx.ob(R, g.module.rel, f"{g.short} :: the loader's answer is used", used, "" if used else "lookup result discarded", c.lineno)


def rule_include_listed(ctx, px):
    R = "R-C08-INCLUDE-LISTED"
    ctx.rule(
        R,
        "every file a built-in template pulls in (include / import / from-import / extends with a constant name) is one the "
        "template enumeration can name: it exists next to the templates and carries the template suffix the enumeration filters by; "
        "a file pulled in under another suffix is read on every run and its content is copied into the output, yet it is never listed",
    )
    from nvsa import j2front
    ut = px.module("nunavut._utilities")
    suffix = None
    for n in ut.tree.body:
        if isinstance(n, ast.Assign) and any(isinstance(t, ast.Name) and t.id == "TEMPLATE_SUFFIX" for t in n.targets) and isinstance(n.value, ast.Constant):
            suffix = n.value.value
    if not suffix:
        raise AnalysisError("anchor missing: TEMPLATE_SUFFIX constant in nunavut._utilities")
    # does the enumeration filter by suffix at all?  (if it lists every file, nothing can be missed)
    f = px.func(LOADERS_MOD, "DSDLTemplateLoader.get_templates")
    filtered = "TEMPLATE_SUFFIX" in ast.unparse(f.node) or "_filter_template_list_by_suffix" in ast.unparse(f.node)
    ts = j2front.TemplateSet(ctx.root)
    N = ts.nodes
    n = dyn = 0
    for lang in sorted({t.lang for t in ts.templates}):
        for kind in sorted({t.kind for t in ts.templates if t.lang == lang}):
            for t in ts.of_lang(lang, kind):
                for node, stack in j2front.walk(t.ast):
                    if not isinstance(node, (N.Include, N.Import, N.FromImport, N.Extends)):
                        continue
                    if not isinstance(node.template, N.Const) or not isinstance(node.template.value, str):
                        dyn += 1
                        continue
                    target = node.template.value
                    n += 1
                    exists = (t.path.parent / target).is_file()
                    ok = exists and (target.endswith(suffix) or not filtered)
                    ctx.ob(R, t.rel, f"{t.name} pulls in `{target}`", ok,
                           "" if ok else (f"`{target}` does not end in {suffix}: the enumeration printed by --list-inputs filters by that suffix, so this file - whose "
                                          "content is copied into every generated page - is never named" if exists else f"`{target}` does not exist next to the template"),
                           getattr(node, "lineno", None))
    ctx.unit("template_pull_sites", n)
    ctx.unit("dynamic_pull_sites_not_decided", dyn)
    ctx.floor(R, n, 20)


def rule_no_bytecode_cache(ctx, px):
    R = "R-C08-NO-CACHE"
    ctx.rule(R, "the Jinja environment is created without a bytecode cache (loading templates must not write to disk)")
    f = px.func("nunavut.jinja.environment", "CodeGenEnvironment.__init__")
    found = False
    for c in ast.walk(f.node):
        if isinstance(c, ast.Call) and ast.unparse(c.func) == "super().__init__":
            found = True
            kws = {k.arg: ast.unparse(k.value) for k in c.keywords}
            ok = "bytecode_cache" not in kws or kws["bytecode_cache"] == "None"
            ctx.ob(R, f.module.rel, f"{f.short}: Environment(bytecode_cache)", ok,
                   "" if ok else f"bytecode_cache={kws['bytecode_cache']}", c.lineno)
            ok = any(k.arg is None for k in c.keywords) is False
            ctx.ob(R, f.module.rel, f"{f.short}: no **kwargs forwarded to Environment", ok, "", c.lineno)
    if not found:
        raise AnalysisError("anchor missing: super().__init__ in CodeGenEnvironment.__init__")


def run(ctx):
    ctx.explanation = (
        "C08 is decided by an effect analysis over the package call graph (resolved self./cls./import calls plus a "
        "name-based fallback): the region reachable from the listing entry points, the constructors that run before "
        "listing and both generate_all methods without passing a `not is_dryrun` guard must contain no file-system "
        "effect; is_dryrun must be forwarded unmodified; listing and generating entry points are cross-checked as "
        "siblings.  Equality of the printed list with the files of a real run is not observed."
    )
    ctx.declined = [
        "equality of the printed list with the files of a real run for all inputs (needs both runs)",
        "effects inside pydsdl, yaml and the vendored jinja2 package (read-only by documentation; not analysed)",
    ]
    px = pyfront.PyIndex(ctx.root)
    ctx.unit("python_modules", len(px.modules))
    rule_dryrun(ctx, px)
    rule_dryrun_flow(ctx, px)
    rule_list_sibling(ctx, px)
    rule_lister(ctx, px)
    rule_input_closure(ctx, px)
    rule_template_listing(ctx, px)
    rule_loader_enumeration(ctx, px)
    rule_support_resolve(ctx, px)
    rule_include_listed(ctx, px)
    rule_no_bytecode_cache(ctx, px)
