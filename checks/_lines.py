"""A `//` comment ends at the end of its line.  Whitespace control (`{%- ... -%}`) that removes the line break behind a comment glues
whatever the template emits next onto the comment line: the statement is still in the generated text (a text search finds it) but the
compiler never sees it.  Decided on the template AST - the lexer has already applied the whitespace control to the data nodes."""
import re

from nvsa import j2front
from nvsa.j2front import xs


def _open_comment(data: str) -> bool:
    """does the text end inside a `//` comment (its last line has `//` outside a string and no line break follows)?"""
    last = data.rsplit("\n", 1)[-1]
    in_str = None
    i = 0
    while i < len(last):
        ch = last[i]
        if in_str:
            if ch == "\\":
                i += 1
            elif ch == in_str:
                in_str = None
        elif ch in "\"'":
            in_str = ch
        elif last.startswith("//", i):
            return True
        i += 1
    return False


def rule_comment_eol(ctx, ts, rule_id: str, langs=("c", "cpp"), only=None, floor: int = 1):
    N = ts.nodes
    ctx.rule(
        rule_id,
        "C / C++ templates: where an output run ends inside a `//` comment (no line break after it, a block tag follows), everything that "
        "can be emitted next starts with a line break - otherwise whitespace control has glued the next statement onto the comment line "
        "and it is commented out in the generated code",
    ) if not only else None
    n_sites = 0

    def firsts(nodes, cont):
        """the possible first emitted pieces of a statement list followed by continuation `cont` (a thunk giving more pieces)"""
        out = []
        for i, nd in enumerate(nodes):
            rest = lambda i=i: firsts(nodes[i + 1:], cont)      # noqa: E731
            if isinstance(nd, N.Output):
                for e in nd.nodes:
                    if isinstance(e, N.TemplateData):
                        if e.data == "":
                            continue
                        return out + [("data", e.data, nd.lineno)]
                    inner = e
                    while isinstance(inner, N.Filter) and inner.node is not None:
                        inner = inner.node
                    return out + [("call" if isinstance(inner, N.Call) else "expr", xs(e), nd.lineno)]
                continue
            if isinstance(nd, N.If):
                out += firsts(nd.body, rest)
                for el in nd.elif_:
                    out += firsts(el.body, rest)
                out += firsts(nd.else_, rest) if nd.else_ else rest()
                return out
            if isinstance(nd, N.For):
                out += firsts(nd.body, rest)
                out += firsts(nd.else_, rest) if nd.else_ else rest()
                return out
            if isinstance(nd, (N.CallBlock, N.FilterBlock, N.Block, N.Scope)) and hasattr(nd, "body"):
                return out + firsts(nd.body, rest)
            if isinstance(nd, N.Macro):
                continue
            # set / import / include / expression statements emit nothing themselves (an include is opaque: treated as a line break
            # is not safe, so it counts as an expression)
            if isinstance(nd, N.Include):
                return out + [("expr", "include", nd.lineno)]
            continue
        return out + cont()

    def scan(nodes, cont, t):
        nonlocal n_sites
        for i, nd in enumerate(nodes):
            rest = lambda i=i: firsts(nodes[i + 1:], cont)      # noqa: E731
            if isinstance(nd, N.Output):
                last = nd.nodes[-1] if nd.nodes else None
                if isinstance(last, N.TemplateData) and _open_comment(last.data):
                    n_sites += 1
                    nxt = rest()
                    # harmless: a line break first, or more words of the comment (`// Uses x: {%- if c -%}yes{%- else -%}no`), or a printed value
                    def code_like(p):
                        if p[0] == "expr":
                            return False
                        if p[0] == "call":
                            return True           # a macro's output on the comment line
                        first_line = p[1].split("\n", 1)[0]
                        return re.search(r"[;(){}=#<>\[\]]", first_line) is not None
                    bad = [p for p in nxt if not (p[0] == "data" and re.match(r"[ \t]*\r?\n", p[1])) and code_like(p)]
                    ctx.ob(rule_id, t.rel, f"{t.lang}: {t.name}: the `//` comment `{last.data.rsplit(chr(10), 1)[-1].strip()[:50]}` ends with its line", not bad,
                           "" if not bad else f"the next emitted text can be `{bad[0][1][:60].strip()}` (template line {bad[0][2]}) on the same line: it is part of the comment in the "
                           "generated code", nd.lineno)
            elif isinstance(nd, N.If):
                scan(nd.body, rest, t)
                for el in nd.elif_:
                    scan(el.body, rest, t)
                scan(nd.else_, rest, t)
            elif isinstance(nd, N.For):
                loop_again = lambda nd=nd, rest=rest: firsts(nd.body, rest) + rest()      # noqa: E731
                scan(nd.body, loop_again, t)
                scan(nd.else_, rest, t)
            elif isinstance(nd, N.Macro):
                scan(nd.body, lambda: [], t)      # what follows a macro's text is the call site's business (trim / indent filters)
            elif isinstance(nd, (N.CallBlock, N.FilterBlock, N.Block, N.Scope)) and hasattr(nd, "body"):
                scan(nd.body, rest, t)

    for lang in langs:
        for t in ts.of_lang(lang, "templates") + ts.of_lang(lang, "support"):
            if only and t.name not in only:
                continue
            scan(list(t.ast.body), lambda: [], t)
    ctx.floor(rule_id + ":comment-ends", n_sites, floor)
