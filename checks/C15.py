"""
C15 - line post-processing is chunking independent and changes only what it documents.
Static: driver shape, terminator-width (regex AST) vs what is searched, return-value provenance of the processors.
"""
import ast
import re

try:
    import re._parser as sre_parse  # py3.11+
except ImportError:  # pragma: no cover
    import sre_parse  # type: ignore

from nvsa import pyfront
from nvsa.report import AnalysisError

GEN_MOD = "nunavut.jinja"
PP_MOD = "nunavut._postprocessors"


def _calls(node, attr):
    return [c for c in ast.walk(node) if isinstance(c, ast.Call) and (
        (isinstance(c.func, ast.Attribute) and c.func.attr == attr) or (isinstance(c.func, ast.Name) and c.func.id == attr))]


def rule_driver(ctx, px):
    R = "R-C15-DRIVER"
    ctx.rule(
        R,
        "every completed line and the final remainder reach _filter_and_write_line; _filter_and_write_line applies "
        "every processor in list order and writes both components in order; without line processors chunks are "
        "written unmodified",
    )
    w = px.func(GEN_MOD, "CodeGenerator._filter_and_write_line")
    params = [a.arg for a in w.node.args.args]
    tup, out, pps = params[0], params[1], params[2]
    loops = [n for n in w.node.body if isinstance(n, ast.For)]
    ok = len(loops) == 1 and ast.unparse(loops[0].iter) == pps
    ctx.ob(R, w.module.rel, f"{w.short} :: iterates the whole processor list in order", ok,
           "" if ok else "processor loop is sliced, filtered, reversed or missing", w.node.lineno)
    if ok:
        lp = loops[0]
        v = lp.target.id if isinstance(lp.target, ast.Name) else "?"
        chain = [s for s in lp.body if isinstance(s, ast.Assign) and ast.unparse(s.targets[0]) == tup
                 and ast.unparse(s.value) == f"{v}({tup})"]
        skip = any(isinstance(x, (ast.Break, ast.Continue)) for x in ast.walk(lp))
        ctx.ob(R, w.module.rel, f"{w.short} :: each processor receives the previous processor's result", len(chain) == 1 and not skip,
               "" if (len(chain) == 1 and not skip) else "processors are skipped or not chained", lp.lineno)
    writes = [c for c in _calls(w.node, "write") if ast.unparse(c.func.value) == out]
    args = [ast.unparse(c.args[0]) for c in writes if c.args]
    ok = args == [f"{tup}[0]", f"{tup}[1]"] and all(not pyfront.guards_of(w.node, c) for c in writes)
    ctx.ob(R, w.module.rel, f"{w.short} :: writes line then terminator, unconditionally", ok,
           "" if ok else f"writes are {args}", w.node.lineno)

    g = px.func(GEN_MOD, "CodeGenerator._generate_with_line_buffer")
    chunk_loops = [n for n in g.node.body if isinstance(n, ast.For)]
    if len(chunk_loops) != 1:
        raise AnalysisError("anchor missing: the chunk loop of _generate_with_line_buffer")
    cl = chunk_loops[0]
    gen_param = g.node.args.args[2].arg
    ok = ast.unparse(cl.iter) == gen_param
    ctx.ob(R, g.module.rel, f"{g.short} :: iterates every chunk of the template generator", ok, "", cl.lineno)
    inner = [c for c in _calls(cl, "_filter_and_write_line")]
    ctx.ob(R, g.module.rel, f"{g.short} :: completed lines are handed to _filter_and_write_line", len(inner) >= 1,
           "" if inner else "no call inside the chunk loop", cl.lineno)
    after = [st for st in g.node.body[g.node.body.index(cl) + 1:]]
    flush = [c for st in after for c in _calls(st, "_filter_and_write_line")]
    ok = len(flush) >= 1
    ctx.ob(R, g.module.rel, f"{g.short} :: remainder flush after the chunk loop", ok,
           "" if ok else "a final line without terminator is never written", g.node.lineno)
    if ok:
        c = flush[0]
        # first element of the tuple derives from the carried buffer; second is the empty terminator
        a0 = c.args[0]
        srcs = {n.id for n in ast.walk(a0) if isinstance(n, ast.Name)}
        # trace one assignment step
        defs = {}
        for st in after:
            if isinstance(st, ast.Assign) and isinstance(st.targets[0], ast.Name):
                defs[st.targets[0].id] = ast.unparse(st.value)
        derived = any("getvalue" in defs.get(s, "") for s in srcs) or "getvalue" in ast.unparse(a0)
        ctx.ob(R, g.module.rel, f"{g.short} :: flushed text is the carried buffer", derived,
               "" if derived else f"flush writes {ast.unparse(a0)}", c.lineno)
        gd = pyfront.guards_of(g.node, c) or ()
        terms = pyfront.guard_terms(gd)
        ok2 = all(("len(" in e and "> 0" in e and p) or (e in srcs and p) or (e.startswith("len(") and p) for e, p in terms)
        ctx.ob(R, g.module.rel, f"{g.short} :: flush happens whenever the remainder is non-empty", ok2,
               "" if ok2 else f"flush guarded by {terms}", c.lineno)
    # all text before a match and the text after the last match are carried: two writes into the buffer
    carried = [c for c in _calls(cl, "write") if "line_buffer" in ast.unparse(c.func.value) or "buffer" in ast.unparse(c.func.value)]
    ctx.ob(R, g.module.rel, f"{g.short} :: text before a terminator and after the last one is carried", len(carried) >= 2,
           "" if len(carried) >= 2 else f"{len(carried)} buffer writes", cl.lineno)

    # _generate_code: no processors -> parts written verbatim
    gc = px.func(GEN_MOD, "CodeGenerator._generate_code")
    found = False
    for st, gd in pyfront.walk_guarded(gc.node.body):
        if isinstance(st, ast.For) and ast.unparse(st.iter) == "template_gen":
            found = True
            body_ok = len(st.body) == 1 and isinstance(st.body[0], ast.Expr) and isinstance(st.body[0].value, ast.Call) \
                and ast.unparse(st.body[0].value.args[0]) == ast.unparse(st.target) \
                and isinstance(st.body[0].value.func, ast.Attribute) and st.body[0].value.func.attr == "write"
            ctx.ob(R, gc.module.rel, f"{gc.short} :: without line processors each chunk is written unmodified", body_ok,
                   "" if body_ok else "pass-through loop alters chunks", st.lineno)
    if not found:
        # acceptable alternative: always use the line buffer (which with an empty list writes lines verbatim)
        lb = _calls(gc.node, "_generate_with_line_buffer")
        ctx.ob(R, gc.module.rel, f"{gc.short} :: pass-through path", bool(lb), "" if lb else "no output path at all", gc.node.lineno)


def _regex_width(pattern: str):
    p = sre_parse.parse(pattern)
    lo, hi = p.getwidth()
    return lo, int(hi)


def rule_straddle(ctx, px):
    R = "R-C15-STRADDLE"
    ctx.rule(
        R,
        "if the terminator pattern can match more than one character a terminator can straddle a chunk boundary: the "
        "splitter must then search the carried buffer together with the chunk, hold back a terminator prefix, or "
        "re-join a terminator whose first character ended the carried text",
    )
    g = px.func(GEN_MOD, "CodeGenerator._generate_with_line_buffer")
    pats = []
    for n in ast.walk(g.node):
        if isinstance(n, ast.Assign) and isinstance(n.value, ast.Call) and ast.unparse(n.value.func) in ("re.compile",) \
                and n.value.args and isinstance(n.value.args[0], ast.Constant):
            pats.append((n, n.value.args[0].value, ast.unparse(n.targets[0])))
    if not pats:
        raise AnalysisError("anchor missing: terminator pattern in _generate_with_line_buffer")
    node, pat, var = pats[0]
    lo, hi = _regex_width(pat)
    ctx.unit("terminator_pattern", pat)
    ctx.unit("terminator_width", [lo, hi])
    if hi <= 1:
        ctx.ob(R, g.module.rel, f"{g.short} :: terminator pattern {pat!r} has width {hi}", True, "single-character terminators cannot straddle", node.lineno)
        return
    # what does .search scan?
    chunk_var = None
    for n in g.node.body:
        if isinstance(n, ast.For):
            chunk_var = ast.unparse(n.target)
    searches = [c for c in ast.walk(g.node) if isinstance(c, ast.Call) and isinstance(c.func, ast.Attribute)
                and c.func.attr in ("search", "finditer", "split", "match") and ast.unparse(c.func.value) == var]
    scans_chunk_only = all(c.args and ast.unparse(c.args[0]) == chunk_var for c in searches) and bool(searches)
    # accepted repairs: a test on the end of the carried text / chunk for the terminator's first character
    first_chars = set()
    for alt in re.split(r"\|", pat):
        try:
            s = bytes(alt, "utf-8").decode("unicode_escape")
        except Exception:
            s = alt
        if len(s) > 1:
            first_chars.add(s[0])
    # names holding the carried text: assigned from <buffer>.getvalue()
    carried = set()
    for n in ast.walk(g.node):
        if isinstance(n, ast.Assign) and isinstance(n.targets[0], ast.Name) and "getvalue()" in ast.unparse(n.value):
            carried.add(n.targets[0].id)
    repairs = []
    weak = []
    for n in ast.walk(g.node):
        subj = None
        if isinstance(n, ast.Call) and isinstance(n.func, ast.Attribute) and n.func.attr == "endswith" and n.args \
                and isinstance(n.args[0], ast.Constant) and n.args[0].value in first_chars:
            subj = n.func.value
        if isinstance(n, ast.Compare) and isinstance(n.left, ast.Subscript) and ast.unparse(n.left.slice) in ("-1", "-1:") \
                and any(isinstance(c, ast.Constant) and c.value in first_chars for c in n.comparators):
            subj = n.left.value
        if subj is None:
            continue
        st = ast.unparse(subj)
        if st in carried or "getvalue()" in st:
            repairs.append(n)  # idiom 1: the end of the carried text itself is inspected when a terminator is found
        elif st == chunk_var:
            # idiom 2: a flag remembering that the previous chunk ended with the terminator's first character; sound only
            # if empty chunks do not reset it: the flag assignment must be conditioned on a non-empty chunk
            pm = pyfront.parent_map(g.node)
            stmt = pyfront.enclosing_stmt(n, pm)
            gd = pyfront.guards_of(g.node, n) or ()
            terms = pyfront.guard_terms(gd)
            nonempty = any((e in (chunk_var, f"len({chunk_var}) > 0", f"len({chunk_var})") and p) or (e in (f"not {chunk_var}", f"len({chunk_var}) == 0") and not p)
                           for e, p in terms)
            keeps = isinstance(stmt, ast.Assign) and isinstance(stmt.value, ast.BoolOp)
            (repairs if (nonempty or keeps) else weak).append(n)
    ok = (not scans_chunk_only) or bool(repairs)
    why = ("searches more than the bare chunk" if not scans_chunk_only else
           ("re-joins / holds back a split terminator" if repairs else
            ("a per-chunk flag remembers a trailing terminator prefix but is overwritten by every chunk, including empty ones: "
             "a terminator cut as [..\\r] [] [\\n..] is not re-joined" if weak else
            f"pattern {pat!r} can match {hi} characters but only the current chunk is searched: a terminator cut "
            "between two chunks is seen as a different terminator (CRLF becomes LF after whitespace trimming)")))
    ctx.ob(R, g.module.rel, f"{g.short} :: multi-character terminator {pat!r} vs chunk boundaries", ok, why, node.lineno)


def rule_pp_contract(ctx, px):
    R = "R-C15-PP-CONTRACT"
    ctx.rule(
        R,
        "TrimTrailingWhitespace returns the input terminator component on every path and a prefix of the input line; "
        "LimitEmptyLines returns its argument unchanged or the elision tuple, the latter only where the current line "
        "is empty (count > N with count zeroed by every non-empty line, N >= 0)",
    )
    t = px.cls(PP_MOD, "TrimTrailingWhitespace").methods["__call__"]
    p = t.node.args.args[1].arg
    rets = [r for r in ast.walk(t.node) if isinstance(r, ast.Return)]
    if not rets:
        raise AnalysisError("anchor missing: returns of TrimTrailingWhitespace.__call__")
    # the pattern that finds the cut must be anchored at the end and match whitespace only
    init = px.cls(PP_MOD, "TrimTrailingWhitespace").methods["__init__"]
    pat = None
    for n in ast.walk(init.node):
        if isinstance(n, ast.Call) and ast.unparse(n.func) == "re.compile" and n.args and isinstance(n.args[0], ast.Constant):
            pat = n.args[0].value
    # locals aliasing the line component / the match object
    line_alias = {f"{p}[0]"}
    match_vars = set()
    for n in ast.walk(t.node):
        if isinstance(n, ast.Assign) and isinstance(n.targets[0], ast.Name):
            v = ast.unparse(n.value)
            if v in line_alias:
                line_alias.add(n.targets[0].id)
    for n in ast.walk(t.node):
        if isinstance(n, ast.Assign) and isinstance(n.targets[0], ast.Name) and isinstance(n.value, ast.Call) \
                and isinstance(n.value.func, ast.Attribute) and n.value.func.attr == "search" and n.value.args \
                and ast.unparse(n.value.args[0]) in line_alias:
            match_vars.add(n.targets[0].id)
    ret_guards = {}
    for st, gd in pyfront.walk_guarded(t.node.body):
        if isinstance(st, ast.Return):
            ret_guards[id(st)] = pyfront.guard_terms(gd)

    def implies_no_trailing_ws(terms):
        """accepted reasons for returning the argument unchanged"""
        for e, pol in terms:
            for mv in match_vars:
                if (e == f"{mv} is not None" and not pol) or (e == f"{mv} is None" and pol) or (e == mv and not pol):
                    return True
            for la in line_alias:
                if (e in (f"len({la}) == 0", f"not {la}", f"{la} == ''") and pol) or (e in (f"len({la}) > 0", la) and not pol):
                    return True
                if (e == f"{la}[-1].isspace()" and not pol) or (e == f"not {la}[-1].isspace()" and pol):
                    return True
        return False

    for i, r in enumerate(rets):
        v = r.value
        txt = ast.unparse(v) if v is not None else "None"
        if txt == p:
            terms = ret_guards.get(id(r), [])
            # an `a or b` early-out: every disjunct must be an accepted reason
            ok_same = False
            for e, pol in terms:
                try:
                    node = ast.parse(e, mode="eval").body
                except SyntaxError:
                    continue
                if pol and isinstance(node, ast.BoolOp) and isinstance(node.op, ast.Or):
                    ok_same = ok_same or all(implies_no_trailing_ws([(ast.unparse(d), True)]) for d in node.values)
            ok_same = ok_same or implies_no_trailing_ws(terms)
            ctx.ob(R, t.module.rel, f"{t.short} :: return #{i + 1} is the argument itself, only when the line has no trailing whitespace", ok_same,
                   "no match of the end-anchored whitespace pattern / empty line" if ok_same else
                   f"the line is returned untrimmed under {terms}, which does not imply that it has no trailing whitespace in the "
                   "sense of the trim pattern (\\s is Unicode-aware)", r.lineno)
            continue
        ok = isinstance(v, ast.Tuple) and len(v.elts) == 2 and ast.unparse(v.elts[1]) == f"{p}[1]"
        ctx.ob(R, t.module.rel, f"{t.short} :: return #{i + 1} keeps the terminator component", ok,
               "" if ok else f"returns {txt}", r.lineno)
        if isinstance(v, ast.Tuple) and len(v.elts) == 2:
            e0 = pyfront.subst_locals(t.node, v.elts[0])    # `line = p[0]` hoisted into a local is the same expression
            pref = False
            if isinstance(e0, ast.Subscript) and ast.unparse(e0.value) == f"{p}[0]" and isinstance(e0.slice, ast.Slice) \
                    and e0.slice.lower is None and e0.slice.step is None:
                pref = True
            if isinstance(e0, ast.Call) and isinstance(e0.func, ast.Attribute) and e0.func.attr == "rstrip" \
                    and ast.unparse(e0.func.value) == f"{p}[0]":
                pref = True
            ctx.ob(R, t.module.rel, f"{t.short} :: return #{i + 1} line component is a prefix of the input line", pref,
                   "" if pref else f"line component is {ast.unparse(e0)}", r.lineno)
    if pat is not None:
        try:
            parsed = sre_parse.parse(pat)
            anchored = len(parsed) >= 1 and str(parsed[-1][0]) == "AT" and "END" in str(parsed[-1][1])
            body = parsed[:-1] if anchored else parsed
            only_ws = all(str(op) in ("MAX_REPEAT", "MIN_REPEAT") and all(
                str(o2) == "IN" and all(str(x[0]) == "CATEGORY" and "SPACE" in str(x[1]) and "NOT" not in str(x[1]) for x in a2)
                for o2, a2 in av[2]) for op, av in body)
            ctx.ob(R, t.module.rel, f"{t.short} :: cut pattern {pat!r} is end-anchored whitespace", anchored and only_ws,
                   "" if anchored and only_ws else "pattern can remove non-whitespace or interior text", init.node.lineno)
        except Exception as e:  # pragma: no cover
            raise AnalysisError(f"cannot parse trim pattern {pat!r}: {e}")

    le = px.cls(PP_MOD, "LimitEmptyLines").methods["__call__"]
    p = le.node.args.args[1].arg
    # counter discipline
    cnt = None
    disc_ok = False
    empties_le = (f"len({p}[0]) == 0", f"0 == len({p}[0])", f"not {p}[0]", f"{p}[0] == ''", f"'' == {p}[0]", f"not len({p}[0])")
    for st in le.node.body:
        # `self._count = (self._count + 1) if <empty line> else 0` - the conditional-expression form of the same discipline
        if isinstance(st, ast.Assign) and len(st.targets) == 1 and isinstance(st.value, ast.IfExp):
            ie = st.value
            tst, a_, b_ = pyfront.subst_locals(le.node, ie.test), ie.body, ie.orelse
            if isinstance(tst, ast.UnaryOp) and isinstance(tst.op, ast.Not) and ast.unparse(tst) not in empties_le:
                tst, a_, b_ = tst.operand, b_, a_
            tg = ast.unparse(st.targets[0])
            if ast.unparse(tst) in empties_le and ast.unparse(b_) == "0" and ast.unparse(a_).replace("(", "").replace(")", "") in (f"{tg} + 1", f"1 + {tg}"):
                cnt = tg
                disc_ok = True
        if isinstance(st, ast.If) and st.orelse:
            tnode, body_, orelse_ = st.test, st.body, st.orelse
            empties = (f"len({p}[0]) == 0", f"0 == len({p}[0])", f"not {p}[0]", f"{p}[0] == ''", f"'' == {p}[0]", f"not len({p}[0])")
            if ast.unparse(tnode) not in empties and isinstance(tnode, ast.UnaryOp) and isinstance(tnode.op, ast.Not):
                tnode, body_, orelse_ = tnode.operand, st.orelse, st.body      # `if not <empty>: zero else: count`
            elif ast.unparse(tnode) in (f"len({p}[0]) != 0", f"len({p}[0]) > 0", f"0 != len({p}[0])", f"0 < len({p}[0])", f"{p}[0]"):
                tnode, body_, orelse_ = ast.parse(f"len({p}[0]) == 0", mode="eval").body, st.orelse, st.body
            test = ast.unparse(tnode)
            empty_test = test in empties
            inc = [s for s in body_ if isinstance(s, ast.AugAssign) and isinstance(s.op, ast.Add) and ast.unparse(s.value) == "1"]
            zero = [s for s in orelse_ if isinstance(s, ast.Assign) and ast.unparse(s.value) == "0"]
            if empty_test and len(inc) == 1 and len(zero) == 1 and ast.unparse(inc[0].target) == ast.unparse(zero[0].targets[0]) \
                    and len(st.body) == 1 and len(st.orelse) == 1:
                cnt = ast.unparse(inc[0].target)
                disc_ok = True
    ctx.ob(R, le.module.rel, f"{le.short} :: counter incremented by empty lines and zeroed by every non-empty line", disc_ok,
           "" if disc_ok else "counter discipline changed", le.node.lineno)
    rets = []
    for st, gd in pyfront.walk_guarded(le.node.body):
        if isinstance(st, ast.Return):
            rets.append((st, pyfront.guard_terms(gd)))
    for i, (r, terms) in enumerate(rets):
        txt = ast.unparse(r.value) if r.value is not None else "None"
        if txt == p:
            ctx.ob(R, le.module.rel, f"{le.short} :: return #{i + 1} is the argument unchanged", True, "", r.lineno)
        elif txt in ("('', '')", '("", "")'):
            strict = cnt is not None and any(
                (e in (f"{cnt} > self._max_empty_lines", f"self._max_empty_lines < {cnt}") and pol)
                or (e in (f"{cnt} <= self._max_empty_lines", f"self._max_empty_lines >= {cnt}") and not pol)
                for e, pol in terms)
            ctx.ob(R, le.module.rel, f"{le.short} :: elision only when count > N (so only for an empty line, N >= 0)", strict,
                   "" if strict else f"elision guarded by {terms}: a non-empty line (count == 0) can be removed when N == 0, "
                   "or fewer than N empty lines survive", r.lineno)
        else:
            ctx.ob(R, le.module.rel, f"{le.short} :: return #{i + 1}", False, f"returns {txt}: alters a line", r.lineno)
    if len(rets) < 2:
        raise AnalysisError("anchor missing: returns of LimitEmptyLines.__call__")
    # N stored unmodified
    init = px.cls(PP_MOD, "LimitEmptyLines").methods["__init__"]
    asg = [n for n in ast.walk(init.node) if isinstance(n, ast.Assign) and ast.unparse(n.targets[0]) == "self._max_empty_lines"]
    ok = len(asg) == 1 and ast.unparse(asg[0].value) == init.node.args.args[1].arg
    ctx.ob(R, le.module.rel, "LimitEmptyLines.__init__ :: N stored unmodified", ok, "", init.node.lineno)


def rule_copy(ctx, px):
    R = "R-C15-COPY"
    ctx.rule(
        R,
        "_copy_header_using_line_pps strips a terminator from a line only under a test that the line ends with it "
        "(a final line without terminator loses no character) and applies every processor in order",
    )
    f = px.func(GEN_MOD, "SupportGenerator._copy_header_using_line_pps")
    n = 0
    for st, gd in pyfront.walk_guarded(f.node.body):
        if not isinstance(st, ast.Assign) or not isinstance(st.value, ast.Tuple) or len(st.value.elts) != 2:
            continue
        e0, e1 = st.value.elts
        if not (isinstance(e0, ast.Subscript) and isinstance(e0.slice, ast.Slice) and e0.slice.upper is not None):
            if isinstance(e1, ast.Constant) and e1.value == "":
                n += 1
                ctx.ob(R, f.module.rel, f"{f.short} :: unterminated line kept whole", ast.unparse(e0).isidentifier(), "", st.lineno)
            continue
        n += 1
        line_var = ast.unparse(e0.value)
        cut = ast.unparse(e0.slice.upper)  # e.g. -1, -2
        term = e1.value if isinstance(e1, ast.Constant) else None
        terms = pyfront.guard_terms(gd)
        guarded = False
        if term is not None:
            for e, pol in terms:
                if pol and e in (f"{line_var}.endswith({term!r})", f'{line_var}.endswith("{term}")'.encode("unicode_escape").decode()):
                    guarded = True
                if pol and term == "\r\n" and f"{line_var}[-2] == '\\r'" in e:
                    # idiom of the tree: len(line) > 1 and line[-2] == "\r" (text mode lines end in \n when terminated)
                    guarded = True
        ok = guarded and term is not None and cut == f"-{len(term)}"
        ctx.ob(R, f.module.rel, f"{f.short} :: strips {term!r} via [{ast.unparse(e0.slice)}]", ok,
               "" if ok else f"{len(term) if term else '?'} character(s) are cut without checking that the line ends with {term!r}: "
               "the last line of a file without final newline loses its last character", st.lineno)
    ctx.floor(R, n, 2)
    loops = [x for x in ast.walk(f.node) if isinstance(x, ast.For) and ast.unparse(x.iter) == "line_pps"
             and not any(isinstance(c, ast.Call) and isinstance(c.func, ast.Attribute) and c.func.attr == "reset" for c in ast.walk(x))]
    ok = len(loops) == 1 and not any(isinstance(x, (ast.Break, ast.Continue)) for x in ast.walk(loops[0]))
    ctx.ob(R, f.module.rel, f"{f.short} :: every processor applied in order", ok, "", f.node.lineno)


def run(ctx):
    ctx.explanation = (
        "C15 is decided on the shape of the line-buffer driver and of the two built-in line processors: all lines and "
        "the remainder reach the writer, processors are chained in order, the terminator pattern's maximum width "
        "(regex AST) is compared with what is searched, and the processors' return values are traced to their "
        "arguments.  Equivalence for all texts and chunk schedules is not enumerated."
    )
    ctx.declined = ["equivalence with line-by-line processing for all texts and all chunk schedules (value-level string equality)"]
    px = pyfront.PyIndex(ctx.root)
    rule_driver(ctx, px)
    rule_straddle(ctx, px)
    rule_pp_contract(ctx, px)
    rule_copy(ctx, px)
