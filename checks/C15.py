"""
C15 - line post-processing is chunking independent and changes only what it documents.
Static: driver shape, terminator-width (regex AST) vs what is searched, return-value provenance of the processors.
"""
import ast
import re

try:
    import re._parser as sre_parse  # py3.11+
except ImportError:  # pragma: no cover
    import sre_parse  # type: ignore

from nvsa import pyfront
from nvsa.report import AnalysisError

GEN_MOD = "nunavut.jinja"
PP_MOD = "nunavut._postprocessors"


def _calls(node, attr):
    return [c for c in ast.walk(node) if isinstance(c, ast.Call) and (
        (isinstance(c.func, ast.Attribute) and c.func.attr == attr) or (isinstance(c.func, ast.Name) and c.func.id == attr))]


def _regex_language(pattern: str):
    """the finite set of strings a (small) pattern matches, or None when it is not finite / not understood"""
    import re._constants as sc

    def seq(items):
        outs = {""}
        for op, av in items:
            alts = one(op, av)
            if alts is None:
                return None
            outs = {a + b for a in outs for b in alts}
            if len(outs) > 64:
                return None
        return outs

    def one(op, av):
        if op is sc.LITERAL:
            return {chr(av)}
        if op is sc.IN:
            out = set()
            for k, v in av:
                if k is sc.LITERAL:
                    out.add(chr(v))
                else:
                    return None
            return out
        if op is sc.BRANCH:
            out = set()
            for alt in av[1]:
                r = seq(list(alt))
                if r is None:
                    return None
                out |= r
            return out
        if op is sc.SUBPATTERN:
            return seq(list(av[3]))
        if op in (sc.MAX_REPEAT, sc.MIN_REPEAT):
            lo, hi, items = av
            if hi > 3:
                return None
            base = seq(list(items))
            if base is None:
                return None
            out = set()
            for k in range(lo, hi + 1):
                cur = {""}
                for _ in range(k):
                    cur = {a + b for a in cur for b in base}
                out |= cur
            return out
        return None

    try:
        return seq(list(sre_parse.parse(pattern)))
    except Exception:
        return None


def driver_model(g, cl):
    """how the line splitter finds terminators and what it carries from chunk to chunk"""
    chunk = ast.unparse(cl.target)
    carriers = {}
    for st in g.node.body[: g.node.body.index(cl)]:
        if isinstance(st, (ast.Assign, ast.AnnAssign)) and st.value is not None:
            tg = st.targets[0] if isinstance(st, ast.Assign) else st.target
            if isinstance(tg, ast.Name):
                v = ast.unparse(st.value)
                if v in ("io.StringIO()", "StringIO()"):
                    carriers[tg.id] = "sio"
                elif isinstance(st.value, ast.Constant) and st.value.value == "":
                    carriers[tg.id] = "str"
                elif v in ("[]", "list()"):
                    carriers[tg.id] = "list"       # the pieces of the unterminated line, joined when it is completed
    pats = {}
    for n in ast.walk(g.node):
        if isinstance(n, ast.Assign) and isinstance(n.value, ast.Call) and ast.unparse(n.value.func) == "re.compile" and n.value.args \
                and isinstance(n.value.args[0], ast.Constant) and isinstance(n.targets[0], ast.Name):
            pats[n.targets[0].id] = (n.value.args[0].value, n)
    # ... or compiled once as a constant of the class / module (cls.X, self.X, X)
    scope = (list(g.cls.node.body) if getattr(g, "cls", None) is not None else []) + list(g.module.tree.body)
    for n in scope:
        if isinstance(n, ast.Assign) and isinstance(n.value, ast.Call) and ast.unparse(n.value.func) == "re.compile" and n.value.args \
                and isinstance(n.value.args[0], ast.Constant) and isinstance(n.targets[0], ast.Name):
            for spelling in (n.targets[0].id, f"cls.{n.targets[0].id}", f"self.{n.targets[0].id}") + ((f"{g.cls.name}.{n.targets[0].id}",) if getattr(g, "cls", None) is not None else ()):
                pats.setdefault(spelling, (n.value.args[0].value, n))
    recognisers = []
    for c in ast.walk(g.node):
        if not (isinstance(c, ast.Call) and isinstance(c.func, ast.Attribute)):
            continue
        recv = ast.unparse(c.func.value)
        if c.func.attr in ("search", "finditer", "split", "match", "findall") and recv in pats and c.args:
            recognisers.append(("regex", pats[recv][0], c, c.args[0]))
        elif c.func.attr == "splitlines":
            recognisers.append(("splitlines", None, c, c.func.value))
        elif c.func.attr in ("split", "partition", "find", "index") and c.args and isinstance(c.args[0], ast.Constant) and c.args[0].value in ("\n", "\r\n") \
                and recv not in pats:
            recognisers.append(("literal", c.args[0].value, c, c.func.value))

    def joined(e):
        """the scanned text is the carried text followed by the chunk"""
        names = {n.id for n in ast.walk(e) if isinstance(n, ast.Name)}
        return chunk in names and any(cn in names for cn in carriers) and isinstance(e, (ast.BinOp, ast.JoinedStr, ast.Call))

    scan = "chunk"
    for kind, pat, c, scanned in recognisers:
        sc_ = pyfront.subst_locals(g.node, scanned)
        if joined(sc_):
            scan = "joined"
    updates = []
    for n in ast.walk(cl):
        if isinstance(n, ast.Call) and isinstance(n.func, ast.Attribute) and n.func.attr in ("write", "append") and ast.unparse(n.func.value) in carriers \
                and n.args and any(isinstance(x, ast.Name) and x.id == chunk for x in ast.walk(n.args[0])):
            updates.append(n)
        if isinstance(n, ast.AugAssign) and isinstance(n.target, ast.Name) and carriers.get(n.target.id) == "str":
            updates.append(n)
        if isinstance(n, ast.Assign) and len(n.targets) == 1 and isinstance(n.targets[0], ast.Name) and carriers.get(n.targets[0].id) == "str":
            updates.append(n)
    return {"chunk": chunk, "carriers": carriers, "pats": pats, "recognisers": recognisers, "scan": scan, "carry_updates": updates}


def _emits(node):
    """line events of the splitter: (node, (line, terminator) expression) - a call of _filter_and_write_line, or a `yield` when the
    splitter is a generator whose items the driver hands to _filter_and_write_line one by one"""
    out = []
    for c in ast.walk(node):
        if isinstance(c, ast.Call) and c.args and ((isinstance(c.func, ast.Attribute) and c.func.attr == "_filter_and_write_line")
                                                   or (isinstance(c.func, ast.Name) and c.func.id == "_filter_and_write_line")):
            out.append((c, c.args[0]))
        elif isinstance(c, ast.Yield) and c.value is not None:
            out.append((c, c.value))
    return sorted(out, key=lambda x: (x[0].lineno, x[0].col_offset))


def _owner_loop(root, node):
    """innermost loop of `root` (inclusive) that contains node"""
    best = None
    for lp in ast.walk(root):
        if isinstance(lp, (ast.For, ast.While)) and any(x is node for x in ast.walk(lp)):
            if best is None or any(x is lp for x in ast.walk(best)):
                best = lp
    return best


def splitter(px):
    """(driver, splitter function, chunk loop, consumer loop or None).  The splitter is the function that loops over the chunks of the
    template generator: _generate_with_line_buffer itself, or a private generator it iterates
    (`for item in cls._split(template_gen): cls._filter_and_write_line(item, output_file, line_pps)`)."""
    g = px.func(GEN_MOD, "CodeGenerator._generate_with_line_buffer")
    params = [a.arg for a in g.node.args.args]
    loops = [n for n in g.node.body if isinstance(n, ast.For)]
    if len(loops) != 1:
        raise AnalysisError("anchor missing: the chunk loop of _generate_with_line_buffer")
    lp = loops[0]
    if isinstance(lp.iter, ast.Name) and lp.iter.id in params:
        return g, g, lp, None
    if isinstance(lp.iter, ast.Call):
        for h in px.resolve_call(g, lp.iter, by_name_fallback=False):
            if h.module is g.module and any(isinstance(n, ast.Yield) for n in ast.walk(h.node)):
                hp = [a.arg for a in h.node.args.args]
                hl = [n for n in h.node.body if isinstance(n, ast.For) and isinstance(n.iter, ast.Name) and n.iter.id in hp]
                if len(hl) == 1:
                    return g, h, hl[0], lp
    raise AnalysisError("anchor missing: the chunk loop of _generate_with_line_buffer")


def rule_driver(ctx, px):
    R = "R-C15-DRIVER"
    ctx.rule(
        R,
        "every completed line and the final remainder reach _filter_and_write_line; _filter_and_write_line applies "
        "every processor in list order and writes both components in order; without line processors chunks are "
        "written unmodified",
    )
    w = px.func(GEN_MOD, "CodeGenerator._filter_and_write_line")
    params = [a.arg for a in w.node.args.args]
    tup, out, pps = params[0], params[1], params[2]
    loops = [n for n in w.node.body if isinstance(n, ast.For)]
    ok = len(loops) == 1 and ast.unparse(loops[0].iter) == pps
    ctx.ob(R, w.module.rel, f"{w.short} :: iterates the whole processor list in order", ok,
           "" if ok else "processor loop is sliced, filtered, reversed or missing", w.node.lineno)
    # the variable that carries the (line, terminator) pair through the processors: the parameter itself or a local seeded with it
    seeds = [s_.targets[0].id for s_ in w.node.body if isinstance(s_, ast.Assign) and len(s_.targets) == 1 and isinstance(s_.targets[0], ast.Name)
             and isinstance(s_.value, ast.Name) and s_.value.id == tup and (not loops or s_.lineno < loops[0].lineno)]
    if seeds:
        tup = seeds[-1]
    if ok:
        lp = loops[0]
        v = lp.target.id if isinstance(lp.target, ast.Name) else "?"
        chain = [s for s in lp.body if isinstance(s, ast.Assign) and ast.unparse(s.targets[0]) == tup
                 and ast.unparse(s.value) == f"{v}({tup})"]
        skip = any(isinstance(x, (ast.Break, ast.Continue)) for x in ast.walk(lp))
        ctx.ob(R, w.module.rel, f"{w.short} :: each processor receives the previous processor's result", len(chain) == 1 and not skip,
               "" if (len(chain) == 1 and not skip) else "processors are skipped or not chained", lp.lineno)
    writes = [c for c in _calls(w.node, "write") if ast.unparse(c.func.value) == out]
    args = [ast.unparse(c.args[0]) for c in writes if c.args]
    ok = args == [f"{tup}[0]", f"{tup}[1]"] and all(not pyfront.guards_of(w.node, c) for c in writes)
    ctx.ob(R, w.module.rel, f"{w.short} :: writes line then terminator, unconditionally", ok,
           "" if ok else f"writes are {args}", w.node.lineno)

    drv, g, cl, consumer = splitter(px)
    gen_param = drv.node.args.args[2].arg
    if consumer is None:
        ok = ast.unparse(cl.iter) == gen_param
    else:
        # generator form: the splitter receives the driver's generator and every item it yields goes, unchanged and unconditionally,
        # to _filter_and_write_line together with the driver's own stream and processor list
        item = consumer.target.id if isinstance(consumer.target, ast.Name) else "?"
        dparams = [a.arg for a in drv.node.args.args]
        body = consumer.body
        call = body[0].value if len(body) == 1 and isinstance(body[0], ast.Expr) and isinstance(body[0].value, ast.Call) else None
        handed = call is not None and [e for _, e in _emits(call)] and [ast.unparse(a) for a in call.args] == [item, dparams[1], dparams[3]] \
            and not consumer.orelse and not any(isinstance(x, (ast.Break, ast.Continue)) for x in ast.walk(consumer))
        ctx.ob(R, drv.module.rel, f"{drv.short} :: every item of the splitter is handed to _filter_and_write_line unchanged", bool(handed),
               "" if handed else "items of the line splitter are filtered, altered or written past the processors", consumer.lineno)
        sp = [a.arg for a in g.node.args.args]
        arg_ok = [ast.unparse(a) for a in consumer.iter.args] == [gen_param] and not consumer.iter.keywords and ast.unparse(cl.iter) == sp[-1]
        ok = arg_ok and len(sp) - (1 if sp and sp[0] in ("self", "cls") else 0) == 1
    ctx.ob(R, g.module.rel, f"{g.short} :: iterates every chunk of the template generator", ok, "", cl.lineno)
    inner = [c for c, _ in _emits(cl)]
    ctx.ob(R, g.module.rel, f"{g.short} :: completed lines are handed to _filter_and_write_line", len(inner) >= 1,
           "" if inner else "no call inside the chunk loop", cl.lineno)
    # ... and nothing reaches the output stream past the processors: inside the driver / splitter the stream is written by
    # _filter_and_write_line only, and no chunk leaves the scanning loop early
    out_param = drv.node.args.args[1].arg
    direct = []
    for fn_ in {id(drv): drv, id(g): g}.values():
        for c in ast.walk(fn_.node):
            if not isinstance(c, ast.Call):
                continue
            is_fwl = (isinstance(c.func, ast.Attribute) and c.func.attr == "_filter_and_write_line") or (isinstance(c.func, ast.Name) and c.func.id == "_filter_and_write_line")
            if isinstance(c.func, ast.Attribute) and c.func.attr in ("write", "writelines") and ast.unparse(c.func.value) == out_param:
                direct.append(c)      # written in place
            elif not is_fwl and any(isinstance(a, ast.Name) and a.id == out_param for a in list(c.args) + [k.value for k in c.keywords]) \
                    and not (consumer is not None and c is consumer.iter):
                direct.append(c)      # the stream handed to something else that may write it
    chunk_name = ast.unparse(cl.target)

    def _empty_chunk_guard(x):
        terms = pyfront.guard_terms(pyfront.guards_of(g.node, x) or ())
        return any((e.replace(" ", "") in (f"not{chunk_name}", f"len({chunk_name})==0", f"{chunk_name}==''") and p_) or
                   (e.replace(" ", "") in (chunk_name, f"len({chunk_name})>0", f"len({chunk_name})") and not p_) for e, p_ in terms)
    skips = [x for x in ast.walk(cl) if isinstance(x, ast.Continue) and _owner_loop(cl, x) is cl and not _empty_chunk_guard(x)]
    ok = not direct and not skips
    ctx.ob(R, g.module.rel, f"{g.short} :: text reaches the output only through _filter_and_write_line", ok,
           "" if ok else f"{len(direct)} direct use(s) of the output stream / {len(skips)} chunk(s) leaving the scan early (line {[d.lineno for d in direct + skips]}): "
           "lines written past the processors are not trimmed and, worse, not seen by stateful processors (LimitEmptyLines keeps counting across them), "
           "so the result depends on how the template output was chunked", cl.lineno)
    model = driver_model(g, cl)
    after = [st for st in g.node.body[g.node.body.index(cl) + 1:]]
    flush_ev = [ev for st in after for ev in _emits(st)]
    flush = [c for c, _ in flush_ev]
    ok = len(flush) >= 1
    ctx.ob(R, g.module.rel, f"{g.short} :: remainder flush after the chunk loop", ok,
           "" if ok else "a final line without terminator is never written", g.node.lineno)
    if ok:
        c = flush[0]
        # first element of the tuple derives from the carried text; second is the empty terminator
        a0 = pyfront.subst_locals(g.node, flush_ev[0][1])
        txt = ast.unparse(a0)
        derived = any((f"{cn}.getvalue()" in txt) if kind == "sio" else ((f".join({cn})" in txt) if kind == "list" else re.search(rf"\b{re.escape(cn)}\b", txt) is not None)
                      for cn, kind in model["carriers"].items())
        ctx.ob(R, g.module.rel, f"{g.short} :: flushed text is the carried text", derived,
               "" if derived else f"flush writes {txt}", c.lineno)
        empty_term = isinstance(a0, ast.Tuple) and len(a0.elts) == 2 and isinstance(a0.elts[1], ast.Constant) and a0.elts[1].value == ""
        ctx.ob(R, g.module.rel, f"{g.short} :: the flushed remainder has no terminator", empty_term, "" if empty_term else f"flush writes {txt}", c.lineno)
        gd = pyfront.guards_of(g.node, c) or ()
        terms = pyfront.guard_terms([(pyfront.subst_locals(g.node, t), p_) for t, p_ in gd])
        carried_txt = ast.unparse(a0.elts[0]) if isinstance(a0, ast.Tuple) and a0.elts else txt

        def nonempty_test(e, pol):
            e = e.replace(" ", "")
            ct = carried_txt.replace(" ", "")
            return (pol and e in (ct, f"len({ct})>0", f"len({ct})", f"len({ct})!=0", f"0<len({ct})", f"{ct}!=''", f"len({ct})>=1")) or \
                (not pol and e in (f"not{ct}", f"len({ct})==0", f"{ct}==''", f"0==len({ct})", f"len({ct})<1"))
        ok2 = all(nonempty_test(e, p_) for e, p_ in terms)
        ctx.ob(R, g.module.rel, f"{g.short} :: flush happens whenever the remainder is non-empty", ok2,
               "" if ok2 else f"flush guarded by {terms}", c.lineno)
    # no text of a chunk is dropped: what is not part of a completed line is carried to the next chunk
    if model["scan"] == "chunk":
        n_upd = len(model["carry_updates"])
        ctx.ob(R, g.module.rel, f"{g.short} :: text before a terminator and after the last one is carried", n_upd >= 2,
               "" if n_upd >= 2 else f"{n_upd} update(s) of the carried text from the chunk: the text after the last terminator (or before the first) is lost", cl.lineno)
    else:
        n_upd = len(model["carry_updates"])
        ctx.ob(R, g.module.rel, f"{g.short} :: the unterminated tail of (carried text + chunk) is carried on", n_upd >= 1,
               "" if n_upd >= 1 else "the carried text is never renewed inside the chunk loop", cl.lineno)

    # _generate_code: no processors -> parts written verbatim
    from checks import _gen
    gc = _gen.render_view(px.func(GEN_MOD, "CodeGenerator._generate_code"))
    found = False
    for st, gd in pyfront.walk_guarded(gc.node.body):
        if isinstance(st, ast.Expr) and isinstance(st.value, ast.Call) and isinstance(st.value.func, ast.Attribute) and st.value.func.attr == "writelines" \
                and [ast.unparse(a_) for a_ in st.value.args] == ["template_gen"]:
            found = True      # file.writelines(chunks) writes every chunk as it is
            ctx.ob(R, gc.module.rel, f"{gc.short} :: without line processors each chunk is written unmodified", True, "", st.lineno)
        if isinstance(st, ast.For) and ast.unparse(st.iter) == "template_gen":
            found = True
            body_ok = len(st.body) == 1 and isinstance(st.body[0], ast.Expr) and isinstance(st.body[0].value, ast.Call) \
                and ast.unparse(st.body[0].value.args[0]) == ast.unparse(st.target) \
                and isinstance(st.body[0].value.func, ast.Attribute) and st.body[0].value.func.attr == "write"
            ctx.ob(R, gc.module.rel, f"{gc.short} :: without line processors each chunk is written unmodified", body_ok,
                   "" if body_ok else "pass-through loop alters chunks", st.lineno)
    if not found:
        # acceptable alternative: always use the line buffer (which with an empty list writes lines verbatim)
        lb = _calls(gc.node, "_generate_with_line_buffer")
        ctx.ob(R, gc.module.rel, f"{gc.short} :: pass-through path", bool(lb), "" if lb else "no output path at all", gc.node.lineno)


def _regex_width(pattern: str):
    p = sre_parse.parse(pattern)
    lo, hi = p.getwidth()
    return lo, int(hi)


def rule_straddle(ctx, px):
    R = "R-C15-STRADDLE"
    ctx.rule(
        R,
        "the splitter recognises exactly LF and CRLF as line terminators (regex language / the semantics of the str method used); "
        "a two-character terminator can straddle a chunk boundary, so the splitter must scan the carried text together with the "
        "chunk, or re-join a terminator whose first character ended the carried text",
    )
    _drv, g, cl, _consumer = splitter(px)
    model = driver_model(g, cl)
    recs = model["recognisers"]
    if not recs:
        raise AnalysisError("anchor missing: no terminator recogniser (regex search / splitlines / split) in _generate_with_line_buffer")
    chunk_var = model["chunk"]
    # (1) terminator language
    lang = set()
    for kind, pat, c, scanned in recs:
        if kind == "regex":
            L = _regex_language(pat)
            ok = L is not None and L == {"\n", "\r\n"}
            ctx.ob(R, g.module.rel, f"{g.short} :: terminator pattern {pat!r} matches exactly LF and CRLF", ok,
                   "" if ok else f"the pattern matches {sorted(L) if L is not None else 'an unbounded / unrecognised set'}: other text is treated as a line terminator, "
                   "or CRLF is not recognised as one terminator", c.lineno)
            lang |= (L or set())
        elif kind == "splitlines":
            ctx.ob(R, g.module.rel, f"{g.short} :: lines are cut with str.splitlines", False,
                   "str.splitlines also cuts at a lone CR, VT, FF, FS/GS/RS, NEL, U+2028 and U+2029: text before such a character is handed to the "
                   "processors as a line of its own (trailing whitespace and the separator itself are removed from the middle of a line)", c.lineno)
            lang |= {"\n", "\r\n"}
        else:
            lang.add(pat)
    ctx.unit("terminator_language", sorted(lang))
    width = max((len(x) for x in lang), default=1)
    if "\r\n" not in lang:
        # only LF is cut: CRLF must be re-assembled for every line (the CR would otherwise be trimmed as trailing whitespace)
        width = 2
    scans_chunk_only = model["scan"] == "chunk"
    first_chars = {x[0] for x in lang if len(x) > 1} or {"\r"}
    # names holding the carried text: <sio>.getvalue() values and str carriers
    carried = {cn for cn, k in model["carriers"].items() if k == "str"}
    for n in ast.walk(g.node):
        if isinstance(n, ast.Assign):
            tg, vals = n.targets[0], n.value
            pairs = list(zip(tg.elts, vals.elts)) if isinstance(tg, ast.Tuple) and isinstance(vals, ast.Tuple) and len(tg.elts) == len(vals.elts) else [(tg, vals)]
            for t_, v_ in pairs:
                if isinstance(t_, ast.Name) and ("getvalue()" in ast.unparse(v_) or any(f".join({cn})" in ast.unparse(v_) for cn, k_ in model["carriers"].items() if k_ == "list")):
                    carried.add(t_.id)
    repairs, weak = [], []
    for n in ast.walk(g.node):
        subj = None
        if isinstance(n, ast.Call) and isinstance(n.func, ast.Attribute) and n.func.attr == "endswith" and n.args \
                and isinstance(n.args[0], ast.Constant) and n.args[0].value in first_chars:
            subj = n.func.value
        if isinstance(n, ast.Compare) and isinstance(n.left, ast.Subscript) and ast.unparse(n.left.slice) in ("-1", "-1:") \
                and any(isinstance(c, ast.Constant) and c.value in first_chars for c in n.comparators):
            subj = n.left.value
        if subj is None:
            continue
        st = ast.unparse(subj)
        if st in carried or "getvalue()" in st:
            repairs.append(n)  # idiom 1: the end of the carried text itself is inspected when a terminator is found
        elif st == chunk_var:
            # idiom 2: a flag remembering that the previous chunk ended with the terminator's first character; sound only
            # if empty chunks do not reset it: the flag assignment must be conditioned on a non-empty chunk
            pm = pyfront.parent_map(g.node)
            stmt = pyfront.enclosing_stmt(n, pm)
            gd = pyfront.guards_of(g.node, n) or ()
            terms = pyfront.guard_terms(gd)
            nonempty = any((e in (chunk_var, f"len({chunk_var}) > 0", f"len({chunk_var})") and p) or (e in (f"not {chunk_var}", f"len({chunk_var}) == 0") and not p)
                           for e, p in terms)
            keeps = isinstance(stmt, ast.Assign) and isinstance(stmt.value, ast.BoolOp)
            (repairs if (nonempty or keeps) else weak).append(n)
    # idiom 1 through a private helper: the carried text is handed to a helper that inspects the end of that very parameter
    for c in ast.walk(g.node):
        if not isinstance(c, ast.Call):
            continue
        for h in px.resolve_call(g, c, by_name_fallback=False):
            if h.module is not g.module or not h.name.startswith("_") or h is g:
                continue
            hp = [a.arg for a in h.node.args.args]
            if hp and hp[0] in ("self", "cls") and isinstance(c.func, ast.Attribute):
                hp = hp[1:]
            for prm, arg in zip(hp, c.args):
                at = ast.unparse(pyfront.subst_locals(g.node, arg))
                if not ("getvalue()" in at or at in carried):
                    continue
                for n in ast.walk(h.node):
                    if isinstance(n, ast.Call) and isinstance(n.func, ast.Attribute) and n.func.attr == "endswith" and n.args and isinstance(n.args[0], ast.Constant) \
                            and n.args[0].value in first_chars and ast.unparse(n.func.value) == prm:
                        repairs.append(n)
                    if isinstance(n, ast.Compare) and isinstance(n.left, ast.Subscript) and ast.unparse(n.left.slice) in ("-1", "-1:") and ast.unparse(n.left.value) == prm \
                            and any(isinstance(k, ast.Constant) and k.value in first_chars for k in n.comparators):
                        repairs.append(n)
    ok = width <= 1 or (not scans_chunk_only) or bool(repairs)
    why = ("single-character terminators cannot straddle" if width <= 1 else
           "the carried text is scanned together with the chunk" if not scans_chunk_only else
           ("re-joins a split terminator" if repairs else
            ("a per-chunk flag remembers a trailing terminator prefix but is overwritten by every chunk, including empty ones: "
             "a terminator cut as [..\\r] [] [\\n..] is not re-joined" if weak else
             "a two-character terminator is possible but only the current chunk is searched: a terminator cut "
             "between two chunks is seen as a different terminator (CRLF becomes LF after whitespace trimming)")))
    ctx.ob(R, g.module.rel, f"{g.short} :: two-character terminator vs chunk boundaries", ok, why, cl.lineno)


def _split_ifexp(body):
    """`x = a if c else b` / `return a if c else b` as if/else statements, so that paths can be enumerated over them"""
    out = []
    for st in body:
        if isinstance(st, (ast.Assign, ast.Return)) and isinstance(st.value, ast.IfExp):
            ie = st.value
            mk = (lambda v: ast.Assign(targets=st.targets, value=v)) if isinstance(st, ast.Assign) else (lambda v: ast.Return(value=v))
            node = ast.If(test=ie.test, body=[ast.copy_location(mk(ie.body), st)], orelse=[ast.copy_location(mk(ie.orelse), st)])
            out.append(ast.fix_missing_locations(ast.copy_location(node, st)))
        elif isinstance(st, ast.If):
            node = ast.If(test=st.test, body=_split_ifexp(st.body), orelse=_split_ifexp(st.orelse))
            out.append(ast.copy_location(node, st))
        else:
            out.append(st)
    return out


def _tuple_aliases(fn, p):
    """names for the two components of the (line, terminator) argument: p[0] / p[1], `line, end = p`, `line = p[0]`"""
    line, term = {f"{p}[0]"}, {f"{p}[1]"}
    for n in ast.walk(fn):
        if isinstance(n, ast.Assign) and len(n.targets) == 1:
            t, v = n.targets[0], ast.unparse(n.value)
            if isinstance(t, ast.Tuple) and len(t.elts) == 2 and v == p and all(isinstance(e, ast.Name) for e in t.elts):
                line.add(t.elts[0].id)
                term.add(t.elts[1].id)
            elif isinstance(t, ast.Name) and v in line:
                line.add(t.id)
            elif isinstance(t, ast.Name) and v in term:
                term.add(t.id)
    return line, term


def _emptiness(e: str, pol: bool, line_alias):
    """'empty' / 'nonempty' / None: what a branch condition says about the line component"""
    e = e.replace(" ", "")
    for la in line_alias:
        la = la.replace(" ", "")
        if e in (f"len({la})==0", f"0==len({la})", f"not{la}", f"{la}==''", f"''=={la}", f"notlen({la})", f"len({la})<1", f"1>len({la})"):
            return "empty" if pol else "nonempty"
        if e in (la, f"len({la})", f"len({la})>0", f"0<len({la})", f"len({la})!=0", f"0!=len({la})", f"{la}!=''", f"''!={la}", f"len({la})>=1", f"1<=len({la})"):
            return "nonempty" if pol else "empty"
    return None


def rule_pp_contract(ctx, px):
    R = "R-C15-PP-CONTRACT"
    ctx.rule(
        R,
        "decided per execution path of the two built-in line processors: TrimTrailingWhitespace returns the input terminator on "
        "every path and as line either the input cut at the match of an end-anchored all-whitespace pattern / str.rstrip() without "
        "argument, or the unchanged argument only where no trailing whitespace exists; LimitEmptyLines zeroes its counter and returns "
        "the argument for every non-empty line, counts every empty line once and elides it exactly when the count exceeds N",
    )
    tc = px.cls(PP_MOD, "TrimTrailingWhitespace")
    t = tc.methods["__call__"]
    p = t.node.args.args[1].arg
    line_alias, term_alias = _tuple_aliases(t.node, p)
    # the cut pattern, wherever it is compiled (constructor, class body, module)
    pats = {}
    for n in list(ast.walk(tc.node)) + list(t.module.tree.body):
        if isinstance(n, ast.Assign) and isinstance(n.value, ast.Call) and ast.unparse(n.value.func) == "re.compile" and n.value.args \
                and isinstance(n.value.args[0], ast.Constant):
            pats[ast.unparse(n.targets[0])] = (n.value.args[0].value, n.lineno)
    match_vars = {}
    for n in ast.walk(t.node):
        if isinstance(n, ast.Assign) and isinstance(n.targets[0], ast.Name) and isinstance(n.value, ast.Call) \
                and isinstance(n.value.func, ast.Attribute) and n.value.func.attr == "search" and n.value.args \
                and ast.unparse(n.value.args[0]) in line_alias:
            match_vars[n.targets[0].id] = ast.unparse(n.value.func.value)

    def ws_pattern_ok(pat):
        parsed = sre_parse.parse(pat)
        anchored = len(parsed) >= 1 and str(parsed[-1][0]) == "AT" and "END" in str(parsed[-1][1])
        body = parsed[:-1] if anchored else parsed
        only_ws = len(body) >= 1 and all(str(op) in ("MAX_REPEAT", "MIN_REPEAT") and all(
            str(o2) == "IN" and all(str(x[0]) == "CATEGORY" and "SPACE" in str(x[1]) and "NOT" not in str(x[1]) for x in a2)
            for o2, a2 in av[2]) for op, av in body)
        return anchored and only_ws

    for mv, pv in match_vars.items():
        if pv not in pats:
            raise AnalysisError(f"anchor missing: pattern behind {pv} in TrimTrailingWhitespace")
        pat, ln = pats[pv]
        ok = ws_pattern_ok(pat)
        ctx.ob(R, t.module.rel, f"{t.short} :: cut pattern {pat!r} is end-anchored whitespace", ok,
               "" if ok else "pattern can remove non-whitespace or interior text, or leaves some trailing whitespace", ln)

    def rstrip_fixpoint(e, pol):
        """`line.rstrip() == line` / `len(line.rstrip()) == len(line)` (or the negation of !=, <, ...): nothing to trim"""
        try:
            n = ast.parse(e, mode="eval").body
        except SyntaxError:
            return False
        if not (isinstance(n, ast.Compare) and len(n.ops) == 1):
            return False
        a, b, op = n.left, n.comparators[0], n.ops[0]

        def unlen(x):
            return x.args[0] if isinstance(x, ast.Call) and isinstance(x.func, ast.Name) and x.func.id == "len" and len(x.args) == 1 else None
        la, lb = unlen(a), unlen(b)
        sized = la is not None and lb is not None
        if sized:
            a, b = la, lb
        elif la is not None or lb is not None:
            return False

        def is_rs(x):
            return isinstance(x, ast.Call) and isinstance(x.func, ast.Attribute) and x.func.attr == "rstrip" and not x.args and not x.keywords \
                and ast.unparse(x.func.value) in line_alias
        if is_rs(a) and ast.unparse(b) in line_alias:
            same_when = {ast.Eq: True, ast.NotEq: False, ast.Lt: False, ast.GtE: True} if sized else {ast.Eq: True, ast.NotEq: False}
        elif is_rs(b) and ast.unparse(a) in line_alias:
            same_when = {ast.Eq: True, ast.NotEq: False, ast.Gt: False, ast.LtE: True} if sized else {ast.Eq: True, ast.NotEq: False}
        else:
            return False
        return same_when.get(type(op)) == pol

    def implies_no_trailing_ws(terms):
        for e, pol in terms:
            if rstrip_fixpoint(e, pol):
                return True
            for mv in match_vars:
                if (e == f"{mv} is not None" and not pol) or (e == f"{mv} is None" and pol) or (e == mv and not pol):
                    return True
            if _emptiness(e, pol, line_alias) == "empty":
                return True
            for la in line_alias:
                if (e == f"{la}[-1].isspace()" and not pol) or (e == f"not {la}[-1].isspace()" and pol):
                    return True
        return False

    n_ret = 0
    for path in pyfront.enumerate_paths(_split_ifexp(t.node.body)):
        if path.outcome != "return":
            continue
        r = path.stmts[-1]
        n_ret += 1
        terms = pyfront.guard_terms(path.conds)
        terms += [x for x in pyfront.guard_terms([(pyfront.subst_locals(t.node, t_), p_) for t_, p_ in path.conds]) if x not in terms]
        v = r.value
        txt = ast.unparse(v) if v is not None else "None"
        label = f"{t.short} :: path to `return {txt[:50]}` under {[(e[:30], pl) for e, pl in terms]}"
        whole = txt == p or (isinstance(v, ast.Tuple) and len(v.elts) == 2 and ast.unparse(v.elts[0]) in line_alias and ast.unparse(v.elts[1]) in term_alias)
        if whole:
            ok_same = implies_no_trailing_ws(terms)
            for e, pol in terms:   # an `a or b` early-out: every disjunct must be an accepted reason
                try:
                    node = ast.parse(e, mode="eval").body
                except SyntaxError:
                    continue
                if pol and isinstance(node, ast.BoolOp) and isinstance(node.op, ast.Or):
                    ok_same = ok_same or all(implies_no_trailing_ws([(ast.unparse(d), True)]) for d in node.values)
            ctx.ob(R, t.module.rel, label + " returns the argument itself only when the line has no trailing whitespace", ok_same,
                   "no match of the end-anchored whitespace pattern / empty line" if ok_same else
                   "the line is returned untrimmed on a path that does not imply that it has no trailing whitespace in the "
                   "sense of the trim pattern (\\s is Unicode-aware)", r.lineno)
            continue
        ok = isinstance(v, ast.Tuple) and len(v.elts) == 2 and ast.unparse(v.elts[1]) in term_alias
        ctx.ob(R, t.module.rel, label + " keeps the terminator component", ok, "" if ok else f"returns {txt}", r.lineno)
        if isinstance(v, ast.Tuple) and len(v.elts) == 2:
            e0 = v.elts[0]
            if isinstance(e0, ast.Name) and e0.id not in line_alias:
                e0 = pyfront.subst_locals(t.node, e0)  # trimmed = line.rstrip(); return (trimmed, ...)
            pref = False
            if isinstance(e0, ast.Subscript) and ast.unparse(e0.value) in line_alias and isinstance(e0.slice, ast.Slice) \
                    and e0.slice.lower is None and e0.slice.step is None and e0.slice.upper is not None:
                up = ast.unparse(e0.slice.upper)
                # cut at the start of the whitespace match, on a path where the match exists
                pref = any(up == f"{mv}.start()" for mv in match_vars) and any(
                    (e == f"{mv} is not None" and pol) or (e == f"{mv} is None" and not pol) or (e == mv and pol) for e, pol in terms for mv in match_vars)
            if isinstance(e0, ast.Call) and isinstance(e0.func, ast.Attribute) and e0.func.attr == "rstrip" and not e0.args and not e0.keywords \
                    and ast.unparse(e0.func.value) in line_alias:
                pref = True    # str.rstrip() == removal of the longest all-whitespace (str.isspace) suffix == \s+$ for str patterns
            ctx.ob(R, t.module.rel, label + " line component is the input line without its trailing whitespace", pref,
                   "" if pref else f"line component is {ast.unparse(e0)}", r.lineno)
    if not n_ret:
        raise AnalysisError("anchor missing: returns of TrimTrailingWhitespace.__call__")

    # ---- LimitEmptyLines, path by path
    lc = px.cls(PP_MOD, "LimitEmptyLines")
    le = lc.methods["__call__"]
    p = le.node.args.args[1].arg
    line_alias, term_alias = _tuple_aliases(le.node, p)
    init = lc.methods["__init__"]
    nparam = init.node.args.args[1].arg
    asg = [n for n in ast.walk(init.node) if isinstance(n, ast.Assign) and ast.unparse(pyfront.subst_locals(init.node, n.value)) == nparam
           and ast.unparse(n.targets[0]).startswith("self.")]
    ok = len(asg) == 1
    ctx.ob(R, le.module.rel, "LimitEmptyLines.__init__ :: N stored unmodified", ok, "", init.node.lineno)
    nattr = ast.unparse(asg[0].targets[0]) if ok else "self._max_empty_lines"
    # the counter: the self attribute that is incremented
    cnt = None
    for n in ast.walk(le.node):
        if isinstance(n, ast.AugAssign) and isinstance(n.op, ast.Add) and ast.unparse(n.value) == "1" and ast.unparse(n.target).startswith("self."):
            cnt = ast.unparse(n.target)
        if isinstance(n, ast.Assign) and ast.unparse(n.targets[0]).startswith("self."):
            tg = ast.unparse(n.targets[0])
            for x in ast.walk(n.value):
                if isinstance(x, ast.BinOp) and isinstance(x.op, ast.Add) and {ast.unparse(x.left), ast.unparse(x.right)} == {tg, "1"}:
                    cnt = tg
    if cnt is None:
        raise AnalysisError("anchor missing: the empty-line counter of LimitEmptyLines.__call__")
    n_paths = 0
    for path in pyfront.enumerate_paths(_split_ifexp(le.node.body)):
        if path.outcome != "return":
            if path.outcome == "fall":
                ctx.ob(R, le.module.rel, f"{le.short} :: every path returns a tuple", False, "a path falls off the end (returns None)", le.node.lineno)
            continue
        n_paths += 1
        r = path.stmts[-1]
        # replay the path: counter operations and the comparisons of the counter with N, in order
        conds = list(path.conds)
        ci = 0
        incs = zeros = 0
        kind = None
        verdicts = []       # ('gt', True/False) for count > N decided after the increment
        for st in path.stmts:
            if isinstance(st, ast.If):
                test, pol = conds[ci]
                ci += 1
                for e, pl in pyfront.guard_terms([(pyfront.subst_locals(le.node, test), pol)]):
                    k = _emptiness(e, pl, line_alias)
                    if k is not None:
                        kind = k if kind in (None, k) else "contradiction"
                    e2 = e.replace(" ", "")
                    c_, n_ = cnt.replace(" ", ""), nattr.replace(" ", "")
                    if e2 in (f"{c_}>{n_}", f"{n_}<{c_}"):
                        verdicts.append(("gt", pl, incs, zeros))
                    elif e2 in (f"{c_}<={n_}", f"{n_}>={c_}"):
                        verdicts.append(("gt", not pl, incs, zeros))
                    elif e2 in (f"{c_}>={n_}", f"{n_}<={c_}"):
                        verdicts.append(("ge", pl, incs, zeros))
                    elif e2 in (f"{c_}<{n_}", f"{n_}>{c_}"):
                        verdicts.append(("ge", not pl, incs, zeros))
                    elif c_ in e2 and ("<" in e2 or ">" in e2 or "==" in e2):
                        verdicts.append(("other:" + e, pl, incs, zeros))
            elif isinstance(st, ast.AugAssign) and ast.unparse(st.target) == cnt:
                incs += 1
            elif isinstance(st, ast.Assign) and ast.unparse(st.targets[0]) == cnt:
                if ast.unparse(st.value) == "0":
                    zeros += 1
                    incs = 0
                else:
                    incs += 1
        rv = r.value
        # a constant of the class / module (`_ELIDED_LINE = ("", "")`) is the value it names
        if isinstance(rv, ast.Attribute) and isinstance(rv.value, ast.Name) and rv.value.id in ("self", "cls", lc.name, "type(self)"):
            cdefs = [n_.value for n_ in lc.node.body if isinstance(n_, ast.Assign) and any(isinstance(t_, ast.Name) and t_.id == rv.attr for t_ in n_.targets)]
            stores = [n_ for n_ in ast.walk(lc.node) if isinstance(n_, ast.Attribute) and n_.attr == rv.attr and isinstance(n_.ctx, ast.Store)]
            if len(cdefs) == 1 and not stores:
                rv = cdefs[0]
        elif isinstance(rv, ast.Name) and rv.id != p:
            mdefs = [n_.value for n_ in le.module.tree.body if isinstance(n_, ast.Assign) and any(isinstance(t_, ast.Name) and t_.id == rv.id for t_ in n_.targets)]
            if len(mdefs) == 1 and not any(isinstance(n_, ast.Name) and n_.id == rv.id and isinstance(n_.ctx, ast.Store) for n_ in ast.walk(le.node)):
                rv = mdefs[0]
        txt = ast.unparse(rv) if rv is not None else "None"
        is_arg = txt == p or (isinstance(rv, ast.Tuple) and len(rv.elts) == 2 and ast.unparse(rv.elts[0]) in line_alias
                              and ast.unparse(rv.elts[1]) in term_alias)
        is_elide = txt in ("('', '')", '("", "")')
        shown = [(ast.unparse(t_)[:40], pl) for t_, pl in path.conds]
        label = f"{le.short} :: path {shown} -> return {txt}"
        if kind == "contradiction":
            continue
        if not (is_arg or is_elide):
            ctx.ob(R, le.module.rel, label, False, f"returns {txt}: alters a line", r.lineno)
            continue
        if kind == "nonempty":
            # infeasible combination: a zeroed counter cannot exceed N >= 0
            if any(v[0] == "gt" and v[1] and v[3] >= 1 and v[2] == 0 for v in verdicts):
                continue
            ok = zeros >= 1 and incs == 0 and is_arg
            ctx.ob(R, le.module.rel, label, ok, "non-empty line: counter zeroed, line passed through" if ok else
                   "a non-empty line must zero the counter and be returned unchanged", r.lineno)
        elif kind == "empty":
            gt = [v for v in verdicts if v[0] == "gt"]
            ge = [v for v in verdicts if v[0] == "ge"]
            other = [v for v in verdicts if v[0] not in ("gt", "ge")]
            ok = incs == 1 and zeros == 0 and not other and not ge and len(gt) == 1 and gt[0][2] == 1 and (is_elide == gt[0][1])
            # the saturating form of the same automaton: the count is compared *before* it is raised - a run that already holds N empty
            # lines elides the next one and leaves the count alone, otherwise the line is counted and passed (count = min(run length, N))
            ok_sat = zeros == 0 and not other and not gt and len(ge) == 1 and ge[0][2] == 0 and \
                ((is_elide and ge[0][1] and incs == 0) or (is_arg and not ge[0][1] and incs == 1))
            ok = ok or ok_sat
            ctx.ob(R, le.module.rel, label, ok, "empty line: counted once, elided exactly when count > N" if ok else
                   f"an empty line must be counted once and then elided exactly when the count exceeds N (increments {incs}, zeroings {zeros}, "
                   f"comparisons {[(v[0], v[1]) for v in verdicts]}): otherwise more than N empty lines survive, fewer than N survive, or a "
                   "non-empty line can be removed", r.lineno)
        else:
            ctx.ob(R, le.module.rel, label, False, "the path does not distinguish empty from non-empty lines", r.lineno)
    if n_paths < 2:
        raise AnalysisError("anchor missing: return paths of LimitEmptyLines.__call__")


def rule_copy(ctx, px):
    R = "R-C15-COPY"
    ctx.rule(
        R,
        "_copy_header_using_line_pps strips a terminator from a line only under a test that the line ends with it "
        "(a final line without terminator loses no character) and applies every processor in order",
    )
    f = px.func(GEN_MOD, "SupportGenerator._copy_header_using_line_pps")
    n = 0
    # the splitting of a line into text and terminator may live in private methods the copy calls (a splitter that returns the pair, a
    # generator that yields it): the pair is judged where it is built
    unit_ = [f]
    for g_ in unit_:
        for c_ in ast.walk(g_.node):
            # called, or handed on as a function (`map(self._split, lines)`)
            if isinstance(c_, ast.Attribute) and isinstance(c_.value, ast.Name) and c_.value.id in ("self", "cls") \
                    and f.cls is not None and c_.attr in f.cls.methods and c_.attr.startswith("_") and f.cls.methods[c_.attr] not in unit_ and len(unit_) < 5:
                unit_.append(f.cls.methods[c_.attr])
    pairs = []
    for g_ in unit_:
        for st, gd in pyfront.walk_guarded(g_.node.body):
            v_ = st.value if isinstance(st, (ast.Assign, ast.Return)) else (st.value.value if isinstance(st, ast.Expr) and isinstance(st.value, ast.Yield) else None)
            if isinstance(v_, ast.Tuple) and len(v_.elts) == 2:
                pairs.append((st, gd, v_))
    for st, gd, v_ in pairs:
        e0, e1 = v_.elts
        if not (isinstance(e0, ast.Subscript) and isinstance(e0.slice, ast.Slice) and e0.slice.upper is not None):
            if isinstance(e1, ast.Constant) and e1.value == "":
                n += 1
                ctx.ob(R, f.module.rel, f"{f.short} :: unterminated line kept whole", ast.unparse(e0).isidentifier(), "", st.lineno)
            continue
        n += 1
        line_var = ast.unparse(e0.value)
        cut = ast.unparse(e0.slice.upper)  # e.g. -1, -2
        term = e1.value if isinstance(e1, ast.Constant) else None
        terms = pyfront.guard_terms(gd)
        guarded = False
        if term is not None:
            for e, pol in terms:
                if pol and e in (f"{line_var}.endswith({term!r})", f'{line_var}.endswith("{term}")'.encode("unicode_escape").decode()):
                    guarded = True
                if pol and term == "\r\n" and f"{line_var}[-2] == '\\r'" in e:
                    # idiom of the tree: len(line) > 1 and line[-2] == "\r" (text mode lines end in \n when terminated)
                    guarded = True
        ok = guarded and term is not None and cut == f"-{len(term)}"
        ctx.ob(R, f.module.rel, f"{f.short} :: strips {term!r} via [{ast.unparse(e0.slice)}]", ok,
               "" if ok else f"{len(term) if term else '?'} character(s) are cut without checking that the line ends with {term!r}: "
               "the last line of a file without final newline loses its last character", st.lineno)
    ctx.floor(R, n, 2)
    # the bytes of a support file travel untranslated: wherever the copy opens the resource or the target itself, it does so in binary
    # mode or with newline="" (text mode with universal newlines turns CRLF / CR into LF before any processor - and the code above
    # that keeps "\r\n" - sees it); a whole-file copy is a byte copy (shutil.copy*)
    k_open = 0
    sg = px.cls(GEN_MOD, "SupportGenerator")
    for g in [m_ for nm, m_ in sg.methods.items() if nm.startswith("_copy_header")] + \
            [h_ for h_ in px.all_funcs if h_.module is f.module and h_.cls is None and h_.outer is None and h_.name.startswith("_") and
             any(isinstance(c_, ast.Call) and isinstance(c_.func, ast.Name) and c_.func.id == h_.name for m_ in sg.methods.values() for c_ in ast.walk(m_.node))]:
        for c in ast.walk(g.node):
            if not isinstance(c, ast.Call):
                continue
            fn_txt = ast.unparse(c.func)
            if fn_txt in ("open", "io.open") or fn_txt.endswith(".open"):
                k_open += 1
                mode = c.args[1] if len(c.args) > 1 else next((k_.value for k_ in c.keywords if k_.arg == "mode"), None)
                mode_s = mode.value if isinstance(mode, ast.Constant) and isinstance(mode.value, str) else ("r" if mode is None else None)
                nl = next((k_.value for k_ in c.keywords if k_.arg == "newline"), None)
                ok_o = (mode_s is not None and "b" in mode_s) or (isinstance(nl, ast.Constant) and nl.value == "")
                ctx.ob(R, g.module.rel, f"{g.short} :: `{ast.unparse(c)[:70]}` does not translate line terminators", ok_o,
                       "" if ok_o else "text mode with universal newlines: every CRLF / CR of the support file becomes LF on the way (read) or is re-translated by the "
                       "platform (write) - the terminator is not kept, with or without a processor installed", c.lineno)
            elif fn_txt in ("shutil.copyfileobj",):
                pass        # judged by the open() calls that produced its operands
            elif fn_txt.endswith((".read_text", ".write_text")):
                k_open += 1
                nl = next((k_.value for k_ in c.keywords if k_.arg == "newline"), None)
                ok_o = isinstance(nl, ast.Constant) and nl.value == ""
                ctx.ob(R, g.module.rel, f"{g.short} :: `{ast.unparse(c)[:70]}` does not translate line terminators", ok_o,
                       "" if ok_o else "read_text / write_text translate line terminators", c.lineno)
    ctx.floor(R + ":opens", k_open, 2)
    params = {a.arg for a in f.node.args.args[1:]}
    loops = [x for x in ast.walk(f.node) if isinstance(x, ast.For) and isinstance(x.iter, ast.Name) and x.iter.id in params
             and isinstance(x.target, ast.Name)
             and any(isinstance(c, ast.Call) and isinstance(c.func, ast.Name) and c.func.id == x.target.id for c in ast.walk(x))
             and not any(isinstance(c, ast.Call) and isinstance(c.func, ast.Attribute) and c.func.attr == "reset" for c in ast.walk(x))]
    ok = len(loops) == 1 and not any(isinstance(x, (ast.Break, ast.Continue)) for x in ast.walk(loops[0]))
    ctx.ob(R, f.module.rel, f"{f.short} :: every processor applied in order", ok, "", f.node.lineno)


def _is_reset_loop(st, lname):
    return isinstance(st, ast.For) and isinstance(st.iter, ast.Name) and st.iter.id == lname and isinstance(st.target, ast.Name) and any(
        isinstance(c, ast.Call) and isinstance(c.func, ast.Attribute) and c.func.attr == "reset" and isinstance(c.func.value, ast.Name)
        and c.func.value.id == st.target.id and pyfront.guards_of(st, c) in (None, ()) for c in ast.walk(st))


def _loops_around(fnode, node, pm):
    out = []
    n = node
    while id(n) in pm and n is not fnode:
        n = pm[id(n)]
        if isinstance(n, (ast.For, ast.While)):
            out.append(id(n))
    return set(out)


def rule_reset(ctx, px):
    R = "R-C15-RESET"
    ctx.rule(
        R,
        "each file is processed from the processors' initial state (the reference is line-by-line processing of *that* text): on the way "
        "to every `with open(.., 'w')` whose body applies a list of line processors, a loop calling reset() on every element of that "
        "very list is executed once per file - it dominates the open in the same function, or in each caller that passes the list "
        "down, inside every loop that surrounds the call",
    )
    mod = px.module(GEN_MOD)
    funcs = [f for f in px.all_funcs if f.module is mod]

    def applies(with_st, f):
        """names of processor lists applied inside the with-body: iterated with the element called, or passed to the line driver"""
        out = set()
        params_and_locals = {n.id for n in ast.walk(f.node) if isinstance(n, ast.Name)} | {a.arg for a in f.node.args.args}
        for n in ast.walk(with_st):
            if isinstance(n, ast.For) and isinstance(n.iter, ast.Name) and isinstance(n.target, ast.Name) and any(
                    isinstance(c, ast.Call) and isinstance(c.func, ast.Name) and c.func.id == n.target.id for c in ast.walk(n)):
                out.add(n.iter.id)
            if isinstance(n, ast.Call) and isinstance(n.func, ast.Attribute) and n.func.attr in ("_generate_with_line_buffer", "_filter_and_write_line"):
                for a in n.args:
                    if isinstance(a, ast.Name) and a.id in params_and_locals and a is n.args[-1]:
                        out.add(a.id)
        return out

    def helper_resets(f, call):
        """`L = self._helper()` where the helper resets a list it returns"""
        for h in px.resolve_call(f, call, by_name_fallback=False):
            rets = [r.value for r in ast.walk(h.node) if isinstance(r, ast.Return) and r.value is not None]
            names = {n.id for r in rets for n in ast.walk(r) if isinstance(n, ast.Name)}
            if any(_is_reset_loop(st, nm) for st in ast.walk(h.node) for nm in names):
                return True
        return False

    def check(f, lname, site_stmt, depth, trail):
        pm = pyfront.parent_map(f.node)
        doms = pyfront.dominating_stmts(f.node, site_stmt) or []
        need = _loops_around(f.node, site_stmt, pm)
        for st in doms:
            hit = _is_reset_loop(st, lname)
            if not hit and isinstance(st, ast.Assign) and isinstance(st.value, ast.Call):
                tgts = [x.id for t_ in st.targets for x in ([t_] if isinstance(t_, ast.Name) else (t_.elts if isinstance(t_, ast.Tuple) else [])) if isinstance(x, ast.Name)]
                hit = lname in tgts and helper_resets(f, st.value)
            if hit and need <= _loops_around(f.node, st, pm):
                return True, f"reset loop at {f.short}:{st.lineno}"
            if hit:
                return False, (f"the processors are reset at {f.short}:{st.lineno}, outside the loop that produces one file per iteration: state "
                               f"(the empty-line count) is carried from the end of one file into the beginning of the next")
        params = [a.arg for a in f.node.args.args]
        if lname not in params or depth >= 4:
            return False, f"no reset() loop over `{lname}` before the file is written in {f.short}"
        idx = params.index(lname)
        sites = []
        for g in funcs:
            for c in px.calls_in(g, include_nested=False):
                if f in px.resolve_call(g, c, by_name_fallback=False):
                    sites.append((g, c))
        if not sites:
            return False, f"{f.short} receives `{lname}` without resetting it and no caller is found"
        why = []
        for g, c in sites:
            off = 1 if params and params[0] in ("self", "cls") and isinstance(c.func, ast.Attribute) else 0
            arg = c.args[idx - off] if 0 <= idx - off < len(c.args) else pyfront.call_keywords(g.node, c).get(lname)
            if not isinstance(arg, ast.Name):
                return False, f"{g.short}:{c.lineno} passes {ast.unparse(arg) if arg is not None else 'nothing'} as the processor list of {f.short}"
            gpm = pyfront.parent_map(g.node)
            ok, w = check(g, arg.id, pyfront.enclosing_stmt(c, gpm), depth + 1, trail + [f.short])
            if not ok:
                return False, w
            why.append(w)
        return True, "; ".join(sorted(set(why)))

    n = 0
    for f in funcs:
        for w_ in ast.walk(f.node):
            if not isinstance(w_, ast.With):
                continue
            opens_w = any(isinstance(it.context_expr, ast.Call) and ast.unparse(it.context_expr.func) in ("open", "io.open", "os.fdopen") and len(it.context_expr.args) >= 2
                          and isinstance(it.context_expr.args[1], ast.Constant) and "w" in str(it.context_expr.args[1].value) for it in w_.items)
            if not opens_w:
                continue
            for lname in sorted(applies(w_, f)):
                # the outermost `with open(.., 'w')`/`with open(.., 'r')` nest counts once: take the statement as found
                n += 1
                ok, why = check(f, lname, w_, 0, [])
                ctx.ob(R, f.module.rel, f"{f.short} :: processors `{lname}` start every file from their initial state", ok, why, w_.lineno)
    ctx.floor(R, n, 2)


def rule_limit_installed(ctx, px):
    """R-C15-PP-CONTRACT, installation clause: "never more than N consecutive empty lines" includes N = 0.  Wherever the package builds a
    LimitEmptyLines(<n>) from a configured number, the construction may depend on the number being *given* (is not None / key
    present), never on its truth value - `if n:` drops the limiter exactly for N = 0."""
    R = "R-C15-PP-CONTRACT"
    k = 0
    for f in px.all_funcs:
        if f.outer is not None or not f.module.name.startswith("nunavut") or f.module.name == "nunavut._postprocessors":
            continue
        for c in ast.walk(f.node):
            if not isinstance(c, ast.Call):
                continue
            n_arg = None
            if ast.unparse(c.func).split(".")[-1] == "LimitEmptyLines" and c.args:
                n_arg = c.args[0]
            else:
                # built through a generic helper that is handed the class and its constructor arguments: helper(..., LimitEmptyLines, n)
                for i_, a_ in enumerate(c.args[:-1]):
                    if isinstance(a_, (ast.Name, ast.Attribute)) and ast.unparse(a_).split(".")[-1] == "LimitEmptyLines" and not isinstance(c.args[i_ + 1], ast.Starred):
                        n_arg = c.args[i_ + 1]
            if n_arg is None or isinstance(n_arg, ast.Lambda):
                continue          # (a factory `lambda: LimitEmptyLines(n)`: the constructor call inside is a site of its own)
            k += 1
            # ... with the number that was given: `n or 1`, `max(n, 1)`, `n if n else d` turn a limit of 0 into another one
            nv = pyfront.subst_locals(f.node, n_arg)
            while isinstance(nv, ast.Call) and isinstance(nv.func, ast.Name) and nv.func.id == "int" and len(nv.args) == 1 and not nv.keywords:
                nv = nv.args[0]
            plain = isinstance(nv, (ast.Name, ast.Attribute, ast.Subscript)) or (isinstance(nv, ast.Call) and isinstance(nv.func, ast.Attribute)
                                                                                 and nv.func.attr in ("get_config_value", "get_option", "get", "get_config_value_as_int")) \
                or (isinstance(nv, ast.Call) and isinstance(nv.func, ast.Name) and nv.func.id == "getattr")
            # a parameter of a private helper: what the helper's callers pass for it
            fparams = [a_.arg for a_ in f.node.args.args]
            if plain and isinstance(nv, ast.Name) and nv.id in fparams and f.name.startswith("_"):
                pos = fparams.index(nv.id) - (1 if f.cls is not None and fparams and fparams[0] in ("self", "cls") else 0)
                for g2 in px.all_funcs:
                    for c2 in ast.walk(g2.node):
                        if isinstance(c2, ast.Call) and isinstance(c2.func, ast.Attribute) and c2.func.attr == f.name and 0 <= pos < len(c2.args):
                            av = pyfront.subst_locals(g2.node, c2.args[pos])
                            while isinstance(av, ast.Call) and isinstance(av.func, ast.Name) and av.func.id == "int" and len(av.args) == 1:
                                av = av.args[0]
                            if isinstance(av, (ast.BoolOp, ast.IfExp, ast.BinOp)) or (isinstance(av, ast.Call) and isinstance(av.func, ast.Name) and av.func.id in ("max", "min", "abs")):
                                plain, nv = False, av
            ctx.ob(R, f.module.rel, f"{f.short} :: LimitEmptyLines is given the configured number itself (`{ast.unparse(n_arg)[:40]}`)", plain,
                   "" if plain else f"`{ast.unparse(nv)[:60]}` is computed from the number: a limit of 0 (or another value) becomes a different limit", c.lineno)

            class _GA(ast.NodeTransformer):      # getattr(x, "name"[, None]) reads the same thing as x.name
                def visit_Call(self, node):
                    self.generic_visit(node)
                    if isinstance(node.func, ast.Name) and node.func.id == "getattr" and len(node.args) in (2, 3) and isinstance(node.args[1], ast.Constant) \
                            and isinstance(node.args[1].value, str):
                        return ast.Attribute(value=node.args[0], attr=node.args[1].value, ctx=ast.Load())
                    return node

            def canon(e_):
                import copy
                return ast.unparse(_GA().visit(copy.deepcopy(e_))).replace(" ", "")
            arg = canon(pyfront.subst_locals(f.node, n_arg))
            raw = canon(n_arg)
            gd = pyfront.guards_of(f.node, c) or ()
            bad = []
            for t_, pol in gd:
                for e, p_ in pyfront.guard_terms([(t_, pol)]):
                    e1 = canon(ast.parse(e, mode="eval").body) if e else ""
                    e2 = canon(pyfront.subst_locals(f.node, ast.parse(e, mode="eval").body)) if e else e1
                    if p_ and (e1 in (arg, raw, f"bool({arg})", f"bool({raw})", f"{raw}>0", f"{arg}>0", f"{raw}!=0", f"{arg}!=0") or e2 in (arg, f"bool({arg})", f"{arg}>0", f"{arg}!=0")):
                        bad.append(e)
                    if not p_ and e1 in (f"not{raw}", f"not{arg}", f"{raw}==0", f"{arg}==0"):
                        bad.append("not (" + e + ")")
            ctx.ob(R, f.module.rel, f"{f.short} :: LimitEmptyLines({ast.unparse(n_arg)[:40]}) is installed whenever a limit is given, 0 included", not bad,
                   "" if not bad else f"constructed only under the truth value of the number ({bad}): with a limit of 0 no limiter is installed, so empty lines are not "
                   "removed at all (or a language default of 1 takes over)", c.lineno)
    ctx.floor(R + ":installation", k, 2)      # the command line and the generator (which spells it once or per branch)


def run(ctx):
    ctx.explanation = (
        "C15 is decided on the shape of the line-buffer driver and of the two built-in line processors: all lines and "
        "the remainder reach the writer, processors are chained in order, the terminator pattern's maximum width "
        "(regex AST) is compared with what is searched, and the processors' return values are traced to their "
        "arguments.  Equivalence for all texts and chunk schedules is not enumerated."
    )
    ctx.declined = ["equivalence with line-by-line processing for all texts and all chunk schedules (value-level string equality)"]
    px = pyfront.PyIndex(ctx.root)
    rule_driver(ctx, px)
    from checks import _gen
    _gen.rule_handed_on(ctx, px, "R-C15-DRIVER")
    rule_straddle(ctx, px)
    rule_pp_contract(ctx, px)
    rule_limit_installed(ctx, px)
    rule_copy(ctx, px)
    rule_reset(ctx, px)
