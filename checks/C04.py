"""
C04 - generated C/C++ codecs are memory-safe, total and free of prior-state influence.
Static: write bound (capacity check dominates raw writes, unconditional in the emitted C), index bound (count bound ==
declared dimension), consistent field enumeration in the C++ union, replace-not-append, destroy-before-emplace.
"""
import re

from checks import _codec
from checks._codec import Codec, events, macro_placeholders, squash, strip_comments
from nvsa import j2front
from nvsa.j2front import xs
from nvsa.report import AnalysisError


def _callers_closure(orc, tname, mname, _seen=None):
    """all (template, macro) that can reach the given macro"""
    _seen = _seen if _seen is not None else set()
    for host, stack in orc.call_sites.get((tname, mname), []):
        m = j2front.enclosing_macro(stack)
        key = (host.name, m.name if m is not None else "<top>")
        if key not in _seen:
            _seen.add(key)
            if m is not None:
                _callers_closure(orc, host.name, m.name, _seen)
    return _seen


def rule_write_bound(ctx, cd):
    R = "R-C04-WRITE-BOUND"
    ctx.rule(
        R,
        "every raw write into the output buffer of the C serializer (`buffer[..] =`, memmove/memset(&buffer[..]), "
        "nunavutCopyBits(&buffer[0], ..), which carry no size argument) sits in a macro reachable only through "
        "_serialize_impl, where a comparison of the supplied capacity against bit_length_set.max returning "
        "BUFFER_TOO_SMALL precedes everything else on every path and is unconditional in the emitted C (not inside a "
        "preprocessor conditional the user can switch off). C++: the same check precedes all bitspan writes",
    )
    ts = cd.ts
    seen_uncond = set()
    for lang, errcode in (("c", "SERIALIZATION_BUFFER_TOO_SMALL"), ("cpp", "SerializationBufferTooSmall")):
        t = cd.tmpl(lang, "ser")
        n = 0
        for p in cd.paths(lang, "ser", "_serialize_impl"):
            n += 1
            raw = squash(re.sub(r"//[^\n]*", " ", p.text))
            text = cd.text(lang, p)
            mx = p.name_of("t.inner_type.bit_length_set.max")
            if lang == "c":
                m = re.search(rf"if \(\(8U \* \(Pz\d+z\) capacity_bytes\) < {mx}UL\) \{{ return -NUNAVUT_ERROR_{errcode}; \}}", text) if mx else None
            else:
                m = re.search(rf"if \(\(static_cast<Pz\d+z>\(capacity_bits\)\) < {mx}UL\) \{{ return -nunavut::support::Error::{errcode}; \}}", text) if mx else None
            ev = events(text, lang, macro_placeholders(p))
            first = [e for e in ev if e[1] in ("macro", "rawwrite", "call", "advance") and not (e[1] == "macro" and e[2] == "assert")]
            ok = m is not None and (not first or m.start() < first[0][0])
            opt = ("options.enable_override_variable_array_capacity", True) in p.conds
            kind = "union" if ("(t.inner_type is UnionType)", True) in p.conds else "struct"
            if n <= 8 or not ok:
                ctx.ob(R, t.rel, f"{lang}: _serialize_impl [{kind}{', override option' if opt else ''}]: capacity vs bit_length_set.max checked first", ok,
                       "" if ok else "fields are written before (or without) the buffer-too-small check")
            if m is not None:
                # preprocessor nesting at the check
                depth = 0
                opens = []
                for d in re.finditer(r"#\s*(ifndef|ifdef|if|endif)\b\s*(\S*)", raw[:raw.find("capacity_b")+400]):
                    pass
                pre = p.text[:p.text.find("capacity_bytes) <") if lang == "c" else p.text.find("capacity_bits)) <")]
                stack = []
                for d in re.finditer(r"^[ \t]*#[ \t]*(ifndef|ifdef|if|endif)\b([^\n]*)", pre, flags=re.M):
                    if d.group(1) == "endif":
                        if stack:
                            stack.pop()
                    else:
                        stack.append("#" + d.group(1) + re.sub(r"Pz\d+z", "<T>", d.group(2)).rstrip())
                ok2 = not stack
                if lang == "c" and (opt or not ok2) and ("uncond", lang, tuple(stack)) not in seen_uncond:
                    seen_uncond.add(("uncond", lang, tuple(stack)))
                    ctx.ob(R, t.rel, f"{lang}: capacity check is unconditional in the emitted code" + (f" [inside {' / '.join(stack)}]" if stack else ""), ok2,
                           "" if ok2 else f"the check is compiled only under {stack}: with the documented per-field capacity override the user disables it "
                           "and the size-less raw writes that follow are unguarded")
        ctx.floor(R + f":{lang}-impl-paths", n, 2)
    # raw writers reachable only via _serialize_impl
    orc = j2front.GuardOracle(ts, "c")
    t = cd.tmpl("c", "ser")
    writers = []
    for mname in sorted(ts.macros(t)):
        for p in cd.paths("c", "ser", mname):
            if any(e[1] == "rawwrite" for e in events(cd.text("c", p), "c", {})):
                writers.append(mname)
                break
    for mname in writers:
        if mname == "_serialize_impl":
            continue
        callers = _callers_closure(orc, t.name, mname)
        roots = {c for c in callers if not orc.call_sites.get(c) and c[1] != "<top>"}
        entry = {c for c in callers if c[1] in ("serialize",)}
        via_impl = (t.name, "_serialize_impl") in callers
        others = {c for c in callers if c[0] != t.name}
        ok = via_impl and all(c[1] in ("_define_functions", "generate_composite", "<top>", "serialize") or c[0] == t.name for c in callers)
        ctx.ob(R, t.rel, f"c: raw writer {mname} is reachable only through _serialize_impl", ok, f"callers: {sorted(c[1] for c in callers)}"[:160])
    ctx.floor(R + ":writers", len(writers), 5)
    # serialize() -> _serialize_impl only
    s = ts.macro(t, "serialize")
    calls = [c.node.name for c in s.find_all(cd.N.Call) if isinstance(c.node, cd.N.Name)]
    ctx.ob(R, t.rel, "c: serialize() emits fields only via _serialize_impl", "_serialize_impl" in calls and not [c for c in calls if c.startswith("_serialize_") and c != "_serialize_impl"], f"{calls}")


def rule_index_bound(ctx, cd):
    R = "R-C04-INDEX-BOUND"
    ctx.rule(
        R,
        "C: for every variable-length array the bound used to validate `count` (serializer and deserializer) is the same "
        "quantity as the declared dimension of elements[] / bitpacked[]: either both use the <T>_<f>_ARRAY_CAPACITY_ "
        "macro or that macro cannot be redefined by the user",
    )
    N = cd.N
    defs = cd.tmpl("c", "defs")
    # declared dimension
    fld = cd.ts.macro(defs, "_define_field")
    dims = [xs(c) for c in fld.find_all(N.Filter) if c.name == "format" and isinstance(c.node, N.Const) and "ARRAY_CAPACITY_" in str(c.node.value)]
    uses_macro_dim = bool(dims)
    ctx.ob(R, defs.rel, "c: elements[] is dimensioned by <T>_<f>_ARRAY_CAPACITY_", uses_macro_dim, f"{dims}"[:120], fld.lineno)
    # is the macro overridable?
    gen = cd.ts.macro(defs, "generate_composite")
    overridable_conds = []
    for node, stack in j2front.walk(gen):
        if isinstance(node, N.TemplateData) and re.search(r"#ifndef\s*$", node.data.rstrip(" ")) or (isinstance(node, N.TemplateData) and "#ifndef " in node.data):
            # is the following text the ARRAY_CAPACITY_ macro?
            f = j2front.facts(stack)
            overridable_conds.append(f)
    # validation bound
    for which, mname in (("ser", "_serialize_variable_length_array"), ("des", "_deserialize_variable_length_array")):
        t = cd.tmpl("c", which)
        p = cd.paths("c", which, mname)[0]
        text = cd.text("c", p)
        cap = p.name_of("t.capacity")
        m = re.search(r"\.count > (Pz\d+z|\w+)U? ?\)", text)
        literal = m is not None and m.group(1) == cap
        if not literal:
            ctx.ob(R, t.rel, f"c: {mname}: count validated against the declared dimension", m is not None and "ARRAY_CAPACITY_" in (p.xs_of(m.group(1)) or m.group(1)), "")
            continue
        for f in overridable_conds or [[]]:
            opt = [e for e, pol in f if pol and "enable_override_variable_array_capacity" in e]
            if opt:
                ctx.ob(R, t.rel, f"c: {mname}: count bound equals the declared dimension [options.enable_override_variable_array_capacity]", False,
                       "count is validated against the DSDL capacity (t.capacity) while elements[] is dimensioned by <T>_<f>_ARRAY_CAPACITY_, which the user "
                       "may reduce under this option: an in-specification length then overflows elements[] on decode (and reads past it on encode)")
        ctx.ob(R, t.rel, f"c: {mname}: count bound equals the declared dimension [default options]", True,
               "without the override option the macro is defined unconditionally as t.capacity")


def rule_count_rejected_everywhere(ctx, cd):
    R = "R-C04-INDEX-BOUND"
    n = 0
    for lang, which, mname in (("c", "ser", "_serialize_variable_length_array"), ("c", "des", "_deserialize_variable_length_array"),
                               ("cpp", "des", "_deserialize_variable_length_array"), ("cpp", "ser", "_serialize_variable_length_array")):
        if not cd.has_macro(lang, which, mname):
            continue
        t = cd.tmpl(lang, which)
        bad = []
        paths = cd.paths(lang, which, mname)
        for p in paths:
            text = cd.text(lang, p)
            cap = p.name_of("t.capacity")
            m = re.search(r"if \( ?[^;{}]*? > (Pz\d+z|\w+)U? ?\) ?\{ ?return -", text)
            ok = m is not None and (m.group(1) == cap or "ARRAY_CAPACITY_" in (p.xs_of(m.group(1)) or m.group(1)))
            if ok:
                first = [x.start() for x in re.finditer(r"\bfor ?\(|GetBits\(|CopyBits\(|memmove\(|\.reserve\(|push_back", text)]
                ok = not first or m.start() < min(first)
            if not ok:
                bad.append(" & ".join(("" if pol else "not ") + c for c, pol in p.conds)[-100:] or "always")
        n += 1
        ctx.ob(R, t.rel, f"{lang}: {mname}: every template path rejects a count above the capacity before touching the elements ({len(paths)} paths)", not bad,
               "" if not bad else f"no rejection on the path(s) [{bad[0]}]" + (f" and {len(bad) - 1} more" if len(bad) > 1 else "") +
               ": for the types that reach it an over-long length is accepted and elements[] is overrun")
    ctx.floor(R + ":every-path", n, 3)


def rule_union_index(ctx, cd):
    R = "R-C04-UNION-INDEX"
    ctx.rule(
        R,
        "inside the C++ union templates every {% for %} loop that relates a field to a tag number (IndexOf, copy/move "
        "constructors, assignment, alternative<>, destroy_current, accessors) iterates the same unfiltered sequence, so "
        "loop.index0 denotes the same field everywhere; the serializer/deserializer chains use IndexOf of the same fields",
    )
    N = cd.N
    n = 0
    for name in ("_fields_as_union.j2", "_fields_as_variant.j2"):
        t = cd.ts.get("cpp", name)
        # the template's own loops and those of helper macros it calls (a shared macro is judged once per call, in the caller's terms)
        loops = []
        for nodes, mapping in _codec.bodies_in_caller_terms(cd.ts, t):
            for top in nodes:
                for node in ([top] if isinstance(top, N.For) else []) + list(top.find_all(N.For)):
                    loops.append((node, mapping))
        for node, mapping in loops:
            uses_index = any(xs(e) in ("loop.index0", "loop.index") for e in node.find_all(N.Getattr))
            if not uses_index:
                continue
            n += 1
            # what is numbered?
            txt = squash("".join(d.data for d in node.find_all(N.TemplateData)))[:60]
            with j2front.xs_with(mapping or None):
                it = xs(node.iter)
            ok = it == "composite_type.fields_except_padding" and node.test is None
            ctx.ob(R, t.rel, f"loop numbering fields near `{txt[:40]}`", ok,
                   "iterates composite_type.fields_except_padding unfiltered" if ok else
                   f"`for ... in {it}" + (f" if {xs(node.test)}" if node.test is not None else "") +
                   "`: loop.index0 here does not denote the same field as in the other loops (wrong alternative destroyed / copied)", node.lineno)
    ctx.floor(R, n, 7)
    # tag producers in (de)serialization use IndexOf::<field id>
    for which in ("ser", "des"):
        t = cd.tmpl("cpp", which)
        impl = cd.ts.macro(t, "_serialize_impl" if which == "ser" else "_deserialize_impl")
        txt = "".join(d.data for d in impl.find_all(N.TemplateData))
        ok = "VariantType::IndexOf::" in txt
        ctx.ob(R, t.rel, f"cpp: {'serializer' if which == 'ser' else 'deserializer'} selects options through VariantType::IndexOf", ok, "", impl.lineno)


def _fn_body(text, sig_rx):
    m = re.search(sig_rx, text)
    if not m:
        return None
    i = text.find("{", m.end() - 1)
    d = 0
    for k in range(i, len(text)):
        if text[k] == "{":
            d += 1
        elif text[k] == "}":
            d -= 1
            if d == 0:
                return text[i + 1:k]
    return None


def rule_dtor_pair(ctx, cd):
    R = "R-C04-DTOR-PAIR"
    ctx.rule(
        R,
        "C++14 union emulation: every placement-new (do_emplace / do_copy) in a member that can be called on a live "
        "object (emplace, both operator=) is preceded by destroy_current(), and tag_ is assigned after construction; "
        "the destructor destroys the active member",
    )
    N = cd.N
    t = cd.ts.get("cpp", "_fields_as_union.j2")
    text = squash("".join(d.data if isinstance(d, N.TemplateData) else "Pz0z" for d in _flatten(N, t.ast)))
    for label, sig in (("emplace", r"type& emplace\(Args&&\.\.\. v\)"), ("copy assignment", r"operator=\(const VariantType& rhs\)"),
                       ("move assignment", r"operator=\(VariantType&& rhs\)")):
        body = _fn_body(text, sig)
        if body is None:
            raise AnalysisError(f"anchor missing: VariantType {label}")
        d = body.find("destroy_current();")
        c = min([x for x in (body.find("do_emplace<"), body.find("do_copy<")) if x >= 0] or [-1])
        tg = body.rfind("tag_ =")
        ok = 0 <= d < c
        ctx.ob(R, t.rel, f"{label}: destroy_current() precedes the placement-new", ok,
               "" if ok else "a live alternative is overwritten without being destroyed (leak / double construction)")
        ok = tg > c >= 0
        ctx.ob(R, t.rel, f"{label}: tag_ is assigned after construction", ok, "")
    body = _fn_body(text, r"~VariantType\(\)")
    ok = body is not None and "destroy_current();" in body
    ctx.ob(R, t.rel, "destructor calls destroy_current()", ok, "")
    body = _fn_body(text, r"void destroy_current\(\)")
    ok = body is not None and "->" in body and "tag_ ==" in body
    ctx.ob(R, t.rel, "destroy_current() runs the destructor of the alternative selected by tag_", ok, "")
    # the destructor call may be skipped only for alternatives that cannot own resources (primitive scalars)
    nd = 0
    for node, stack in j2front.walk(t.ast):
        if isinstance(node, N.Filter) and node.name == "destructor_name":
            nd += 1
            loopvars = [g.node.target.name for g in stack if g.kind == "for" and isinstance(getattr(g.node, "target", None), N.Name)]
            lv = loopvars[-1] if loopvars else "field"
            fs = [(e.strip("()"), p) for e, p in j2front.facts(stack) if "loop.first" not in e]
            extra = [(e, p) for e, p in fs if not (not p and e.replace(".data_type", "") in (f"{lv} is PrimitiveType",)) and
                     not (p and e.replace(".data_type", "") in (f"{lv} is not PrimitiveType",))]
            ok = not extra
            ctx.ob(R, t.rel, "destroy_current(): the destructor runs for every alternative that is not a primitive scalar", ok,
                   "" if ok else f"destructor call additionally skipped under {extra}: an alternative of such a kind can own heap storage "
                   "(e.g. an array of composites holding variable-length arrays) and is then leaked on re-assignment / re-decoding", node.lineno)
    if nd == 0:
        raise AnalysisError("anchor missing: destructor_name in _fields_as_union.j2")
    # constructors start from npos / 0 and construct exactly once
    for label, sig in (("copy constructor", r"VariantType\(const VariantType& rhs\)"), ("move constructor", r"VariantType\(VariantType&& rhs\)")):
        body = _fn_body(text, sig)
        ok = body is not None and body.rfind("tag_ = rhs.tag_;") > max(body.find("do_copy<"), body.find("do_emplace<")) >= 0
        ctx.ob(R, t.rel, f"{label}: constructs the source's alternative, then adopts its tag", ok, "")


def _flatten(N, node):
    for c in node.iter_child_nodes():
        if isinstance(c, N.TemplateData):
            yield c
        elif isinstance(c, N.Output):
            for e in c.nodes:
                yield e
        elif isinstance(c, (N.Assign, N.Import, N.FromImport)):
            continue
        else:
            yield from _flatten(N, c)


def rule_replace(ctx, cd):
    R = "R-C04-REPLACE"
    ctx.rule(
        R,
        "deserialization replaces what the destination held: in C++ _deserialize_variable_length_array the destination "
        "container is emptied (clear() / resize(0) / assignment) before the element loop appends to it, on every path; in "
        "C the count is assigned from the wire, never incremented",
    )
    t = cd.tmpl("cpp", "des")
    n = 0
    for p in cd.paths("cpp", "des", "_deserialize_variable_length_array"):
        n += 1
        text = cd.text("cpp", p)
        ref = p.name_of(cd.macro("cpp", "des", "_deserialize_variable_length_array").args[1].name)
        app = [m.start() for m in re.finditer(rf"{ref}\.(push_back|emplace_back|insert)\(", text)] if ref else []
        clr = [m.start() for m in re.finditer(rf"{ref}\.(clear\(\)|resize\(0U?\)|assign\()|{ref} = ", text)] if ref else []
        ok = (not app) or (bool(clr) and min(clr) < min(app))
        ctx.ob(R, t.rel, "cpp: destination array is emptied before elements are appended", ok,
               "" if ok else "elements are appended to whatever the destination already held: decoding into a reused object yields old + new elements")
        if app and clr:
            # ... on every run-time path: the emptying statement is not nested inside an emitted conditional that the appending
            # loop is outside of (an `if (size > 0)` around clear() keeps the old elements when the new array is empty)
            depth = lambda pos: text.count("{", 0, pos) - text.count("}", 0, pos)   # noqa: E731
            loops = [m.start() for m in re.finditer(r"\bfor ?\(", text) if m.start() < min(app)]
            anchor = max(loops) if loops else min(app)
            okd = depth(min(clr)) <= depth(anchor)
            ctx.ob(R, t.rel, "cpp: the destination is emptied unconditionally (not only when the new array is non-empty)", okd,
                   "" if okd else "the emptying statement sits inside an emitted conditional: decoding an empty array into a reused object keeps its old elements")
    ctx.floor(R, n, 1)
    tc = cd.tmpl("c", "des")
    for p in cd.paths("c", "des", "_deserialize_variable_length_array")[:4]:
        text = cd.text("c", p)
        bad = re.search(r"\.count ?(\+=|\+\+)|\+\+ ?Pz\d+z\.count", text)
        first = None
        for n2, e in p.ph:
            s = e if isinstance(e, str) else xs(e)
            if re.match(r"_deserialize_integer\(t\.length_field_type, \(reference (\+|~) '\.count'\)", s):
                first = n2
        ok = bad is None and first is not None
        ctx.ob(R, tc.rel, "c: count is assigned from the length prefix", ok, "" if ok else "count is accumulated")
        break


def rule_copy_size(ctx, cd):
    R = "R-C04-COPY-SIZE"
    ctx.rule(
        R,
        "every raw memmove / memcpy into the output buffer of the C serializer copies exactly the wire size of what it writes: "
        "ceil(bit_length / 8) bytes of the field's (or delimiter header's) own type, or the literal byte count of a float of that width "
        "- never sizeof of the holder variable, which is wider than the wire form for non-standard widths and for size_t-held prefixes "
        "(the up-front capacity check covers bit_length_set.max only)",
    )
    n = 0
    macros = [m for m in cd.ts.macros(cd.tmpl("c", "ser")) if m.startswith("_serialize")]
    for mname in macros:
        for p in cd.paths("c", "ser", mname):
            text = cd.text("c", p)
            ph = dict(p.ph)
            eqs = {int(x) for c, pol in p.conds if pol for x in re.findall(r"t\.bit_length == (\d+)", c)}
            neqs = {int(x) for c, pol in p.conds if not pol for x in re.findall(r"t\.bit_length == (\d+)", c)}
            notin = any("t.bit_length not in (32, 64" in c and pol for c, pol in p.conds)
            if len(eqs) > 1 or eqs & neqs or (notin and eqs & {32, 64}):
                continue      # independent {% if %} blocks combined into a width that cannot occur
            for m in re.finditer(r"mem(move|cpy) ?\(&buffer\[([^\]]*)\], ?&?([^,]+), ?([^;]*)\);", text):
                size = m.group(4).strip()
                where = m.group(2)
                key = f"{mname} [{' & '.join(('' if pol else 'not ') + c for c, pol in p.conds if 'bit_length' in c and 'saturated' not in c)[-60:]}] :: memmove(.., {re.sub(r'Pz\d+z', lambda x: '{' + str(ph.get(x.group(0), '?')) + '}', size)})"
                lit = re.fullmatch(r"(\d+)U", size)
                phm = re.fullmatch(r"(Pz\d+z)U", size)
                ok = False
                why = ""
                if lit:
                    # a literal byte count: the float branches - the path condition fixes the width
                    w = next((int(x) for c, pol in p.conds if pol for x in re.findall(r"t\.bit_length == (\d+)", c)), None)
                    ok = w is not None and int(lit.group(1)) * 8 == w
                    why = "" if ok else f"{size} bytes on a path for {w}-bit values"
                elif phm:
                    k = str(ph.get(phm.group(1), ""))
                    hdr = "delimiter_header_type" in where or "delimiter_header_type" in "".join(str(ph.get(x, "")) for x in re.findall(r"Pz\d+z", where))
                    want = "(t.delimiter_header_type.bit_length | bits2bytes_ceil)" if hdr else "(t.bit_length | bits2bytes_ceil)"
                    ok = k == want
                    why = "" if ok else f"size is {k}, the written item's wire size is {want}"
                else:
                    why = f"size expression `{size}` (sizeof / arithmetic) is not the wire size: bytes beyond the field - and beyond the checked capacity at the end of the message - are overwritten"
                n += 1
                ctx.ob(R, cd.tmpl("c", "ser").rel, key, ok, why, None)
    ctx.floor(R, n, 4)


def run(ctx):
    ctx.explanation = (
        "C04 is decided for structural necessary conditions of memory safety and independence from prior state: the "
        "buffer-too-small check dominates all size-less raw writes of the C serializer and must be unconditional in the "
        "emitted C; the bound that validates an array count must be the declared dimension; all loops of the C++ union "
        "templates that number fields iterate the same unfiltered sequence; C++ array deserialization empties the "
        "destination before appending; the C++14 union destroys before it constructs.  Absence of undefined behaviour "
        "or leaks at run time (sanitizer-level guarantees) is not established."
    )
    ctx.declined = ["absence of undefined behaviour in arithmetic, leaks in arbitrary histories, sanitizer-level guarantees (need execution)",
                    "self-assignment of the C++14 VariantType (a = a destroys the source before copying)"]
    ts = j2front.TemplateSet(ctx.root)
    cd = Codec(ts)
    rule_write_bound(ctx, cd)
    rule_copy_size(ctx, cd)
    rule_index_bound(ctx, cd)
    rule_count_rejected_everywhere(ctx, cd)
    rule_union_index(ctx, cd)
    rule_replace(ctx, cd)
    rule_dtor_pair(ctx, cd)
    from checks import C02
    C02.rule_nested_bound(ctx, cd, "R-C04-NESTED-BOUND")
