"""shared view of the per-file entry points of the generator: a step that was moved into a private helper method which does the
rendering (opens the file, drives the line buffer) is judged where it is called"""
import ast
import copy

from nvsa import pyfront

RENDER = ("_generate_with_line_buffer", "_filter_and_write_line")


def render_view(f):
    """copy of Func f whose statement-level calls of private methods that (directly) drive the renderer are written out in place"""
    if f.cls is None:
        return f
    inl = {}
    for name, m in f.cls.methods.items():
        if name in RENDER or m is f:
            continue
        if any(isinstance(c, ast.Call) and isinstance(c.func, ast.Attribute) and c.func.attr in RENDER for c in ast.walk(m.node)):
            inl[name] = m.node
    if not inl:
        return f
    f2 = copy.copy(f)
    f2.node = pyfront.inline_procedures(f.node, {}, methods=inl)
    return f2
