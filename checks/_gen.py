"""shared view of the per-file entry points of the generator: a step that was moved into a private helper method which does the
rendering (opens the file, drives the line buffer) is judged where it is called"""
import ast
import copy

from nvsa import pyfront

RENDER = ("_generate_with_line_buffer", "_filter_and_write_line")


def render_view(f):
    """copy of Func f whose statement-level calls of private methods that (directly) drive the renderer are written out in place"""
    if f.cls is None:
        return f
    inl = {}
    for name, m in f.cls.methods.items():
        if name in RENDER or m is f:
            continue
        if any(isinstance(c, ast.Call) and isinstance(c.func, ast.Attribute) and c.func.attr in RENDER for c in ast.walk(m.node)):
            inl[name] = m.node
    if not inl:
        return f
    f2 = copy.copy(f)
    f2.node = pyfront.inline_procedures(f.node, {}, methods=inl)
    return f2


def rule_handed_on(ctx, px, R):
    """the generator applies the processors it was given: CodeGenerator._handle_post_processors adds what the language asks for to the
    caller's list and selects nothing out of it"""
    # the generator hands on every post-processor it was given, in order: the defaults a language asks for are added to the caller's
    # list, nothing is selected out of it (the command line's list ends with SetFileMode(<requested mode>) - a selection "by type"
    # keeps an earlier, different SetFileMode and drops that one)
    hp = px.func("nunavut.jinja", "CodeGenerator._handle_post_processors")

    def callee_of(fn, c):
        if isinstance(c.func, ast.Attribute) and isinstance(c.func.value, ast.Name) and c.func.value.id in ("self", "cls") and fn.cls is not None:
            nm = c.func.attr
            for k, m_ in fn.cls.methods.items():
                if k == nm or (nm.startswith("__") and k.endswith(nm)) or k == nm.lstrip("_") or nm.endswith(k):
                    return m_
        if isinstance(c.func, ast.Name) and c.func.id in fn.module.funcs:
            return fn.module.funcs[c.func.id]
        return None

    def none_given(fn, expr, param):
        """the expression is evaluated only where no list was given at all (`param is None`)"""
        gd = pyfront.guard_terms(pyfront.guards_of(fn.node, expr) or ())
        return any((t == f"{param} is None" and p_) or (t == f"{param} is not None" and not p_) or (t == param and not p_) for t, p_ in gd)

    def preserves(fn, e, param, depth=0, seen=()):
        """does the expression denote a list that holds every element of `param`, in order? -> (ok, why)"""
        if depth > 5:
            return False, "too deep"
        if isinstance(e, ast.Name):
            if e.id == param:
                # every (re)binding of the name keeps the elements
                for n in ast.walk(fn.node):
                    if isinstance(n, ast.Assign) and len(n.targets) == 1 and isinstance(n.targets[0], ast.Name) and n.targets[0].id == param and id(n) not in seen:
                        gd = pyfront.guard_terms(pyfront.guards_of(fn.node, n) or ())
                        fresh_when_none = isinstance(n.value, (ast.List, ast.ListComp)) and any((t == f"{param} is None" and p_) or (t == f"{param} is not None" and not p_) or (t == param and not p_) for t, p_ in gd)
                        if fresh_when_none:
                            continue
                        ok_, why_ = preserves(fn, n.value, param, depth + 1, seen + (id(n),))
                        if not ok_:
                            return False, why_
                return True, ""
            v = pyfront.subst_locals(fn.node, e)
            if isinstance(v, ast.Name):
                return False, f"`{e.id}` does not come from `{param}`"
            return preserves(fn, v, param, depth + 1, seen)
        if isinstance(e, ast.BinOp) and isinstance(e.op, ast.Add):
            a_, b_ = preserves(fn, e.left, param, depth + 1, seen), preserves(fn, e.right, param, depth + 1, seen)
            return (True, "") if a_[0] or b_[0] else a_
        if isinstance(e, ast.BoolOp) and isinstance(e.op, ast.Or):
            return preserves(fn, e.values[0], param, depth + 1, seen)
        if isinstance(e, ast.IfExp):
            a_, b_ = preserves(fn, e.body, param, depth + 1, seen), preserves(fn, e.orelse, param, depth + 1, seen)
            none_test = ast.unparse(e.test).replace(" ", "") in (f"{param}isNone", f"not{param}", f"{param}isnotNone", param)
            return (True, "") if (a_[0] and b_[0]) or (none_test and (a_[0] or b_[0])) else (a_ if not a_[0] else b_)
        if isinstance(e, ast.Call) and isinstance(e.func, ast.Name) and e.func.id in ("list", "tuple") and len(e.args) == 1:
            return preserves(fn, e.args[0], param, depth + 1, seen)
        if isinstance(e, ast.Call):
            h = callee_of(fn, e)
            if h is not None:
                hps = [a.arg for a in h.node.args.args]
                if hps and hps[0] in ("self", "cls") and not any(d == "staticmethod" for d in h.decorators):
                    hps = hps[1:]
                for i_, a_ in enumerate(e.args):
                    if i_ < len(hps) and preserves(fn, a_, param, depth + 1, seen)[0]:
                        rets_ = [r.value for r in ast.walk(h.node) if isinstance(r, ast.Return) and r.value is not None]
                        if not rets_:
                            return False, f"{h.short} returns nothing"
                        for rv in rets_:
                            if none_given(h, rv, hps[i_]):
                                continue
                            ok_, why_ = preserves(h, rv, hps[i_], depth + 1, ())
                            if not ok_:
                                return False, f"{h.short} returns `{ast.unparse(rv)[:60]}`" + (f" ({why_})" if why_ else "")
                        return True, ""
            return False, f"`{ast.unparse(e)[:70]}` is not the given list, a copy of it, or that list with more appended"
        if isinstance(e, (ast.List, ast.Tuple)):
            # a partition: the members that satisfy a test and the members that do not, each in the given order (`[Chain(lines), *others]`)
            full = pyfront.subst_locals(fn.node, e)
            conds_ = set()
            for c_ in ast.walk(full):
                if isinstance(c_, (ast.ListComp, ast.GeneratorExp)) and len(c_.generators) == 1 and isinstance(c_.generators[0].target, ast.Name) \
                        and isinstance(c_.elt, ast.Name) and c_.elt.id == c_.generators[0].target.id and len(c_.generators[0].ifs) == 1 \
                        and preserves(fn, c_.generators[0].iter, param, depth + 1, seen)[0]:
                    v_ = c_.generators[0].target.id
                    conds_.add(ast.unparse(c_.generators[0].ifs[0]).replace(v_, "\x00"))
            if any((f"not {c_}" in conds_) for c_ in conds_):
                return True, ""
        if isinstance(e, ast.Constant) and e.value is None:
            return True, ""       # no list at all where none was given and nothing is added
        return False, f"`{ast.unparse(e)[:70]}` is not the given list, a copy of it, or that list with more appended"

    hparam = [a.arg for a in hp.node.args.args][-1]
    k_ret = 0
    for r in [r for r in ast.walk(hp.node) if isinstance(r, ast.Return) and r.value is not None]:
        k_ret += 1
        if none_given(hp, r.value, hparam):
            continue
        ok, why = preserves(hp, r.value, hparam)
        ctx.ob(R, hp.module.rel, f"{hp.short} :: hands on every post-processor it was given, in order (`return {ast.unparse(r.value)[:50]}`)", ok,
               "" if ok else why + ": a processor the caller listed can be dropped, so the file is not what applying each listed processor in order gives "
               "(of two processors of one type only one runs; the command line's closing SetFileMode(<requested mode>) can be the one that goes)", r.lineno)
    ctx.floor(R + ":handed-on", k_ret, 1)

