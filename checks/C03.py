"""
C03 - round trip, cross-target and cross-option agreement of generated codecs.
Static (necessary conditions of agreement): writer/reader symmetry of cursor advances per kind and special case,
cross-language agreement of the dispatch tables and of the model attributes that size prefixes/headers/tags,
option scope (LITTLE_ENDIAN only selects between equivalent paths).
"""
import re

from checks import _codec
from checks._codec import Codec, events, macro_placeholders, unplaceholder
from nvsa import j2front, pyfront
from nvsa.j2front import xs
from nvsa.report import AnalysisError

NONSTRUCTURAL = ("is_aligned_at_byte", "LITTLE_ENDIAN", "saturated", "standard_bit_length", "UnsignedIntegerType", "SignedIntegerType",
                 "t.bit_length", "fixed_length", "options.", "FloatType")


def _structural(conds):
    return frozenset((c, pol) for c, pol in conds if not any(k in c for k in NONSTRUCTURAL))


def _atoms(N, node, out):
    if isinstance(node, (N.And, N.Or)):
        _atoms(N, node.left, out)
        _atoms(N, node.right, out)
    elif isinstance(node, N.Not):
        _atoms(N, node.node, out)
    else:
        out.append(node)


def _num_atom(N, node):
    """(expression string, op, int) for `E op <int>` comparisons"""
    if isinstance(node, N.Compare) and len(node.ops) == 1 and isinstance(node.ops[0].expr, N.Const) and isinstance(node.ops[0].expr.value, int) \
            and not isinstance(node.ops[0].expr.value, bool):
        return xs(node.expr), node.ops[0].op, node.ops[0].expr.value
    return None


def _eval(N, node, val):
    if isinstance(node, N.And):
        return _eval(N, node.left, val) and _eval(N, node.right, val)
    if isinstance(node, N.Or):
        return _eval(N, node.left, val) or _eval(N, node.right, val)
    if isinstance(node, N.Not):
        return not _eval(N, node.node, val)
    return val[xs(node)]


def _compatible(N, p, q) -> bool:
    """can the branch conditions of path p (one side) and path q (the other side) hold together?"""
    import itertools
    forms = []
    keyed = {}
    for side, path in (("a", p), ("b", q)):
        for node, pol in path.cnodes:
            leaves = []
            _atoms(N, node, leaves)
            for lf in leaves:
                k = xs(lf)
                free = any(x in k for x in NONSTRUCTURAL)
                keyed.setdefault(k, {"node": lf, "free": free})
            forms.append((node, pol))
    keys = sorted(keyed)
    shared = [k for k in keys if not keyed[k]["free"]]
    if len(shared) > 14:
        return True   # too many atoms to enumerate: assume compatible (asks for agreement on more pairs, never fewer)
    nums = {}
    for k in shared:
        na = _num_atom(N, keyed[k]["node"])
        if na is not None:
            nums.setdefault(na[0], []).append((k, na[1], na[2]))
    OPS = {"eq": lambda v, c: v == c, "ne": lambda v, c: v != c, "gt": lambda v, c: v > c, "gteq": lambda v, c: v >= c,
           "lt": lambda v, c: v < c, "lteq": lambda v, c: v <= c}
    # free atoms (alignment, endianness, ...) are unconstrained across the sides: a condition that mentions one never
    # makes a pair incompatible, so each formula is tested with every valuation of its free atoms as well
    free_keys = [k for k in keys if keyed[k]["free"]]
    if len(free_keys) > 8:
        free_keys = free_keys[:8]
    for bits in itertools.product((False, True), repeat=len(shared)):
        val = dict(zip(shared, bits))
        consistent = True
        for e, atoms in nums.items():
            cands = set()
            for _k, _op, c in atoms:
                cands |= {c - 1, c, c + 1}
            if not any(all(OPS.get(op, lambda v, c: True)(v, c) == val[k] for k, op, c in atoms) for v in cands):
                consistent = False
                break
        if not consistent:
            continue
        for fbits in itertools.product((False, True), repeat=len(free_keys)):
            v2 = dict(val)
            v2.update(zip(free_keys, fbits))
            for k in keys:
                v2.setdefault(k, True)
            if all(_eval(N, node, v2) == pol for node, pol in forms):
                return True
    return False


def _equalities(N, p):
    """{expression string: int} for every `E == n` the path's conditions force"""
    out = set()
    for node, pol in p.cnodes:
        for lf, lp in j2front.conj_terms(node, pol):
            na = _num_atom(N, lf)
            if na is not None and ((na[1] == "eq" and lp) or (na[1] == "ne" and not lp)):
                out.add((na[0], na[2]))
    return out


def _subst_eq(expr: str, eqs) -> str:
    for e, v in eqs:
        expr = expr.replace("{" + e + "}", str(v))
    return expr


def _adv_sig(cd, lang, p):
    text = cd.text(lang, p)
    return tuple(unplaceholder(p, e[2]) for e in events(text, lang, macro_placeholders(p)) if e[1] == "advance")


def rule_symmetry(ctx, cd):
    R = "R-C03-SYMMETRY"
    ctx.rule(
        R,
        "for each language and kind the serializer and deserializer macros take the same special-case branches under "
        "the same (structural) Jinja conditions and advance the cursor by the same expressions (integer-literal suffixes "
        "normalised); composites account for exactly one delimiter header and one nested size on both sides; Python's "
        "add_* / fetch_* method families correspond",
    )
    n = 0
    for lang in ("c", "cpp"):
        for kind in ("void", "boolean", "integer", "float", "fixed_length_array", "variable_length_array"):
            s_paths = cd.paths(lang, "ser", f"_serialize_{kind}")
            d_paths = cd.paths(lang, "des", f"_deserialize_{kind}")
            # The two sides are compared case by case *semantically*: a serializer path and a deserializer path are about the
            # same case when their branch conditions can hold together (propositional satisfiability over the atomic tests,
            # with `X == n` / `X > n` read as integer constraints; alignment / endianness / signedness tests are free on
            # each side).  How the template groups its branches (one elif per case, merged elif with inner if, inverted
            # if/else) does not matter.
            sig = {}
            for side, paths in (("ser", s_paths), ("des", d_paths)):
                for p in paths:
                    sig[id(p)] = _adv_sig(cd, lang, p)
            for side, paths, others in (("ser", s_paths, d_paths), ("des", d_paths, s_paths)):
                seen_labels = set()
                for p in paths:
                    label = " & ".join(("" if pol else "not ") + c for c, pol in sorted(_structural(p.conds)))[-90:] or "always"
                    if (label, sig[id(p)]) in seen_labels:
                        continue
                    seen_labels.add((label, sig[id(p)]))
                    n += 1
                    compat = [q for q in others if _compatible(cd.N, p, q)]
                    other = "deserializer" if side == "ser" else "serializer"
                    if not compat:
                        ctx.ob(R, cd.tmpl(lang, side).rel, f"{lang}: {kind} {side} [{label}]: the {other} has a path for this case", False,
                               f"no {other} path can be taken under these conditions: the two sides lay the field out differently")
                        continue
                    bad = []
                    for q in compat:
                        eqs = _equalities(cd.N, p) | _equalities(cd.N, q)
                        a = tuple(_subst_eq(x, eqs) for x in sig[id(p)])
                        b = tuple(_subst_eq(x, eqs) for x in sig[id(q)])
                        if a != b:
                            bad.append((a, b))
                    ok = not bad
                    ctx.ob(R, cd.tmpl(lang, "des").rel, f"{lang}: {kind} {side} [{label}]: same cursor advance as every compatible {other} path", ok,
                           f"advance {list(sig[id(p)])}" if ok else f"this side advances {list(bad[0][0])} but the {other} advances {list(bad[0][1])} in the same case")
        # composite
        for which, mname in (("ser", "_serialize_composite"), ("des", "_deserialize_composite")):
            for p in cd.paths(lang, which, mname):
                n += 1
                text = cd.text(lang, p)
                mph = macro_placeholders(p)
                deli = ("(t is DelimitedType)", True) in p.conds
                adv = _adv_sig(cd, lang, p)
                hdr = sum(1 for a in adv if a == "{t.delimiter_header_type.bit_length}")
                for nme, e in p.ph:
                    s = e if isinstance(e, str) else xs(e)
                    if re.search(r"_(de)?serialize_integer\(t\.delimiter_header_type", s) and nme in text:
                        hdr += 1
                nested = sum(1 for a in adv if a.endswith("* 8"))
                if lang == "cpp" and which == "ser" and deli:
                    # C++ reserves the header inside subspan(header_bits, ..) and writes it afterwards through _serialize_integer (which advances)
                    pass
                label = ("delimited" if deli else "sealed") + (", variable size" if ("is_variable_size", True) in p.conds else "")
                ok = hdr == (1 if deli else 0) and nested == 1
                ctx.ob(R, cd.tmpl(lang, which).rel, f"{lang}: {mname} [{label}]: one header ({1 if deli else 0}) and one nested size accounted for", ok,
                       "" if ok else f"header contributions={hdr}, nested advances={nested} ({adv})")
    ctx.floor(R, n, 30)
    # python families
    fam = {}
    for which, obj, pre in (("ser", "_ser_", "add_"), ("des", "_des_", "fetch_")):
        t = cd.tmpl("py", which)
        for mname in sorted(cd.ts.macros(t)):
            kind = mname.replace("_serialize_", "").replace("_deserialize_", "")
            if _codec.judged_at_call_sites(cd.ts, t, mname):
                continue        # a helper: its accessors are counted in the emitters that print it
            for p in cd.paths("py", which, mname):
                text = cd.text("py", p)
                for m in re.finditer(rf"{obj}\.{pre}((?:Pz\d+z|\w)+?)\(", text):
                    name = re.sub(r"Pz\d+z", lambda mm: "{" + (p.xs_of(mm.group(0)) or "?") + "}", m.group(1))
                    fam.setdefault(kind, {}).setdefault(which, set()).add(name)
            # `{% set fun %}_ser_.add_..{% endset %}` blocks
            mm = cd.ts.macro(t, mname)
            for b in mm.find_all(cd.N.AssignBlock):
                txt = "".join(d.data if isinstance(d, cd.N.TemplateData) else "{" + xs(d) + "}" for o in b.body if isinstance(o, cd.N.Output) for d in o.nodes)
                m = re.search(rf"{obj}\.{pre}(.+)$", txt.strip())
                if m:
                    fam.setdefault(kind, {}).setdefault(which, set()).add(m.group(1).strip())
    def norm(sset):
        out = set()
        for x in sset:
            x = re.sub(r"\{[^}]*alignment_prefix[^}]*\}", "{prefix}", x)
            x = re.sub(r"\{\('i' if \(t is SignedIntegerType\) else 'u'\)\}", "{iu}", x)
            out.add(x.strip())
        return out

    buckets = {}
    for kind, sides in fam.items():
        b = kind if kind in ("integer", "fixed_length_array", "variable_length_array") else "inline (any/float/composite/top)"
        buckets.setdefault(b, {"ser": set(), "des": set()})
        buckets[b]["ser"] |= norm(sides.get("ser", set()))
        buckets[b]["des"] |= norm(sides.get("des", set()))
    for b, sides in sorted(buckets.items()):
        a, d = sides["ser"], sides["des"]
        if b.startswith("variable"):
            # the length prefix is emitted through the integer macro on both sides
            pass
        ok = a == d
        ctx.ob(R, cd.tmpl("py", "des").rel, f"py: {b}: add_* and fetch_* families correspond", ok,
               f"{sorted(a)}" if ok else f"only serializer: {sorted(a - d)}; only deserializer: {sorted(d - a)}")


def rule_option_scope(ctx, cd):
    R = "R-C03-OPTION-SCOPE"
    ctx.rule(
        R,
        "the endianness option influences type templates only by selecting between an aligned fast path and the generic "
        "support call: template paths that differ only in LITTLE_ENDIAN have the same cursor advances and the same "
        "representation-error exits; the option never guards a capacity or representation check; the expression handed to the "
        "assert() macro (emitted only when assertion generation is on) has no effect of its own; the allocator-extended copy / move "
        "constructors of C++ union types take their value from rhs like those of structures (allocator flavour)",
    )
    n = 0
    for lang in ("c", "cpp"):
        for which in ("ser", "des"):
            t = cd.tmpl(lang, which)
            for mname in sorted(cd.ts.macros(t)):
                groups = {}
                for p in cd.paths(lang, which, mname):
                    idx = next((i for i, (c, _) in enumerate(p.conds) if "LITTLE_ENDIAN" in c), None)
                    # everything decided before the endianness split identifies the group; conditions nested inside an arm do not
                    key = frozenset(p.conds[:idx]) if idx is not None else frozenset(p.conds)
                    text = cd.text(lang, p)
                    ev = events(text, lang, macro_placeholders(p))
                    sig = (tuple(unplaceholder(p, e[2]) for e in ev if e[1] == "advance"), tuple(e[2] for e in ev if e[1] == "ret_err"))
                    has_le = any("LITTLE_ENDIAN" in c for c, _ in p.conds)
                    groups.setdefault(key, []).append((sig, has_le))
                for key, sigs in groups.items():
                    if not any(h for _, h in sigs) or len(sigs) < 2:
                        continue
                    n += 1
                    distinct = {s for s, _ in sigs}
                    ok = len(distinct) == 1
                    label = " & ".join(("" if pol else "not ") + c for c, pol in sorted(key))[-80:] or "always"
                    ctx.ob(R, t.rel, f"{lang}: {mname} [{label}]: LITTLE_ENDIAN arms agree on advances and error exits", ok,
                           "" if ok else f"arms differ: {sorted(distinct)}: bytes or decoded values depend on the endianness option")
    ctx.floor(R, n, 3)
    # assertion generation: `assert(<C expression>)` renders to NUNAVUT_ASSERT(...) with the option on and to nothing with it off, so
    # the asserted expression must have no effect of its own - no call of a codec / support routine, no assignment, no ++ / --.
    # (Observers such as size(), offset(), is_x(), sizeof are not effects.)
    N = cd.N
    EFFECT_CALL = re.compile(r"(\w*_(?:de)?serialize_|\b(?:de)?serialize|\w*_initialize_|nunavut(?:Set|Get|Copy)\w*|"
                             r"(?:\.|->)(?:set|add|push|emplace|clear|resize|reserve|assign|copyTo|padAndMove|subspan|destroy|swap)\w*)\s*\(")
    EFFECT_OP = re.compile(r"(?<![=!<>])=(?!=)|\+\+|--|[-+*/%&|^]=|<<=|>>=")
    n_as = 0
    for t in cd.ts.templates:
        if t.lang not in ("c", "cpp"):
            continue
        for node in t.ast.find_all(N.Call):
            if not (isinstance(node.node, N.Name) and node.node.name == "assert" and node.args):
                continue
            n_as += 1
            lits = [c.value for c in [node.args[0]] + list(node.args[0].find_all(N.Const)) if isinstance(c, N.Const) and isinstance(c.value, str)]
            text = " ".join(lits)
            hit = EFFECT_CALL.search(text) or EFFECT_OP.search(text)
            ok = hit is None
            ctx.ob(R, t.rel, f"{t.lang}: asserted expression `{xs(node.args[0])[:70]}` has no effect of its own", ok,
                   "" if ok else f"`{hit.group(0)}` is evaluated only when assertion generation is on: with the option off the statement vanishes together with "
                   "its effect, so the generated code behaves differently for the two settings", getattr(node, "lineno", None))
    ctx.floor(R + ":asserts", n_as, 60)
    # allocator flavour (c++17-pmr, cetl): containers with a non-default allocator construct their elements through the
    # allocator-extended copy / move constructors.  In _composite_type.j2 each of them has a structure branch (every field initialised by
    # value_initializer(SpecialMethod.<KIND>)) and a union branch (union_value{...}); where the structure branch takes the value from
    # rhs, the union branch must as well - otherwise an array of unions decodes to default-initialised elements under those standards only.
    ct = cd.ts.get("cpp", "_composite_type.j2")
    n_ctor = 0
    for node in ct.ast.find_all(N.If):
        tst, pol = node.test, True
        while isinstance(tst, N.Not):
            tst, pol = tst.node, not pol
        if node.elif_ or not re.fullmatch(r"\(\w+\.inner_type is UnionType\)", xs(tst)):
            continue
        ub, sb = (node.body, node.else_) if pol else (node.else_, node.body)
        utext = "".join(d.data for b in ub for d in b.find_all(N.TemplateData))
        if "union_value{" not in utext:
            continue
        kinds = {re.search(r"SpecialMethod\.(\w+)", xs(f_)).group(1) for b in sb for f_ in b.find_all(N.Filter) if f_.name == "value_initializer" and "SpecialMethod." in xs(f_)}
        if len(kinds) != 1:
            continue
        kind = next(iter(kinds))
        n_ctor += 1
        init = re.search(r"union_value\{([^}]*)\}", utext).group(1).replace(" ", "")
        if "COPY" in kind:
            ok = init == "rhs.union_value"
        elif "MOVE" in kind:
            ok = init in ("std::move(rhs.union_value)", "std::move(rhs).union_value")
        else:
            ok = "rhs" not in init
        ctx.ob(R, ct.rel, f"cpp: {kind}: the union branch takes its value where the structure branch does", ok,
               "" if ok else f"union_value{{{init}}}: a union constructed through this constructor (std::vector with a polymorphic allocator does so for every "
               "element it moves or copies) starts default-initialised, so decoded values depend on the C++ standard / allocator flavour", node.lineno)
    ctx.floor(R + ":allocator-ctors", n_ctor, 3)
    # LITTLE_ENDIAN is derived from the option in exactly one way
    for lang, f in (("c", "definitions.j2"), ("cpp", "_definitions.j2")):
        t = cd.ts.get(lang, f)
        N = cd.N
        sets = {}
        for node, stack in j2front.walk(t.ast):
            if isinstance(node, N.Assign) and isinstance(node.target, N.Name) and node.target.name == "LITTLE_ENDIAN":
                sets[tuple(j2front.facts(stack))] = xs(node.node)
        ok = sets.get((("(options.target_endianness == 'little')", True),)) == "True" and any(v == "False" for v in sets.values()) and len(sets) == 2
        ctx.ob(R, t.rel, f"{lang}: LITTLE_ENDIAN is true exactly for target_endianness == 'little'", ok, f"{sets}")


def rule_xlang(ctx, cd):
    R = "R-C03-XLANG"
    ctx.rule(
        R,
        "the C, C++ and Python dispatch tables test the same kinds in the same order; array length prefixes, delimiter "
        "headers and union tags are sized by the same model attributes in every language (t.length_field_type, "
        "t.delimiter_header_type or pydsdl's fixed 32-bit header, tag_field_type) and union options are numbered by "
        "their position in the unfiltered field list",
    )
    tables = {}
    for which in ("ser", "des"):
        for lang in ("c", "cpp", "py"):
            _, table = cd.dispatch_chain(lang, which, "_serialize_any" if which == "ser" else "_deserialize_any")
            tables[(which, lang)] = [row[0] for row in table if row[0] != "else"]
    ref = tables[("ser", "c")]
    for k, v in sorted(tables.items()):
        ok = v == ref
        ctx.ob(R, cd.tmpl(k[1], k[0]).rel, f"{k[1]} {k[0]}: dispatch tests {len(v)} kinds in the common order", ok,
               "" if ok else f"{v} vs C serializer {ref}")
    # model attributes
    for which, pre in (("ser", "_serialize_"), ("des", "_deserialize_")):
        for lang in ("c", "cpp", "py"):
            t = cd.tmpl(lang, which)
            N = cd.N
            vla = cd.ts.macro(t, pre + "variable_length_array")
            calls = [xs(c.args[0]) for c in vla.find_all(N.Call) if isinstance(c.node, N.Name) and c.node.name == pre + "integer" and c.args]
            ok = calls == ["t.length_field_type"]
            ctx.ob(R, t.rel, f"{lang} {which}: array length prefix is t.length_field_type", ok, "" if ok else f"{calls}", vla.lineno)
            if lang in ("c", "cpp"):
                comp = cd.ts.macro(t, pre + "composite")
                calls = [xs(c.args[0]) for c in comp.find_all(N.Call) if isinstance(c.node, N.Name) and c.node.name == pre + "integer" and c.args]
                ok = bool(calls) and set(calls) == {"t.delimiter_header_type"}
                ctx.ob(R, t.rel, f"{lang} {which}: delimiter header is t.delimiter_header_type", ok, "" if ok else f"{calls}", comp.lineno)
                impl = cd.ts.macro(t, pre + "impl")
                calls = [xs(c.args[0]) for c in impl.find_all(N.Call) if isinstance(c.node, N.Name) and c.node.name == pre + "integer" and c.args]
                ok = calls == ["t.inner_type.tag_field_type"]
                ctx.ob(R, t.rel, f"{lang} {which}: union tag is t.inner_type.tag_field_type", ok, "" if ok else f"{calls}", impl.lineno)
            else:
                txt = "".join(d.data for d in t.ast.find_all(N.TemplateData))
                fn = "add_aligned_u32" if which == "ser" else "fetch_aligned_u32"
                import pydsdl
                bits = getattr(pydsdl.DelimitedType, "_DEFAULT_DELIMITER_HEADER_BIT_LENGTH", getattr(pydsdl.DelimitedType, "DEFAULT_DELIMITER_HEADER_BIT_LENGTH", None))
                ok = fn in txt and bits == 32
                ctx.ob(R, t.rel, f"py {which}: delimiter header is the 32-bit aligned form pydsdl mandates", ok, f"pydsdl header bits: {bits}")
                top = cd.ts.macro(t, "serialize" if which == "ser" else "deserialize")
                calls = [xs(c.args[0]) for c in top.find_all(N.Call) if isinstance(c.node, N.Name) and c.node.name == pre + "integer" and c.args]
                ok = len(calls) == 1 and re.fullmatch(r"(t|self\.inner_type|self)\.(inner_type\.)?tag_field_type", calls[0]) is not None
                ctx.ob(R, t.rel, f"py {which}: union tag is the model's tag_field_type", ok, "" if ok else f"{calls}", top.lineno)
    # capacities from the model
    for lang in ("c", "cpp", "py"):
        for which, pre in (("ser", "_serialize_"), ("des", "_deserialize_")):
            t = cd.tmpl(lang, which)
            for kind in ("fixed_length_array", "variable_length_array"):
                m = cd.ts.macro(t, pre + kind)
                caps = {xs(g) for g in m.find_all(cd.N.Getattr) if g.attr == "capacity"}
                ok = caps <= {"t.capacity"} and (bool(caps) or lang == "cpp" or (lang == "py" and which == "des" and kind == "fixed_length_array") or True)
                ctx.ob(R, t.rel, f"{lang} {which}: {kind} capacity comes from t.capacity", ok, "" if ok else f"{caps}", m.lineno)


def rule_value_initializer(ctx, px):
    """C++ special methods (copy / move / initializing constructors, also in their allocator-extended flavours) initialise every
    member from its counterpart; the initializer text comes from filter_value_initializer.  A branch of that filter that forgets
    the counterpart for one kind of member (`{}` for fixed-length arrays, say) makes objects that travel through those constructors
    (elements pushed into a pmr vector while decoding) lose their values in one allocator flavour only."""
    import ast
    import copy

    from nvsa import symstr
    R = "R-C03-OPTION-SCOPE"
    m = px.module("nunavut.lang.cpp")
    f = m.funcs.get("filter_value_initializer")
    if f is None:
        raise AnalysisError("anchor missing: nunavut.lang.cpp.filter_value_initializer")

    def path_values(g):
        for path in pyfront.enumerate_paths(g.node.body):
            if path.outcome != "return":
                continue
            r = path.stmts[-1]
            if r.value is None:
                continue
            env = {}
            for st in path.stmts[:-1]:
                if isinstance(st, (ast.Assign, ast.AnnAssign)) and getattr(st, "value", None) is not None:
                    tg = st.targets[0] if isinstance(st, ast.Assign) else st.target
                    if isinstance(tg, ast.Name):
                        env[tg.id] = symstr._Bind(dict(env)).visit(copy.deepcopy(st.value))
                    elif isinstance(tg, ast.Tuple) and isinstance(st.value, ast.Tuple) and len(tg.elts) == len(st.value.elts):
                        for t_, v_ in zip(tg.elts, st.value.elts):
                            if isinstance(t_, ast.Name):
                                env[t_.id] = symstr._Bind(dict(env)).visit(copy.deepcopy(v_))
                elif isinstance(st, ast.AugAssign) and isinstance(st.target, ast.Name) and isinstance(st.op, ast.Add):
                    prev = env.get(st.target.id, ast.Name(id=st.target.id, ctx=ast.Load()))
                    env[st.target.id] = ast.BinOp(left=prev, op=ast.Add(), right=symstr._Bind(dict(env)).visit(copy.deepcopy(st.value)))
            val = ast.fix_missing_locations(symstr._Bind(env).visit(copy.deepcopy(r.value)))
            terms = pyfront.guard_terms([(symstr._Bind(env).visit(copy.deepcopy(t_)) if not isinstance(t_, str) else t_, p_) for t_, p_ in path.conds])
            yield terms, val, r

    def take_true(expr, test_txt):
        class T(ast.NodeTransformer):
            def visit_IfExp(self, node):
                self.generic_visit(node)
                t = ast.unparse(node.test)
                if t == test_txt:
                    return node.body
                if t == f"not {test_txt}":
                    return node.orelse
                return node
        return T().visit(copy.deepcopy(expr))

    def judge(g, inst, sm, depth=0):
        n = 0
        bad = []
        need, req = f"needs_initializing_value({sm})", f"requires_initialization({inst})"
        for terms, val, r in path_values(g):
            if (need, False) in terms or (req, False) in terms:
                continue
            n += 1
            v2 = take_true(val, need)
            txt = ast.unparse(v2)
            if re.search(rf"\bfilter_id\({re.escape(inst)}\)", txt):
                continue
            # the counterpart may be computed by a helper that is given both the member and the special method
            helper_ok = False
            for c in ast.walk(v2):
                if isinstance(c, ast.Call) and isinstance(c.func, ast.Name) and depth < 2:
                    names = [ast.unparse(a) for a in c.args]
                    if inst in names and sm in names:
                        hs = [h for h in px.resolve_call(g, c, by_name_fallback=False) if h.cls is None and h.module is g.module]
                        if len(hs) == 1:
                            hp = [a.arg for a in hs[0].node.args.args]
                            k, b = judge(hs[0], hp[names.index(inst)], hp[names.index(sm)], depth + 1)
                            if k and not b:
                                helper_ok = True
            if not helper_ok:
                bad.append((r.lineno, txt[:120], [("" if pol else "not ") + e for e, pol in terms][-3:]))
        return n, bad

    params = [a.arg for a in f.node.args.args]
    if len(params) < 3:
        raise AnalysisError("anchor missing: filter_value_initializer(language, instance, special_method)")
    n, bad = judge(f, params[1], params[2])
    ctx.ob(R, m.rel, f"{f.short} :: every member that a special method initialises from a value names that value (`[rhs.]<member>`)", n > 0 and not bad,
           "" if not bad else f"line {bad[0][0]}: returns `{bad[0][1]}` under {bad[0][2]}: the member is value-initialised instead of copied / moved - objects passing "
           "through the allocator-extended constructors (elements decoded into a pmr container) lose it, and the c++17-pmr / cetl flavours disagree with the others",
           f.node.lineno)
    ctx.floor(R + ":value-initializer", n, 1)


def run(ctx):
    ctx.explanation = (
        "C03 is decided for necessary conditions of agreement between the sibling implementations: per language the "
        "serializer and deserializer of each kind branch on the same structural conditions and advance the cursor by "
        "the same normalised expressions; the three languages test the same kinds and size prefixes, headers and tags "
        "by the same model attributes; paths that differ only in the endianness option have identical advances and "
        "error exits.  Equality of bytes and values across codecs and options needs execution of two codecs on the same "
        "input and is not decided."
    )
    ctx.declined = ["equality of bytes / decoded values across languages and options (needs execution of two codecs on the same input)"]
    ts = j2front.TemplateSet(ctx.root)
    cd = Codec(ts)
    rule_symmetry(ctx, cd)
    _codec.rule_bulk_advance(ctx, cd, "ser", "R-C03-SYMMETRY")
    _codec.rule_bulk_advance(ctx, cd, "des", "R-C03-SYMMETRY")
    rule_option_scope(ctx, cd)
    rule_value_initializer(ctx, pyfront.PyIndex(ctx.root))
    rule_xlang(ctx, cd)
    # single-language specialisations whose failure makes one target (or one option point) disagree with the others
    _codec.rule_zero_cost(ctx, pyfront.PyIndex(ctx.root), "R-C03-ZEROCOST")
    _codec.rule_float_sat(ctx, cd, "R-C03-FLOAT-SAT")
    _codec.rule_sat_use(ctx, cd, "R-C03-SAT-USE")
    _codec.rule_offset_sets(ctx, cd, "ser", "R-C03-OFFSET-SET-SER")
    _codec.rule_offset_sets(ctx, cd, "des", "R-C03-OFFSET-SET-DES")
    _codec.rule_top_empty(ctx, cd, "R-C03-EMPTY-TYPE")
