"""C half of the C14 check: rules over the clang AST of nunavut/support/serialization.h at one option point."""
import re
import typing

from nvsa import cast
from nvsa.report import AnalysisError

from ._c14_common import (norm, print_shape, rule_f16_special, rule_f16_pack_order, rule_shift_range, LITERAL_BITS, alpha_print, flat, is_int, is_min, name_width, res, return_type, then_returns, times8, type_bytes,
                          upper_bound, zero_fill_guard_ok, early_exit_before)

COPY = "nunavutCopyBits"
SAT = "nunavutSaturateBufferFragmentBitLength"
# primitives whose destination/source extents are the caller's obligation by documented contract
RAW = {
    COPY: "raw bit copy: 'both source and destination shall be large enough'; every caller is held to SET-BOUND / GET-SAT",
    "nunavutGetBits": "output buffer is sized by the caller (ceil(len_bits/8) bytes); its callers in the type templates are C04's",
}
WRITE_CALLS = {COPY: (0, 2), "memmove": (0, 2), "memcpy": (0, 2), "memset": (0, 2)}   # callee -> (destination arg, extent arg)
READ_CALLS = {COPY: (3, 2, 4), "memmove": (1, 2, None), "memcpy": (1, 2, None)}      # callee -> (source arg, extent arg, source offset arg)


def _nonconst_ptr(ty: str) -> bool:
    t = ty.strip()
    return "*" in t and not t.startswith("const ")


def _const_ptr(ty: str) -> bool:
    t = ty.strip()
    return "*" in t and t.startswith("const ")


def _taint(fn, seeds: typing.Set[str]) -> typing.Set[str]:
    """pointer locals derived from the seed pointers"""
    out = set(seeds)
    changed = True
    defs = cast.local_defs(fn)
    while changed:
        changed = False
        for name, (init, ty, _n) in defs.items():
            if name not in out and init is not None and "*" in ty and cast.term_refs(init) & out:
                out.add(name)
                changed = True
    return out


def _calls(t):
    return [x for x in cast.subterms(t) if x[0] == "call"]


def _is_assert(t) -> bool:
    return t is not None and "__assert_fail" in cast.term_refs(t)


class View:
    def __init__(self, name, fn):
        self.name = name
        self.fn = fn
        self.params = dict(cast.param_types(fn))
        self.stmts = cast.statements(fn)
        self.reassigned = cast.reassigned_locals(fn)
        self.defs = cast.local_defs(fn)

    def env(self, index):
        return cast.env_at(self.stmts, index, self.reassigned)

    def terms(self):
        for s in self.stmts:
            t = cast.stmt_term(s)
            if t is not None and not _is_assert(t):
                yield s, t
            for name, _ty, init in cast.decls_of(s):
                if init is not None:
                    yield s, ("bin", ":=", ("ref", name), init)


def _bound_guard(v: View, before_top: int, size_params: typing.Set[str], errcode: int):
    """top-level `if (size*8 < off + L) return -ERR;` guards before the given top-level statement ->
    list of (offset refs + L terms as list, constant slack)"""
    out = []
    for s in v.stmts:
        if s.guards or s.top >= before_top or s.node.get("kind") != "IfStmt":
            continue
        ret = then_returns(s.node)
        if ret is None or not any(x == ("un", "-", ("int", errcode, x[2][2] if x[0] == "un" and x[2][0] == "int" else "")) or
                                  (x[0] == "un" and x[1] == "-" and is_int(x[2], errcode)) for x in cast.subterms(ret)):
            continue
        c = cast.term(s.node["inner"][0])
        if c[0] != "bin" or c[1] not in ("<", "<=", ">", ">="):
            continue
        op, a, b = c[1], c[2], c[3]
        if times8(b) is not None and times8(a) is None:
            a, b = b, a
            op = {"<": ">", "<=": ">=", ">": "<", ">=": "<="}[op]
        sz = times8(a)
        if sz is None or sz[0] != "ref" or sz[1] not in size_params or op not in ("<", "<="):
            continue
        terms = flat("+", b)
        slack = 1 if op == "<=" else 0
        out.append((terms, slack, s))
    return out


def _extent_ok(ext, guard_terms, slack, offset_term) -> typing.Tuple[bool, str]:
    rest = list(guard_terms)
    if offset_term not in rest:
        return False, f"the check does not involve the offset `{cast.show(offset_term)}` the store uses"
    rest.remove(offset_term)
    const = slack + sum(t[1] for t in rest if t[0] == "int")
    syms = [t for t in rest if t[0] != "int"]
    if ext[0] == "int":
        return (ext[1] <= const or bool(syms) and False), f"stores {ext[1]} bit(s) but the check covers {const}"
    if ext in syms:
        return True, ""
    if is_min(ext) and any(a in syms for a in ext[2]):
        return True, ""
    return False, f"stored extent `{cast.show(ext)}` is not covered by the checked length `{'+'.join(cast.show(t) for t in rest) or '0'}`"


def copy_helpers(fns: typing.Dict[str, dict]) -> typing.Set[str]:
    """private parts of the raw bit copy: functions that are called from nunavutCopyBits (or from another such part) and from nowhere
    else.  They share its contract - the extents are the caller's obligation - and its read-modify-write obligations."""
    callers: typing.Dict[str, typing.Set[str]] = {}
    for name, fn in fns.items():
        for n in cast.walk(cast.body_of(fn) or {}):
            if n.get("kind") == "CallExpr":
                c = cast.callee_name(n)
                if c in fns and c != name:
                    callers.setdefault(c, set()).add(name)
    out: typing.Set[str] = set()
    changed = True
    while changed:
        changed = False
        for g, cs in callers.items():
            if g not in out and g != COPY and g not in RAW and cs and cs <= ({COPY} | out):
                out.add(g)
                changed = True
    return out


def rule_set_bound(fns: typing.Dict[str, dict], errcode: int) -> typing.List[dict]:
    R = "R-C14-SET-BOUND"
    out = []
    RAW = dict(globals()["RAW"])
    for h in copy_helpers(fns):
        RAW[h] = f"part of {COPY} (called from nowhere else)"
    checked: typing.Set[str] = set()
    wrappers = []
    for name, fn in fns.items():
        v = View(name, fn)
        dst = {p for p, ty in v.params.items() if _nonconst_ptr(ty)}
        if not dst:
            continue
        tainted = _taint(fn, dst)
        size_params = {p for p, ty in v.params.items() if "size" in p and "*" not in ty}
        writes = []
        passes = []
        for s, t in v.terms():
            for c in _calls(t):
                if c[1] in WRITE_CALLS and len(c[2]) > WRITE_CALLS[c[1]][1] and cast.term_refs(c[2][WRITE_CALLS[c[1]][0]]) & tainted:
                    writes.append((s, c))
                elif c[1] in fns and c[1] not in WRITE_CALLS and any(a[0] == "ref" and a[1] in tainted for a in c[2]):
                    passes.append((s, c))
            for x in cast.subterms(t):
                if x[0] == "bin" and x[1].endswith("=") and x[1] not in ("==", "!=", "<=", ">=", ":="):
                    lhs = x[2]
                    if lhs[0] in ("idx", "un") and (lhs[0] != "un" or lhs[1] == "*") and cast.term_refs(lhs) & tainted:
                        writes.append((s, ("store", cast.show(lhs), ())))
        if name in RAW:
            continue
        if writes:
            checked.add(name)
        for s, c in writes:
            guards = _bound_guard(v, s.top, size_params, errcode)
            what = f"{name}: {c[1]}(...) into the caller's buffer" if c[0] == "call" else f"{name}: store {c[1]}"
            if not guards:
                out.append(res(R, name, what, False, "no dominating `size*8 < offset + length -> return -BUFFER_TOO_SMALL` check"))
                continue
            if s.guards and any(g[0] in ("if", "else") for g in s.guards):
                pass  # a store under a further condition is still dominated by the top-level check
            if c[0] != "call" or c[1] != COPY:
                out.append(res(R, name, what, True))
                continue
            env = v.env(s.index)
            ext = cast.substitute(c[2][2], env)
            off = c[2][1]
            verdicts = [_extent_ok(ext, g[0], g[1], off) for g in guards]
            ok = any(x[0] for x in verdicts)
            out.append(res(R, name, what, ok, verdicts[0][1]))
        for s, c in passes:
            wrappers.append((name, v, c))
    for name, v, c in wrappers:
        callee = c[1]
        cparams = [p for p, _ in cast.param_types(fns[callee])]
        ok = callee in checked or any(w[0] == callee for w in wrappers)
        detail = "" if ok else f"{callee} is not a bounds-checked routine"
        if callee in RAW and name not in RAW:
            ok, detail = False, f"hands the caller's buffer to the raw routine {callee} without a bounds check of its own"
        for i, p in enumerate(cparams):
            if p in v.params and i < len(c[2]) and ("size" in p or "off" in p or "*" in v.params[p]):
                if c[2][i] != ("ref", p):
                    ok, detail = False, f"argument `{p}` of {callee} is `{cast.show(c[2][i])}`, not the caller's own `{p}`"
        out.append(res(R, name, f"{name}: delegates the store to {callee} with buffer, size and offset unchanged", ok, detail))
    return out


def rule_get(fns: typing.Dict[str, dict]) -> typing.List[dict]:
    out = []
    sat_names = {SAT}
    for name, fn in fns.items():
        v = View(name, fn)
        src = {p for p, ty in v.params.items() if _const_ptr(ty)}
        if not src or name in (COPY,) or name in copy_helpers(fns):
            continue
        tainted = _taint(fn, src)
        reads, passes = [], []
        for s, t in v.terms():
            for c in _calls(t):
                if c[1] in READ_CALLS and len(c[2]) > 3 and cast.term_refs(c[2][READ_CALLS[c[1]][0]]) & tainted:
                    reads.append((s, c))
                elif c[1] in fns and c[1] not in READ_CALLS and any(a[0] == "ref" and a[1] in tainted for a in c[2]):
                    passes.append((s, c))
        W = name_width(name)
        for s, c in reads:
            R = "R-C14-GET-SAT"
            env = v.env(s.index)
            src_i, ext_i, off_i = READ_CALLS[c[1]]
            ext = cast.substitute(c[2][ext_i], env)
            what = f"{name}: read of the caller's buffer by {c[1]}"
            if not (ext[0] == "call" and ext[1] == SAT and len(ext[2]) == 3):
                out.append(res(R, name, what, False, f"length `{cast.show(ext)}` is not produced by {SAT}"))
                continue
            sz, off, ln = ext[2]
            ok = sz[0] == "ref" and sz[1] in v.params and "size" in sz[1] and off[0] == "ref" and off[1] in v.params
            detail = "" if ok else f"{SAT}({cast.show(sz)}, {cast.show(off)}, ...) is not applied to the primitive's own size/offset parameters"
            if ok and off_i is not None and c[2][off_i] != off:
                ok, detail = False, f"saturated against offset `{cast.show(off)}` but reads at `{cast.show(c[2][off_i])}`"
            if ok and c[2][src_i][0] != "ref":
                ok, detail = False, f"source `{cast.show(c[2][src_i])}` is not the buffer the size belongs to"
            out.append(res(R, name, what, ok, detail))
            # destination: zero-initialised local with enough room, or an output parameter that is zero-extended first
            d = c[2][0]
            base = next((r for r in cast.term_refs(d)), None)
            if base in v.defs:
                init, ty, _n = v.defs[base]
                zero = init is not None and (is_int(init, 0) or init[0] == "init")
                out.append(res(R, name, f"{name}: destination `{base}` is zero-initialised before the copy", zero,
                               f"`{base}` is declared without a zero initialiser: bits past the buffer end would not read as zero"))
                cap = type_bytes(ty)
                ub = upper_bound(ln, v.params, sat_names)
                RW = "R-C14-WIDTH"
                ok = cap is not None and ub is not None and ub <= cap * 8
                out.append(res(RW, name, f"{name}: copied length fits the destination local", ok,
                               f"length is bounded by {ub} bit(s) but `{base}` ({ty}) holds {cap * 8 if cap else '?'}"))
                if W is not None:
                    rt = type_bytes(return_type(fn))
                    ok = ub == W and rt is not None and rt * 8 == W
                    out.append(res(RW, name, f"{name}: saturation constant, return type and name agree on the width", ok,
                                   f"name says {W}, saturation constant is {ub}, return type {return_type(fn)}"))
            elif base in v.params:
                pre = [s2 for s2, t2 in v.terms() if s2.top < s.top and any(c2[1] == "memset" and base in cast.term_refs(c2[2][0]) and is_int(c2[2][1], 0)
                                                                        for c2 in _calls(t2))]
                ok = bool(pre)
                detail = "no memset of the output tail before the copy: bits past the buffer end would not read as zero"
                if ok:
                    ms = [c2 for s2, t2 in v.terms() for c2 in _calls(t2) if c2[1] == "memset"][0]
                    e2 = v.env(s.index)
                    gok, gdetail = zero_fill_guard_ok(pre[0].guards, ms[2][2], e2)
                    if gok:
                        gok, gdetail = early_exit_before(v.stmts, pre[0].index, {p_ for p_ in v.params if "len" in p_})
                    out.append(res(R, name, f"{name}: the zero fill of the output tail is not skipped while bytes remain to be cleared", gok, gdetail))
                    start, count = cast.substitute(ms[2][0], e2), cast.substitute(ms[2][2], e2)
                    want_start = ("bin", "/", ext, ("int", 8, ""))
                    norm = lambda t: re.sub(r"\s", "", cast.show(t))
                    ok = norm(want_start) in norm(start) and norm(want_start) in norm(count) and cast.show(ln) in norm(count)
                    detail = f"memset({cast.show(start)}, 0, {cast.show(count)}) does not span [saturated/8, ceil(len/8))"
                out.append(res(R, name, f"{name}: output tail zero-extended before the copy", ok, detail))
        for s, c in passes:
            callee = c[1]
            cparams = [p for p, _ in cast.param_types(fns[callee])]
            ok, detail = True, ""
            for i, p in enumerate(cparams):
                if p in v.params and i < len(c[2]) and ("size" in p or "off" in p or "*" in v.params[p]) and c[2][i] != ("ref", p):
                    ok, detail = False, f"argument `{p}` of {callee} is `{cast.show(c[2][i])}`, not the caller's own `{p}`"
            out.append(res("R-C14-GET-SAT", name, f"{name}: delegates the read to {callee} with buffer, size and offset unchanged", ok, detail))
            Wc = name_width(callee)
            if W is not None and Wc is not None:
                env = v.env(s.index)
                ln = cast.substitute(c[2][-1], env)
                ub = upper_bound(ln, v.params, sat_names)
                ok = Wc == W and ub == W
                out.append(res("R-C14-WIDTH", name, f"{name}: delegates to the {W}-bit unsigned getter with a length saturated to {W}", ok,
                               f"calls {callee} with length `{cast.show(ln)}` (bound {ub})"))
    return out


def rule_shift_width(fns) -> typing.List[dict]:
    R = "R-C14-WIDTH"
    out = []
    for name, fn in fns.items():
        W = name_width(name)
        if W is None or not re.search(r"GetI\d+$", name):
            continue
        v = View(name, fn)
        n = 0
        for s, t in v.terms():
            for x in cast.subterms(t):
                if x[0] == "bin" and x[1] == "<<" and x[2][0] == "int" and cast.term_refs(x[3]):
                    n += 1
                    bits = LITERAL_BITS.get(x[2][2])
                    # the shift amount is sat or sat-1 with sat <= W; `1 << sat` is evaluated only under sat < W
                    need = W if x[3][0] == "ref" else W - 1 + 1
                    need = W  # value bits needed to hold 1 << (W-1)
                    ok = bits is not None and bits >= need
                    out.append(res(R, name, f"{name}: literal shifted by `{cast.show(x[3])}` is wide enough", ok,
                                   f"`{x[2][1]}` has type {x[2][2]} (at least {bits} value bits) but is shifted by up to {W - 1}"))
        if n == 0:
            out.append(res(R, name, f"{name}: sign-extension shifts found", False, "no literal shift found (sign extension rewritten?)"))
    return out


def rule_tail(fns) -> typing.List[dict]:
    R = "R-C14-TAIL"
    fn = fns.get(SAT)
    if fn is None:
        raise AnalysisError(f"anchor missing: {SAT}")
    v = View(SAT, fn)
    ps = list(v.params)
    if len(ps) != 3:
        raise AnalysisError(f"anchor changed: {SAT} takes {len(ps)} parameters")
    size, off, ln = (("ref", p) for p in ps)
    rets = [(s, t) for s, t in v.terms() if t[0] == "un" and t[1] == "return"]
    ok, detail = False, "no return"
    # `if (c) { return a; } ... return b;` at the top level of the body is the conditional `c ? a : b`
    early = [s for s in v.stmts if not s.guards and s.node.get("kind") == "IfStmt" and then_returns(s.node) is not None]
    final = [(s, t) for s, t in rets if not s.guards]
    if early and len(final) == 1 and len(rets) == len(early) + 1:
        s_f, t_f = final[0]
        r = cast.substitute(t_f[2], v.env(s_f.index))
        for s in reversed(early):
            env = v.env(s.index)
            r = ("cond", cast.substitute(cast.term(s.node["inner"][0]), env), cast.substitute(then_returns(s.node), env), r)
        ok, detail = _tail_shape(norm(r), size, off, ln)
        return [res(R, SAT, f"{SAT}: min(length, size*8 - min(size*8, offset))", ok, detail)]
    for s, t in rets:
        r = norm(cast.substitute(t[2], v.env(s.index)))     # (a < b) ? b - a : 0  is  b - min(b, a)
        ok, detail = _tail_shape(r, size, off, ln)
        if not ok:
            break
    return [res(R, SAT, f"{SAT}: min(length, size*8 - min(size*8, offset))", ok, detail)]


def _tail_shape(r, size, off, ln, size8=None):
    s8 = size8 if size8 is not None else None

    def is_s8(t):
        if s8 is not None:
            return t == s8
        return times8(t) == size

    def tail(t):
        # S8 - min(S8, off)
        if t[0] == "bin" and t[1] == "-" and is_s8(t[2]) and is_min(t[3]):
            a, b = t[3][2]
            return (is_s8(a) and b == off) or (is_s8(b) and a == off)
        return False

    if is_min(r):
        a, b = r[2]
        if (a == ln and tail(b)) or (b == ln and tail(a)):
            return True, ""
        for x in (a, b):
            if x[0] == "bin" and x[1] == "-" and not tail(x):
                return False, f"`{cast.show(x)}` can wrap below zero when the offset is past the end of the buffer"
        return False, f"result `{cast.show(r)}` is not min(length, bits left in the buffer)"
    if r[0] == "cond":
        c, a, b = r[1], r[2], r[3]
        # (off < S8) ? min(len, S8 - off) : 0   /   (off >= S8) ? 0 : min(len, S8 - off)
        def guarded(c, yes, no):
            lt = c[0] == "bin" and ((c[1] == "<" and c[2] == off and is_s8(c[3])) or (c[1] == ">" and is_s8(c[2]) and c[3] == off))
            sub = is_min(yes) and any(x == ln for x in yes[2]) and any(x[0] == "bin" and x[1] == "-" and is_s8(x[2]) and x[3] == off for x in yes[2])
            return lt and sub and is_int(no, 0)
        if guarded(c, a, b):
            return True, ""
        neg = c[0] == "bin" and ((c[1] == ">=" and c[2] == off and is_s8(c[3])) or (c[1] == "<=" and is_s8(c[2]) and c[3] == off))
        if neg and guarded(("bin", "<", off, c[3] if c[2] == off else c[2]), b, a):
            return True, ""
    return False, f"result `{cast.show(r)}` is not min(length, bits left in the buffer) with a non-wrapping subtraction"


def rule_rmw(fns) -> typing.List[dict]:
    R = "R-C14-RMW"
    fn = fns.get(COPY)
    if fn is None:
        raise AnalysisError(f"anchor missing: {COPY}")
    v = View(COPY, fn)
    helpers = sorted(copy_helpers(fns))
    out = rmw_core(R, COPY, v, {p for p, ty in v.params.items() if _nonconst_ptr(ty)}, {p for p, ty in v.params.items() if _const_ptr(ty)},
                   lambda t: t == ("ref", "length_bits") or (t[0] == "ref" and "length" in t[1] and t[1] in v.params), _taint,
                   min_stores=0 if helpers else 2)
    for h in helpers:
        hv = View(h, fns[h])
        out += rmw_core(R, h, hv, {p for p, ty in hv.params.items() if _nonconst_ptr(ty)}, {p for p, ty in hv.params.items() if _const_ptr(ty)},
                        lambda t, hv=hv: t[0] == "ref" and "length" in t[1] and t[1] in hv.params, _taint, min_stores=0, part=True)
    if helpers:
        n = len([r for r in out if "partial-byte store `" in r["construct"]])
        out.append(res(R, COPY, f"{COPY}: partial-byte stores found", n >= 2, f"only {n} store(s) into the destination recognised in {[COPY] + helpers}"))
    return out


def rmw_core(R, name, v, dst_seed, src_seed, is_length, taint_fn, is_dst_lhs=None, min_stores=2, part=False) -> typing.List[dict]:
    out = []
    dst = taint_fn(v.fn, dst_seed) if taint_fn else dst_seed
    masks = {x[2][1] for _s, t in v.terms() for x in cast.subterms(t) if x[0] == "un" and x[1] == "~" and x[2][0] == "ref" and x[2][1] in v.defs}
    n_store = 0
    for s, t in v.terms():
        if not (t[0] == "bin" and t[1] == "="):
            continue
        lhs, rhs = t[2], t[3]
        is_dst = is_dst_lhs(lhs) if is_dst_lhs else (lhs[0] in ("idx", "un") and bool(cast.term_refs(lhs) & dst))
        if not is_dst:
            continue
        n_store += 1
        env = {k: x for k, x in v.env(s.index).items() if k not in masks}
        r = cast.substitute(rhs, env)
        shown = cast.show(lhs)
        lhs = cast.substitute(lhs, env)
        ors = flat("|", r)
        keep = [o for o in ors if lhs in list(cast.subterms(o))]
        new = [o for o in ors if lhs not in list(cast.subterms(o))]
        ok, detail = True, ""
        if not keep:
            ok, detail = False, f"`{shown} = {cast.show(rhs)}` overwrites the whole byte: the bits outside the copied range are lost"
        for o in keep:
            if not any(x[0] == "un" and x[1] == "~" and cast.term_refs(x[2]) & masks for x in cast.subterms(o)) or o == lhs:
                ok, detail = False, f"old value `{cast.show(o)}` is kept without clearing the bits about to be written (no `& ~mask`)"
        for o in new:
            ands = flat("&", o)
            if not any(a[0] == "ref" and a[1] in masks for a in ands):
                ok, detail = False, f"new bits `{cast.show(o)}` are merged without `& mask`: bits outside the copied range are disturbed"
        out.append(res(R, name, f"{name}: partial-byte store `{shown}` is a masked read-modify-write", ok, detail))
        # ... and the mask is cut to the length: a mask that depends on the offsets only covers everything up to the byte boundary, so a
        # fragment that ends before the boundary (length 0 included) overwrites the neighbouring bits
        if ok:
            full_env = v.env(s.index)
            used = {x[2][1] for x in cast.subterms(rhs) if x[0] == "un" and x[1] == "~" and x[2][0] == "ref" and x[2][1] in masks} | \
                {a[1] for o in flat("|", rhs) for a in flat("&", o) if a[0] == "ref" and a[1] in masks}
            for mk in sorted(used):
                mt = cast.substitute(("ref", mk), full_env)
                for _ in range(6):
                    mt2 = cast.substitute(mt, full_env)
                    if mt2 == mt:
                        break
                    mt = mt2
                dep = any(is_length(x) for x in cast.subterms(mt))
                out.append(res(R, name, f"{name}: the mask `{mk}` of the partial-byte store `{shown}` is bounded by the length", dep,
                               f"`{mk}` = `{cast.show(mt)[:80]}` does not depend on the length: the store covers every bit up to the byte boundary, "
                               "also those behind the end of the fragment"))
    if n_store < min_stores:
        out.append(res(R, name, f"{name}: partial-byte stores found", False, f"only {n_store} store(s) into the destination recognised"))
    # whole-byte move: floor(length/8)
    for s, t in v.terms():
        for c in _calls(t):
            if c[1] in ("memmove", "memcpy") and len(c[2]) == 3:
                cnt = cast.substitute(c[2][2], v.env(s.index))
                ok = cnt[0] == "bin" and cnt[1] == "/" and is_int(cnt[3], 8) and is_length(cnt[2])
                out.append(res(R, name, f"{name}: whole-byte move covers floor(length/8) bytes", ok,
                               f"{c[1]} count `{cast.show(cnt)}` is not length/8: a partial last byte would be overwritten whole"))
    # unaligned loop advances both offsets alike
    incs = {}
    for s, t in v.terms():
        if any(g[0] == "while" for g in s.guards) and t[0] == "bin" and t[1] == "+=" and t[2][0] == "ref":
            incs[t[2][1]] = t[3]
    loops = [s for s in v.stmts if s.node.get("kind") == "WhileStmt"]
    if part and not loops:
        return out
    ok = len(incs) >= 2 and len(set(incs.values())) == 1 and bool(loops)
    detail = f"offsets advanced in the loop: {{{', '.join(k + '+=' + cast.show(x) for k, x in incs.items())}}}"
    if ok:
        cond = cast.term(loops[0].node["inner"][0])
        ok = bool(cast.term_refs(cond) & set(incs))
        detail = f"loop condition `{cast.show(cond)}` does not test an advancing offset"
    out.append(res(R, name, f"{name}: unaligned loop advances source and destination offsets by the same amount", ok, detail))
    out += loop_progress(R, name, v.fn)
    return out


_NARROW = {"uint8_t": 8, "unsigned char": 8, "std::uint8_t": 8, "uint16_t": 16, "unsigned short": 16, "std::uint16_t": 16, "bool": 1,
           "int8_t": 7, "signed char": 7, "char": 7, "int16_t": 15, "short": 15}
_MIN_CALLS = ("nunavutChooseMin", "min", "std::min")


def _type_bits(n) -> typing.Optional[int]:
    ty = n.get("type", {})
    for k in ("qualType", "desugaredQualType"):
        t = re.sub(r"\b(const|volatile)\b", "", ty.get(k, "")).strip()
        if t in _NARROW:
            return _NARROW[t]
    return None


def loop_progress(R, name, fn) -> typing.List[dict]:
    """The unaligned copy loop ends because every iteration advances the offsets by min(bits to the byte boundary, bits left) >= 1.
    The minimum has to be taken at full width: a conversion to an 8/16-bit type applied to the `bits left` operand first reduces
    it modulo 256 (65536), and a remaining length that is a multiple of it gives a step of 0 - the routine never returns."""
    body = cast.body_of(fn)
    out: typing.List[dict] = []
    if body is None:
        return out
    decls = {}
    assigned = set()
    for n in cast.walk(body):
        if n.get("kind") == "VarDecl":
            init = [i for i in (n.get("inner") or []) if i.get("kind") not in ("FullComment",)]
            decls[n.get("name")] = (n, init[-1] if init else None)
        elif n.get("kind") in ("BinaryOperator", "CompoundAssignOperator") and n.get("opcode", "").endswith("=") and n.get("opcode") not in ("==", "!=", "<=", ">="):
            nm = cast.ref_name(n["inner"][0])
            if nm:
                assigned.add(nm)
        elif n.get("kind") == "UnaryOperator" and n.get("opcode") in ("++", "--"):
            nm = cast.ref_name(n["inner"][0])
            if nm:
                assigned.add(nm)
    hazards: typing.List[str] = []
    INF = None

    def mn(a, b):
        return b if a is INF else (a if b is INF else min(a, b))

    def bound(n, depth=0):
        """an upper bound of the value, or None when nothing bounds it"""
        if depth > 80:
            return INF
        k = n.get("kind")
        inner = [i for i in (n.get("inner") or []) if i.get("kind") != "CXXDefaultArgExpr"]
        if k == "IntegerLiteral":
            return int(n.get("value"))
        if k in ("ParenExpr", "ExprWithCleanups", "MaterializeTemporaryExpr", "ConstantExpr", "CXXBindTemporaryExpr") and inner:
            return bound(inner[-1], depth + 1)
        if k in ("ImplicitCastExpr", "CStyleCastExpr", "CXXStaticCastExpr", "CXXFunctionalCastExpr") and inner:
            b = bound(inner[-1], depth + 1)
            w = _type_bits(n)
            if w is not None and n.get("castKind") in ("IntegralCast", "NoOp", None) or (w is not None and k != "ImplicitCastExpr"):
                top = (1 << w) - 1
                if b is INF or b > top:
                    if n.get("castKind") != "LValueToRValue":
                        hazards.append(f"`{cast.show(cast.term(inner[-1]))}` converted to a {w}-bit type")
                    return top
            return b
        if k == "DeclRefExpr":
            nm = n.get("referencedDecl", {}).get("name")
            if nm in decls and nm not in assigned and decls[nm][1] is not None:
                return bound(decls[nm][1], depth + 1)
            return INF
        if k == "BinaryOperator" and len(inner) == 2:
            op = n.get("opcode")
            a, b = bound(inner[0], depth + 1), bound(inner[1], depth + 1)
            if op == "%":
                return INF if b is INF else max(b - 1, 0)
            if op == "-":
                return a
            if op in ("+",):
                return INF if a is INF or b is INF else a + b
            if op == "&":
                return mn(a, b)
            if op in (">>", "/"):
                return a
            return INF
        if k == "ConditionalOperator" and len(inner) == 3:
            c = cast.strip_casts(inner[0])
            a, b = bound(inner[1], depth + 1), bound(inner[2], depth + 1)
            if c.get("kind") == "BinaryOperator" and c.get("opcode") in ("<", "<=", ">", ">="):
                l, r = (cast.term(x) for x in c["inner"])
                ta, tb = cast.term(inner[1]), cast.term(inner[2])
                less = c["opcode"] in ("<", "<=")
                if (l, r) == (ta, tb) and less or (l, r) == (tb, ta) and not less:
                    return mn(a, b)          # the smaller of the two
            return INF if a is INF or b is INF else max(a, b)
        if k in ("CallExpr",) and inner:
            cn = cast.callee_name(n) or ""
            if cn in _MIN_CALLS and len(inner) == 3:
                return mn(bound(inner[1], depth + 1), bound(inner[2], depth + 1))
        return INF

    for w in [x for x in cast.walk(body) if x.get("kind") == "WhileStmt"]:
        steps = []
        for n in cast.walk(w):
            if n.get("kind") == "CompoundAssignOperator" and n.get("opcode") == "+=":
                steps.append(n["inner"][1])
        seen = set()
        for st in steps:
            key = cast.show(cast.term(st))
            if key in seen:
                continue
            seen.add(key)
            del hazards[:]
            b = bound(st)
            ok = not hazards
            out.append(res(R, name, f"{name}: the loop's step `{key}` is the minimum of its operands at full width (a positive step on every iteration)", ok,
                           ("; ".join(dict.fromkeys(hazards)) + " before the minimum is taken: the operand is reduced modulo its width, so a remaining length "
                            "that is a multiple of it yields a step of 0 and the loop never terminates") if not ok else f"step <= {b}"))
    return out


def rule_byte_order(fns, endian: str) -> typing.List[dict]:
    R = "R-C14-BYTE-ORDER"
    out = []
    if endian == "little":
        return out
    fn = fns.get("nunavutSetUxx")
    if fn is None:
        raise AnalysisError("anchor missing: nunavutSetUxx")
    v = View("nunavutSetUxx", fn)
    out.extend(byte_table(R, "nunavutSetUxx", v))
    for name in ("nunavutGetU16", "nunavutGetU32", "nunavutGetU64"):
        if name not in fns:
            raise AnalysisError(f"anchor missing: {name}")
        out.extend(byte_assembly(R, name, View(name, fns[name])))
    return out


def byte_table(R, name, v) -> typing.List[dict]:
    tables = [(n, init) for n, (init, ty, _c) in v.defs.items() if init is not None and init[0] == "init"]
    tables = [(n, i[1][0][1] if len(i[1]) == 1 and i[1][0][0] == "init" else i[1]) for n, i in tables]
    tables = [(n, items) for n, items in tables if len(items) == 8]
    if not tables:
        # the same table filled by a loop:  for (i = 0; i < 8; ++i) tmp[i] = (value >> (i * 8)) & 0xFF
        for f_ in [n_ for n_ in cast.walk(v.fn) if n_.get("kind") == "ForStmt"] if hasattr(v, "fn") else []:
            inner = f_.get("inner") or []
            if len(inner) != 5 or inner[2] is None or inner[3] is None:
                continue
            cond, inc = cast.term(inner[2]), cast.term(inner[3])
            if not (cond[0] == "bin" and cond[1] == "<" and cond[2][0] == "ref"):
                continue
            iv = cond[2][1]
            bound_txt = cast.show(cond[3]).replace(" ", "")
            arr = [n for n, (_i, ty, _c) in v.defs.items() if re.search(r"array<[^,]+,\s*(8|sizeof\(uint64_t\))\s*>|\[8\]", ty or "")]
            bound_ok = bound_txt in ("8", "sizeof(uint64_t)") or any(bound_txt == f"{a}.size()" for a in arr)
            init_ok = iv in v.defs and v.defs[iv][0] is not None and is_int(v.defs[iv][0], 0)
            inc_ok = cast.show(inc).replace(" ", "") in (f"++{iv}", f"{iv}++", f"{iv}+=1")
            body = [cast.term(x) for x in cast.walk(inner[4]) if x.get("kind") == "BinaryOperator" and x.get("opcode") == "="]
            okb = False
            for b in body:
                if b[2][0] == "idx" and cast.show(b[2]).replace(" ", "") in [f"{a}[{iv}]" for a in arr]:
                    ands = flat("&", b[3])
                    sh = next((a_ for a_ in ands if a_[0] == "bin" and a_[1] == ">>"), None)
                    amount = cast.show(sh[3]).replace(" ", "") if sh is not None else ""
                    okb = sh is not None and sh[2][0] == "ref" and amount in (f"{iv}*8", f"8*{iv}") and any(is_int(a_, 255) for a_ in ands)
            if arr and body:
                ok_all = bound_ok and init_ok and inc_ok and okb
                return [res(R, name, f"{name}: {arr[0]}[k] == (value >> 8k) & 0xFF", ok_all,
                            "" if ok_all else f"loop `for ({iv} = {cast.show(v.defs[iv][0]) if iv in v.defs and v.defs[iv][0] else '?'}; {cast.show(cond)}; {cast.show(inc)})` "
                            f"with body `{'; '.join(cast.show(b) for b in body)[:80]}` does not fill all eight bytes in little-endian order")]
        return [res(R, name, f"{name}: byte table", False, "no 8-entry byte table found on the endianness-neutral path")]
    n, items = tables[0]
    bad = []
    for k, it in enumerate(items):
        ands = flat("&", it)
        sh = next((a for a in ands if a[0] == "bin" and a[1] == ">>"), None)
        okk = sh is not None and sh[2][0] == "ref" and is_int(sh[3], 8 * k) and any(is_int(a, 255) for a in ands)
        if k == 0 and sh is None:
            okk = any(a[0] == "ref" for a in ands) and any(is_int(a, 255) for a in ands)
        if not okk:
            bad.append(f"entry {k} is `{cast.show(it)}`")
    return [res(R, name, f"{name}: {n}[k] == (value >> 8k) & 0xFF", not bad, "; ".join(bad))]


SHIFT_TYPE_BITS = {"int": 31, "unsigned int": 32, "long": 63, "unsigned long": 64, "long long": 63, "unsigned long long": 64,
                   "unsigned short": 16, "short": 15, "unsigned char": 8}


def shift_width_ok(fn) -> typing.Tuple[bool, str]:
    """every `byte << k` of the reassembly is evaluated in a type that holds k + 8 value bits (a byte promoted to int and
    shifted by 24 reaches the sign bit: the result sign-extends when it is widened to 64 bits)"""
    for r in cast.walk(fn):
        if r.get("kind") != "ReturnStmt":
            continue
        for b in cast.walk(r):
            if b.get("kind") == "BinaryOperator" and b.get("opcode") == "<<":
                rhs = cast.term(b["inner"][1])
                if rhs[0] != "int":
                    continue
                ty = b.get("type", {})
                q = ty.get("desugaredQualType") or ty.get("qualType", "")
                bits = SHIFT_TYPE_BITS.get(q.replace("const ", "").strip())
                if bits is not None and rhs[1] + 8 > bits:
                    return False, (f"`{cast.show(cast.term(b))}` is evaluated as {q} ({bits} value bits) but needs {rhs[1] + 8}: for a byte with its top bit set the "
                                   "shift reaches the sign bit and the widened result has all higher bits set")
    return True, ""


def byte_assembly(R, name, v) -> typing.List[dict]:
    rets = [t for _s, t in v.terms() if t[0] == "un" and t[1] == "return"]
    if not rets:
        return [res(R, name, f"{name}: reassembly", False, "no return")]
    okw, whyw = shift_width_ok(v.fn)
    extra = [res(R, name, f"{name}: every byte is widened before it is shifted into place", okw, whyw)]
    ors = flat("|", rets[-1][2])
    W = name_width(name) or 0
    bad = []
    seen = set()
    for o in ors:
        if o[0] == "idx" and is_int(o[2]):
            k, sh = o[2][1], 0
        elif o[0] == "bin" and o[1] == "<<" and o[2][0] == "idx" and is_int(o[2][2]) and is_int(o[3]):
            k, sh = o[2][2][1], o[3][1]
        else:
            bad.append(f"term `{cast.show(o)}` is not tmp[k] << 8k")
            continue
        seen.add(k)
        if sh != 8 * k:
            bad.append(f"byte {k} is shifted by {sh}")
    if seen != set(range(W // 8)):
        bad.append(f"bytes used {sorted(seen)} != 0..{W // 8 - 1}")
    return [res(R, name, f"{name}: result == OR of tmp[k] << 8k", not bad, "; ".join(bad))] + extra


def rule_family(fns) -> typing.List[dict]:
    R = "R-C14-FAMILY"
    out = []
    for fam, names in (("nunavutGetI<W>", ["nunavutGetI8", "nunavutGetI16", "nunavutGetI32", "nunavutGetI64"]),):
        prints = {}
        for n in names:
            if n not in fns:
                raise AnalysisError(f"anchor missing: {n}")
            W = name_width(n)
            prints[n] = alpha_print(fns[n], width=W, callee_map=lambda s, W=W: re.sub(rf"{W}$", "W", s) if s.startswith("nunavutGet") else s)
        ref = prints[names[-1]]
        for n in names[:-1]:
            if print_shape(prints[n]) != print_shape(ref):
                out.append(res(R, n, f"{n} is {names[-1]} up to the width", True, ""))   # restructured on its own: not comparable, not decided
                continue
            diff = next((f"statement {i}: `{a}` vs `{b}` in {names[-1]}" for i, (a, b) in enumerate(zip(prints[n], ref)) if a != b), None)
            if diff is None and len(prints[n]) != len(ref):
                diff = f"{len(prints[n])} vs {len(ref)} statements"
            out.append(res(R, n, f"{n} is {names[-1]} up to the width", diff is None, diff or ""))
    return out


def rule_errprop(fns) -> typing.List[dict]:
    R = "R-C14-ERRPROP"
    out = []
    for name, fn in fns.items():
        if not re.search(r"Set(Ixx|F16|F32|F64)$", name):
            continue
        v = View(name, fn)
        rets = [t for _s, t in v.terms() if t[0] == "un" and t[1] == "return"]
        ok = bool(rets) and all(r[2][0] == "call" and r[2][1] == "nunavutSetUxx" for r in rets)
        out.append(res(R, name, f"{name}: returns the result of nunavutSetUxx", ok, f"returns `{cast.show(rets[-1][2]) if rets else '-'}`"))
        if ok and name_width(name):
            W = name_width(name)
            ln = rets[-1][2][2][-1]
            fields = {f.get("type", {}).get("qualType", "") for f in cast.walk(fn) if f.get("kind") == "FieldDecl"}
            okw = is_int(ln, W) or (ln[0] == "bin" and ln[1] == "*" and any(x[0] == "sizeof" for x in ln[2:]) and any(is_int(x, 8) for x in ln[2:])
                                    and f"uint{W}_t" in fields)
            out.append(res("R-C14-WIDTH", name, f"{name}: stores {W} bits", okw, f"length argument is `{cast.show(ln)}`"))
    return out


def analyse(ast: dict, text: str, point) -> typing.Tuple[typing.List[dict], typing.Dict[str, typing.List[str]], int]:
    fns = {k: v for k, v in cast.functions(ast).items() if cast.body_of(v) is not None}
    m = re.search(r"#define\s+NUNAVUT_ERROR_SERIALIZATION_BUFFER_TOO_SMALL\s+(\d+)", text)
    if not m:
        raise AnalysisError("anchor missing: NUNAVUT_ERROR_SERIALIZATION_BUFFER_TOO_SMALL")
    errcode = int(m.group(1))
    for need in (COPY, SAT, "nunavutSetBit", "nunavutSetUxx", "nunavutGetU8", "nunavutGetBits"):
        if need not in fns:
            raise AnalysisError(f"anchor missing: {need}")
    out = []
    out += rule_set_bound(fns, errcode)
    out += rule_get(fns)
    out += rule_shift_width(fns)
    out += rule_tail(fns)
    out += rule_rmw(fns)
    out += rule_byte_order(fns, point[0])
    out += rule_family(fns)
    out += rule_errprop(fns)
    out += rule_direct_read(fns)
    for n_, f_ in fns.items():
        out += rule_shift_range(f_, n_)
    prints = {}
    for n in ("nunavutFloat16Pack", "nunavutFloat16Unpack"):
        if n in fns:
            prints[n] = alpha_print(fns[n])
    if "nunavutFloat16Unpack" in fns:
        out += rule_f16_special(fns["nunavutFloat16Unpack"], "nunavutFloat16Unpack")
    if "nunavutFloat16Pack" in fns:
        out += rule_f16_pack_order(fns["nunavutFloat16Pack"], "nunavutFloat16Pack")
    return out, prints, len(fns)


# ---- direct reads of a caller's buffer ------------------------------------------------------------------------------------------
def rule_direct_read(fns) -> typing.List[dict]:
    """R-C14-GET (direct-index clause): outside the bit-copy primitive the readers reach the caller's buffer through nunavutGetBits /
    nunavutCopyBits with a saturated length.  A reader that subscripts its `const uint8_t* buf` parameter itself must keep the index
    below the size parameter on the way to the load: `if (i >= size) return ..;` before it, or a guard `i < size` around it.  `i > size`
    lets i == size through - the first byte past the end is read instead of the implicit zero."""
    from ._c14_common import _cmp_facts  # noqa: F401  (literal bounds are not enough here: variable against variable)
    R = "R-C14-GET-SAT"
    out: typing.List[dict] = []

    def rel_facts(cond, pol):
        c = cast.strip_casts(cond)
        if c.get("kind") == "BinaryOperator" and c.get("opcode") in ("&&", "||"):
            if (c["opcode"] == "&&") == pol:
                return [f for x in c.get("inner", []) for f in rel_facts(x, pol)]
            return []
        if c.get("kind") == "UnaryOperator" and c.get("opcode") == "!":
            return rel_facts(c["inner"][0], not pol)
        if c.get("kind") == "BinaryOperator" and c.get("opcode") in ("<", "<=", ">", ">="):
            a, b = (cast.ref_name(x) for x in c["inner"])
            if a is None or b is None:
                return []
            op = c["opcode"]
            if not pol:
                op = {"<": ">=", "<=": ">", ">": "<=", ">=": "<"}[op]
            if op in (">", ">="):
                a, b, op = b, a, {">": "<", ">=": "<="}[op]
            return [(a, op, b)]
        return []

    def scaled(t, env, depth=0):
        """term -> (name, numerator, denominator) for `x`, `x*8`, `x/8`, `x<<3`, `x>>3` (constant locals resolved)"""
        if t[0] == "ref":
            if t[1] in env and depth < 4:
                r = scaled(env[t[1]], env, depth + 1)
                if r is not None:
                    return r
            return (t[1], 1, 1)
        if t[0] == "bin" and t[1] in ("*", "/", "<<", ">>"):
            l, r = t[2], t[3]
            if t[1] == "*" and l[0] == "int":
                l, r = r, l
            if r[0] != "int":
                return None
            k = r[1] if t[1] in ("*", "/") else (1 << r[1])
            b = scaled(l, env, depth + 1)
            if b is None or k <= 0:
                return None
            name, n_, d_ = b
            if t[1] in ("*", "<<"):
                if d_ != 1:
                    return None          # (x/8)*8 is not x
                return (name, n_ * k, 1)
            if n_ != 1:
                return None
            return (name, 1, d_ * k)
        return None

    def scaled_facts(cond, pol, env):
        c = cast.strip_casts(cond)
        if c.get("kind") == "BinaryOperator" and c.get("opcode") in ("&&", "||"):
            if (c["opcode"] == "&&") == pol:
                return [f for x in c.get("inner", []) for f in scaled_facts(x, pol, env)]
            return []
        if c.get("kind") == "UnaryOperator" and c.get("opcode") == "!":
            return scaled_facts(c["inner"][0], not pol, env)
        if c.get("kind") == "BinaryOperator" and c.get("opcode") in ("<", "<=", ">", ">="):
            a, b = (scaled(cast.term(x), env) for x in c["inner"])
            if a is None or b is None:
                return []
            op = c["opcode"]
            if not pol:
                op = {"<": ">=", "<=": ">", ">": "<=", ">=": "<"}[op]
            if op in (">", ">="):
                a, b, op = b, a, {">": "<", ">=": "<="}[op]
            return [(a, op, b)]
        return []

    def below_size(ix, facts, sizes):
        """is index term ix = (x, 1, d) proved < size by a fact?  x/d < size  <=  x/d < size  or  x < size*d"""
        weak = []
        for a, op, b in facts:
            if a[0] != ix[0] or b[0] not in sizes:
                continue
            # a = x*an/ad, b = size*bn/bd ; for the shapes met: (ad == d, bn == bd == 1) or (an == ad == 1, bn == d, bd == 1)
            same = (a == ix and b[1:] == (1, 1)) or (a[1:] == (1, 1) and b[1:] == (ix[2], 1))
            if not same:
                continue
            if op == "<":
                return True, weak
            weak.append((a, op, b))
        return False, weak

    def show_scaled(x):
        name, n_, d_ = x
        return name + (f" * {n_}" if n_ != 1 else "") + (f" / {d_}" if d_ != 1 else "")

    def always_returns(n):
        k = n.get("kind")
        if k == "ReturnStmt":
            return True
        if k == "CompoundStmt":
            return any(always_returns(x) for x in n.get("inner") or [])
        return False

    for name, fn in fns.items():
        if name == COPY:
            continue
        params = cast.param_types(fn)
        bufs = [p for p, ty in params if re.search(r"const\s+(uint8_t|unsigned char)\s*\*", ty)]
        sizes = [p for p, ty in params if "size" in (p or "") and "*" not in ty]
        if not bufs or not sizes:
            continue
        body = cast.body_of(fn)
        if body is None:
            continue

        cenv = cast.const_env(fn)

        def visit(n, guards, parent=None):
            k = n.get("kind")
            inner = n.get("inner") or []
            if k == "CompoundStmt":
                g = list(guards)
                for st in inner:
                    visit(st, g, n)
                    if st.get("kind") == "IfStmt":
                        parts = [x for x in st.get("inner") or []]
                        if len(parts) == 2 and always_returns(parts[1]):
                            g = g + [(parts[0], False)]      # `if (c) return ..;` - afterwards c is false
                return
            if k == "ConditionalOperator" and len(inner) == 3:
                visit(inner[0], guards, n)
                visit(inner[1], guards + [(inner[0], True)], n)
                visit(inner[2], guards + [(inner[0], False)], n)
                return
            if k == "BinaryOperator" and n.get("opcode") in ("&&", "||") and len(inner) == 2:
                visit(inner[0], guards, n)
                visit(inner[1], guards + [(inner[0], n["opcode"] == "&&")], n)
                return
            if k == "IfStmt" and len(inner) >= 2:
                visit(inner[0], guards, n)
                visit(inner[1], guards + [(inner[0], True)], n)
                for x in inner[2:]:
                    visit(x, guards + [(inner[0], False)], n)
                return
            if k == "ArraySubscriptExpr" and len(inner) == 2 and cast.ref_name(inner[0]) in bufs \
                    and not (parent is not None and parent.get("kind") == "UnaryOperator" and parent.get("opcode") == "&"):
                idx = cast.ref_name(inner[1])
                ix = scaled(cast.term(inner[1]), cenv)
                if ix is not None and (idx is None or ix != (idx, 1, 1)) and ix[1] == 1:
                    # `buf[off_bits / 8U]`, or an index held in a constant local that is such a quotient
                    sfacts = [f for g, pol in guards for f in scaled_facts(g, pol, cenv)]
                    ok, weak = below_size(ix, sfacts, sizes)
                    out.append(res(R, name, f"{name}: direct read `{cast.ref_name(inner[0])}[{show_scaled(ix)}]` only where the index is below {sizes[0]}", ok,
                                   (f"the guards on the way establish only {show_scaled(weak[0][0])} {weak[0][1]} {show_scaled(weak[0][2])}" if weak
                                    else "no guard relates the index to the buffer size") +
                                   ": the byte just past the end of the caller's buffer is read where the specification demands an implicit zero"))
                elif idx is not None:
                    facts = [f for g, pol in guards for f in rel_facts(g, pol)]
                    ok = any(a == idx and op == "<" and b in sizes for a, op, b in facts)
                    weak = [f for f in facts if f[0] == idx and f[2] in sizes]
                    out.append(res(R, name, f"{name}: direct read `{cast.ref_name(inner[0])}[{idx}]` only where {idx} < {sizes[0]}", ok,
                                   (f"the guards on the way establish only {weak[0][0]} {weak[0][1]} {weak[0][2]}" if weak else "no guard relates the index to the buffer size") +
                                   ": the byte just past the end of the caller's buffer is read where the specification demands an implicit zero"))
            for x in inner:
                visit(x, guards, n)

        visit(body, [])
    return out
