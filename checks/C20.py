"""
C20 - generated HTML documentation is well-formed, escaped and internally linked.
Static: autoescape resolution + taint/escape rule on DSDL free-text sinks, per-block tag balance, anchor agreement.
"""
import ast
import re
from html.parser import HTMLParser

from nvsa import j2front, pyfront
from nvsa.j2front import xs
from nvsa.report import AnalysisError

# striptags is not one of them: Markup.striptags() removes literal tags and then *decodes* entities (`&lt;script&gt;` comes out as `<script>`)
ESCAPERS = {"e", "escape", "forceescape", "urlencode", "tojson"}
VOID = {"area", "base", "br", "col", "embed", "hr", "img", "input", "link", "meta", "param", "source", "track", "wbr"}


def autoescape_on(px, template_name: str) -> bool:
    """Evaluate select_autoescape(...) as configured in CodeGenEnvironment.__init__ for a template file name."""
    f = px.func("nunavut.jinja.environment", "CodeGenEnvironment.__init__")
    for c in ast.walk(f.node):
        if isinstance(c, ast.Call) and ast.unparse(c.func).endswith("select_autoescape"):
            kw = {k.arg: k.value for k in c.keywords}
            exts = ast.literal_eval(kw["enabled_extensions"]) if "enabled_extensions" in kw else ("html", "htm", "xml")
            disabled = ast.literal_eval(kw["disabled_extensions"]) if "disabled_extensions" in kw else ()
            default = ast.literal_eval(kw["default"]) if "default" in kw else False
            name = template_name.lower()
            if any(name.endswith("." + e.lower().lstrip(".")) for e in exts):
                return True
            if any(name.endswith("." + e.lower().lstrip(".")) for e in disabled):
                return False
            return bool(default)
    for c in ast.walk(f.node):
        if isinstance(c, ast.keyword) and c.arg == "autoescape":
            if isinstance(c.value, ast.Constant):
                return bool(c.value.value)
    raise AnalysisError("anchor missing: autoescape configuration of CodeGenEnvironment")


def _tainted_sources(N, expr, taint_filters, tainted_vars):
    """sub-expressions of expr that carry DSDL free text"""
    out = []
    for n in [expr] + list(expr.find_all(N.Node)):
        if isinstance(n, N.Getattr) and n.attr == "doc":
            out.append(n)
        elif isinstance(n, N.Getitem) and xs(n.arg) == "'doc'":
            out.append(n)
        elif isinstance(n, N.Filter) and n.name in taint_filters:
            out.append(n)
        elif isinstance(n, N.Name) and n.ctx == "load" and n.name in tainted_vars:
            out.append(n)
    return out


# filters that keep an escaped string escaped (they neither decode entities nor add markup from their input)
KEEPS_ESCAPED = {"trim", "indent", "safe", "string", "wordwrap", "center", "lower", "upper", "capitalize", "title", "truncate", "default", "d",
                 "e", "escape", "forceescape", "remove_blank_lines", "replace"}


def _escaped_on_path(N, root, src) -> bool:
    """does the value of src pass through an escaping filter on its way to the output root, and is it left escaped by everything that
    follows (striptags / unescape-like filters, method calls on the escaped value undo the escape)?"""
    def contains(n, target):
        return n is target or any(c is target for c in n.find_all(N.Node))

    chain = []   # nodes from the output root down to src that enclose src
    cur = root
    while cur is not src:
        chain.append(cur)
        nxt = None
        for c in cur.iter_child_nodes():
            if contains(c, src):
                nxt = c
                break
        if nxt is None:
            return False
        cur = nxt
    # innermost-first: the value flows from src outwards
    escaped = False
    for n in reversed(chain):
        flows_through = isinstance(n, N.Filter) and n.node is not None and contains(n.node, src)
        if flows_through and n.name in ESCAPERS:
            escaped = True
        elif escaped:
            if flows_through and n.name in KEEPS_ESCAPED:
                continue
            if isinstance(n, (N.Concat, N.Add, N.CondExpr, N.Output)):
                continue
            return False   # something processes the escaped text again: it may decode the entities (striptags, unescape, ...)
    return escaped


def rule_escape(ctx, ts, px):
    R = "R-C20-ESCAPE"
    ctx.rule(
        R,
        "where autoescaping is off for an HTML template (select_autoescape keyed on the file name), every output "
        "expression that carries free text from DSDL (.doc, the value of namespace_doc, variables assigned from them) "
        "passes through an escaping filter; Python filters that return markup escape every free-text string they "
        "interpolate",
    )
    N = ts.nodes
    # Python filters of the html module that return a .doc value unescaped are taint sources
    m = px.module("nunavut.lang.html")
    taint_filters = set()
    for name, f in m.funcs.items():
        if not name.startswith("filter_"):
            continue
        returns_doc = False
        for n in ast.walk(f.node):
            if isinstance(n, ast.Attribute) and n.attr == "doc":
                # escaped inside?
                pm = pyfront.parent_map(f.node)
                par = pm.get(id(n))
                esc = isinstance(par, ast.Call) and ast.unparse(par.func) in ("html.escape", "escape", "markupsafe.escape")
                if not esc:
                    returns_doc = True
        if returns_doc:
            taint_filters.add(name[len("filter_"):])
    ctx.unit("python_filters_returning_raw_doc", sorted(taint_filters))
    # filters that hand out free text escaped for *text* context only (quotes left alone), and filters that mark their result as
    # Markup (a later `| e` does nothing to it): such a value is safe between tags, not inside an attribute
    text_only, marked = set(), set()
    for name, f in m.funcs.items():
        if not name.startswith("filter_") or not any(isinstance(n_, ast.Attribute) and n_.attr == "doc" for n_ in ast.walk(f.node)):
            continue
        for c in ast.walk(f.node):
            if isinstance(c, ast.Call) and ast.unparse(c.func) in ("html.escape", "escape") and any(isinstance(x, ast.Attribute) and x.attr == "doc" for x in ast.walk(c)):
                if any(k.arg == "quote" and isinstance(k.value, ast.Constant) and k.value.value is False for k in c.keywords) or \
                        (len(c.args) > 1 and isinstance(c.args[1], ast.Constant) and c.args[1].value is False):
                    text_only.add(name[len("filter_"):])
            if isinstance(c, ast.Call) and ast.unparse(c.func).split(".")[-1] == "Markup":
                marked.add(name[len("filter_"):])
    doc_filters = {name[len("filter_"):] for name, f in m.funcs.items() if name.startswith("filter_")
                   and any(isinstance(n_, ast.Attribute) and n_.attr == "doc" for n_ in ast.walk(f.node))}
    n = 0
    for t in ts.of_lang("html", "templates"):
        auto = autoescape_on(px, t.name)
        # variables assigned from tainted expressions (one level)
        tainted_vars = set()
        for a in t.ast.find_all(N.Assign):
            if isinstance(a.target, N.Name) and _tainted_sources(N, a.node, taint_filters, set()):
                if not all(_escaped_on_path(N, a.node, s) for s in _tainted_sources(N, a.node, taint_filters, set())):
                    tainted_vars.add(a.target.name)
        for node, stack in j2front.walk(t.ast):
            if not isinstance(node, N.Output):
                continue
            before = ""
            for e in node.nodes:
                if isinstance(e, N.TemplateData):
                    before += e.data
                    continue
                # attribute context: the static text since the last `<` leaves a quote open
                tail = before[before.rfind("<"):] if "<" in before else ""
                in_attr = bool(tail) and ">" not in tail and (tail.count('"') % 2 == 1 or tail.count("'") % 2 == 1)
                before += "X"
                for src in [x for x in [e] + list(e.find_all(N.Filter)) if isinstance(x, N.Filter) and x.name in doc_filters and x.name not in taint_filters]:
                    # free text that the Python filter escaped itself
                    n += 1
                    if in_attr:
                        ok = src.name not in text_only and not (src.name in marked and src.name in text_only)
                        ok = ok and not (src.name in text_only)
                    else:
                        ok = True
                    ctx.ob(R, t.rel, f"{xs(src)} in {{{{ {xs(e)} }}}} @ {j2front.construct_path(stack)}", ok,
                           "escaped by the filter itself" if ok else
                           f"`{src.name}` escapes its text with quote=False" + (" and marks it as Markup, so `| e` leaves it alone" if src.name in marked else "") +
                           ": inside an attribute value a double quote in the DSDL comment ends the attribute and the rest of the comment is parsed as further attributes",
                           getattr(e, "lineno", None))
                for src in _tainted_sources(N, e, taint_filters, tainted_vars):
                    # a source used only as the test of a conditional expression is not output
                    if isinstance(e, N.CondExpr) and any(x is src for x in [e.test] + list(e.test.find_all(N.Node))):
                        continue
                    n += 1
                    ok = auto or _escaped_on_path(N, e, src)
                    ctx.ob(R, t.rel, f"{xs(src)} in {{{{ {xs(e)} }}}} @ {j2front.construct_path(stack)}", ok,
                           ("autoescape is on for this template" if auto else "escaped") if ok else
                           f"autoescape is off for `{t.name}` (enabled only for .htm/.html/.xml/.json names) and the DSDL free text "
                           f"{xs(src)} is emitted without an escaping filter: `<script>` in a DSDL comment arrives as markup",
                           getattr(e, "lineno", None))
    ctx.floor(R, n, 4)
    # markup-building Python filters: every str.format / f-string argument that is not identifier-shaped must be escaped
    IDENT_ATTRS = {"name", "short_name", "full_name", "capacity", "version", "value", "root_namespace", "fixed_port_id", "bit_length"}
    for fname in ("filter_display_type", "filter_make_unique"):
        f = m.funcs.get(fname)
        if f is None:
            raise AnalysisError(f"anchor missing: {fname}")
        bad = []
        for n2 in ast.walk(f.node):
            if isinstance(n2, ast.Attribute) and n2.attr in ("doc", "text", "comment"):
                bad.append(ast.unparse(n2))
        ctx.ob(R, m.rel, f"{f.short} :: interpolates no DSDL free text", not bad, "" if not bad else f"interpolates {bad} into markup", f.node.lineno)
    mu = m.funcs["filter_make_unique"]
    ok = any(isinstance(c, ast.Call) and ast.unparse(c.func) == "html.escape" for c in ast.walk(mu.node))
    ctx.ob(R, m.rel, f"{mu.short} :: escapes the caller-supplied token", ok, "", mu.node.lineno)


class _Bal(HTMLParser):
    def __init__(self):
        super().__init__(convert_charrefs=False)
        self.stack = []
        self.errors = []

    def handle_starttag(self, tag, attrs):
        if tag not in VOID:
            self.stack.append(tag)

    def handle_startendtag(self, tag, attrs):
        pass

    def handle_endtag(self, tag):
        if tag in VOID:
            return
        if not self.stack:
            self.errors.append(f"</{tag}> without opening tag")
        elif self.stack[-1] != tag:
            self.errors.append(f"</{tag}> closes <{self.stack[-1]}>")
            if tag in self.stack:
                while self.stack and self.stack[-1] != tag:
                    self.stack.pop()
                self.stack.pop()
        else:
            self.stack.pop()


def _body_text(N, body):
    """static markup of a block body: expressions -> placeholder, nested block statements -> nothing"""
    out = []
    for n in body:
        if isinstance(n, N.Output):
            for e in n.nodes:
                out.append(e.data if isinstance(e, N.TemplateData) else "X")
        # nested If/For/Macro/CallBlock/Include/...: balanced on their own (checked separately) -> contribute nothing
    return "".join(out)


def rule_balance(ctx, ts):
    R = "R-C20-BALANCE"
    ctx.rule(
        R,
        "in every HTML template the static markup of each Jinja block body (template top level, macro, every if/elif/"
        "else branch, for body) is balanced on its own - sufficient for balanced, properly nested output on every path",
    )
    N = ts.nodes
    n = 0
    for t in ts.of_lang("html", "templates"):
        bodies = [("<top>", t.ast.body)]
        for node, stack in j2front.walk(t.ast):
            p = j2front.construct_path(stack)
            if isinstance(node, N.Macro):
                bodies.append((f"macro {node.name}", node.body))
            elif isinstance(node, N.If):
                bodies.append((f"{p} > if {xs(node.test)[:50]}", node.body))
                for i, e in enumerate(node.elif_):
                    bodies.append((f"{p} > elif {xs(e.test)[:50]}", e.body))
                if node.else_:
                    bodies.append((f"{p} > else-of {xs(node.test)[:50]}", node.else_))
            elif isinstance(node, N.For):
                bodies.append((f"{p} > for {xs(node.target)} in {xs(node.iter)[:50]}", node.body))
            elif isinstance(node, (N.Block, N.CallBlock, N.FilterBlock)):
                bodies.append((f"{p} > {type(node).__name__.lower()}", node.body))
        for label, body in bodies:
            text = _body_text(N, body)
            if "<" not in text:
                continue
            n += 1
            b = _Bal()
            try:
                b.feed(text)
                b.close()
            except Exception as e:  # pragma: no cover
                b.errors.append(f"tokenizer: {e}")
            problems = b.errors + ([f"unclosed <{x}>" for x in b.stack] if b.stack else [])
            ctx.ob(R, t.rel, f"block {label}", not problems,
                   "" if not problems else "; ".join(problems[:4]) + ": the page is unbalanced on the paths through this block")
    ctx.floor(R, n, 15)


def _attr_templates(N, t, attr_rx):
    """attribute value templates like id="..." in a template: list of (normalised string, lineno, stack)"""
    out = []
    for node, stack in j2front.walk(t.ast):
        if not isinstance(node, N.Output):
            continue
        parts = node.nodes
        s = ""
        for e in parts:
            s += e.data if isinstance(e, N.TemplateData) else "\x01" + xs(e) + "\x02"
        for m in re.finditer(attr_rx, s):
            out.append((m.group(1), node.lineno, stack))
    return out


def rule_anchor(ctx, ts, px):
    R = "R-C20-ANCHOR"
    ctx.rule(
        R,
        "the fragment built by filter_url_from_type is the same expression as the id built by filter_tag_id for "
        "composites, and every in-page reference (href=\"#...\", data-target=\"#...\", aria-controls) in the templates "
        "uses an id expression that some element's id= attribute emits",
    )
    m = px.module("nunavut.lang.html")
    tag = m.funcs.get("filter_tag_id")
    url = m.funcs.get("filter_url_from_type")
    if tag is None or url is None:
        raise AnalysisError("anchor missing: filter_tag_id / filter_url_from_type")
    # composite branch of tag_id: the return not under the ArrayType test
    comp_ret = None
    for st, gd in pyfront.walk_guarded(tag.node.body):
        if isinstance(st, ast.Return) and not any("ArrayType" in e and p for e, p in pyfront.guard_terms(gd)):
            comp_ret = st.value
    if comp_ret is None:
        raise AnalysisError("anchor missing: composite branch of filter_tag_id")
    uparam = url.node.args.args[0].arg
    tparam = tag.node.args.args[0].arg
    from nvsa import symstr
    rets = [(r, gd) for r, gd in pyfront.walk_guarded(url.node.body) if isinstance(r, ast.Return) and r.value is not None]
    url_alts = []
    for r, gd in rets:
        conds0 = tuple(pyfront.guard_terms([(pyfront.subst_locals(url.node, t), p) for t, p in gd]))
        for c, pcs in symstr.sym(px, url, r.value):
            url_alts.append((conds0 + c, symstr.render(pcs, uparam)))
    tag_alts = [symstr.render(pcs, tparam) for c, pcs in symstr.sym(px, tag, comp_ret)]
    ok_ret = bool(url_alts) and all(a.count("#") == 1 for _c, a in url_alts)
    ctx.ob(R, m.rel, "filter_url_from_type returns <page part>#<fragment>", ok_ret, "" if ok_ret else f"return shape not recognised: {[a for _c, a in url_alts]}", url.node.lineno)
    if ok_ret:
        hard = sorted({h for _c, a in url_alts for h in re.findall(r"[\w-]+\.\w+", re.sub(r"\{[^}]*\}", "", a.split("#")[0]))})
        ctx.ob(R, m.rel, "filter_url_from_type does not hard-code the name of the namespace page", not hard,
               "" if not hard else f"the link names the page file {hard}: the page written for a namespace is <namespace_file_stem><extension> from the "
               "configuration (--output-extension, namespace_file_stem), so the link dangles whenever those are not the defaults", url.node.lineno)
        # the fragment is the id filter_tag_id emits for a composite; for the request/response of a service (which have no entry of their
        # own) it is the id of the service: the same expression with the type's name reduced to its parent
        PARENT = re.compile(r"<T>\.full_name\.r(?:split\('\.', 1\)\[0\]|partition\('\.'\)\[0\])")
        same, svc, detail = True, False, ""
        for conds, a in url_alts:
            frag = a.split("#", 1)[1]
            via_tag = re.fullmatch(r"\{filter_tag_id\((.*)\)\}", frag)
            is_child = any("has_parent_service" in e and p for e, p in conds)
            if via_tag:
                arg = via_tag.group(1)
                good = arg == "<T>" or (is_child and "parent_service" in arg)
                svc = svc or (is_child and "parent_service" in arg)
            else:
                reduced = PARENT.sub("<T>.full_name", frag) if is_child else frag
                good = reduced in tag_alts
                svc = svc or (is_child and PARENT.search(frag) is not None)
            if not good:
                same, detail = False, f"url fragment is `{frag}` (under {list(conds)}) but the element id is `{' | '.join(tag_alts)}`: links point at anchors that do not exist"
        ctx.ob(R, m.rel, "filter_url_from_type fragment == filter_tag_id (composite)", same, detail, url.node.lineno)
        ctx.ob(R, m.rel, "filter_url_from_type: a service's request/response link to the service's entry (they have no top-level entry of their own)", svc,
               "" if svc else "the anchor <ns>_<Service>_Request_<v> is never emitted (nested entries get a uniquified id): links to request/response types dangle",
               url.node.lineno)
    # the link is relative to the page that contains it: one '../' per namespace level of that page.  Decided on the rendered text
    # paths of every macro / template body, with template variables resolved per path: every href that is derived from
    # url_from_type is exactly <depth prefix><url> - no in-page shortcut, no re-assembled fragment
    from nvsa import j2text
    N = ts.nodes
    nlink = 0
    seen_links = set()
    for t in ts.of_lang("html", "templates"):
        bodies = [("<top>", [n for n in t.ast.body if not isinstance(n, N.Macro)])] + [(nm, mc.body) for nm, mc in ts.macros(t).items()]
        for where, body in bodies:
            try:
                paths = j2text.render_paths(N, body, limit=20000, macros=ts.macros(t))
            except AnalysisError:
                raise AnalysisError(f"{t.rel}:{where}: too many static text paths to decide the link rule")
            for p in paths:
                ph = dict(p.ph)
                for mm in re.finditer(r'href="([^"]*)"', p.text):
                    v = mm.group(1)
                    names = re.findall(r"Pz\d+z", v)
                    keys = [ph.get(x, x) for x in names]
                    if not any("url_from_type" in k for k in keys):
                        continue
                    # a placeholder that is still a bare template variable stands for what the variable is bound to on this path
                    for i_, k_ in enumerate(keys):
                        if re.fullmatch(r"\w+", k_) and p.binding(k_) is not None:
                            with j2front.xs_with(j2text._sub_of(N, p)):
                                keys[i_] = xs(p.binding(k_))
                    kmap = dict(zip(names, keys))
                    shown = re.sub(r"Pz\d+z", lambda m_: "{" + kmap.get(m_.group(0), "?") + "}", v)
                    if (t.rel, where, shown) in seen_links:
                        continue
                    seen_links.add((t.rel, where, shown))
                    nlink += 1
                    ok = len(names) == 2 and v == names[0] + names[1] and re.fullmatch(r"\((?:[\w.]+) \| url_from_type\)", keys[1]) is not None \
                        and "'../'" in keys[0] and re.search(r"\bT\b", keys[0]) is not None and "url_from_type" not in keys[0]
                    ctx.ob(R, t.rel, f"href built from url_from_type is <depth of the containing page><url> @ {where}: {shown[:90]}", ok,
                           "" if ok else "url_from_type yields '../<root namespace>/#<id>': only that URL, prefixed with one '../' per namespace level of the page, "
                           "reaches the entry from every page; a bare '#<id>' (or the URL without prefix) dangles on the pages of nested namespaces, which carry "
                           "only the anchors of their own subtree", None)
    ctx.floor(R + ":links", nlink, 1)
    # the depth prefix is added where the link is printed - by the templates.  Python code that calls the url filter to build markup of
    # its own hands out the bare `../<page>/#id`, which is right on the root page only
    callers = []
    for g in px.all_funcs:
        if g.module is m and g is not url:
            for c_ in ast.walk(g.node):
                if isinstance(c_, ast.Call) and isinstance(c_.func, ast.Name) and c_.func.id == url.name:
                    callers.append((g, c_))
    ctx.ob(R, m.rel, "filter_url_from_type is used through the templates only (which add one '../' per namespace level of the page)", not callers,
           "" if not callers else f"{callers[0][0].short} builds a link from it without the page-depth prefix: on the page of a nested namespace the link "
           "resolves below that page's folder, to a page that is never generated", callers[0][1].lineno if callers else url.node.lineno)
    # the page a link names holds the entry: a link to the root namespace's page relies on that page listing the whole tree; a link to
    # the page of the type's own namespace relies on every namespace page listing its types - a page that is only written in full
    # for the root namespace leaves those anchors undefined
    nst = ts.get("html", "Namespace.j2")
    root_only = []
    for node, stack in j2front.walk(nst.ast, (), N):
        if isinstance(node, N.Call) and isinstance(node.node, N.Name) and node.node.name in ("generate_namespace_info", "generate_type_info", "generate_sidebar"):
            for e_, pol_ in j2front.facts(stack):
                if "get_root_namespace" in e_ or "T.parent" in e_ or "get_parent" in e_:
                    root_only.append((e_, pol_, node.lineno))
    page_is_root = bool(url_alts) and all("root_namespace" in a_.split("#")[0] for _c, a_ in url_alts)
    ok_pg = page_is_root or not root_only
    ctx.ob(R, m.rel, "the page named by filter_url_from_type lists the entry the link points to", ok_pg,
           "" if ok_pg else f"links name the page `{url_alts[0][1].split('#')[0]}` of a nested namespace, but Namespace.j2 writes the entries only under "
           f"`{root_only[0][0]}` (template line {root_only[0][2]}): on the other pages the anchor does not exist", url.node.lineno)
    # in-page references vs ids
    ids = set()
    refs = []
    var_defs = {}
    for t in ts.of_lang("html", "templates"):
        for a in t.ast.find_all(N.Assign):
            if isinstance(a.target, N.Name):
                var_defs.setdefault(a.target.name, set()).add(xs(a.node))
        for v, ln, st in _attr_templates(N, t, r'\bid="([^"]*)"'):
            ids.add(v)
        for v, ln, st in _attr_templates(N, t, r'\b(?:href|data-target|data-bs-target)="#([^"]*)"'):
            refs.append((t, v, ln, st))
        for v, ln, st in _attr_templates(N, t, r'\baria-controls="([^"]*)"'):
            refs.append((t, v, ln, st))
    def canon(v):
        """alternatives of an attribute-value template with template variables replaced by what they are set to (one level)
        and the name of the type variable abstracted - so that `type_tag_id` set from `t | tag_id` in one macro and
        `type | tag_id` written inline in another are the same id expression"""
        alts = {v}
        for name, defs in var_defs.items():
            for a in list(alts):
                if "\x01" + name + "\x02" in a:
                    for d in defs:
                        alts.add(a.replace("\x01" + name + "\x02", "\x01" + d + "\x02"))
        return {re.sub(r"(?<![\w.])(t|type|T)(?![\w])", "<T>", a) for a in alts}

    id_canon = set()
    for i_ in ids:
        id_canon |= canon(i_)
    n = 0
    for t, v, ln, st in refs:
        if v == "" or "\x01" not in v and v in ("",):
            continue
        n += 1
        ok = v in ids or bool(canon(v) & id_canon)
        ctx.ob(R, t.rel, f"reference #{_pretty(v)} @ {j2front.construct_path(st)}", ok,
               "an element with this id expression is emitted" if ok else "no element emits an id built by this expression", ln)
    ctx.floor(R, n, 6)


def _pretty(v):
    return v.replace("\x01", "{{").replace("\x02", "}}")


def _is_permutation(px, f, pname, depth=0):
    """(verdict, reason) - verdict True: every value f returns holds each element of its parameter `pname` exactly once;
    False: a construct that can drop or merge elements was found; None: not understood"""
    node = f.node
    assigns = {}
    for n in ast.walk(node):
        if isinstance(n, (ast.Assign, ast.AnnAssign)) and n.value is not None:
            for t in (n.targets if isinstance(n, ast.Assign) else [n.target]):
                if isinstance(t, ast.Name):
                    assigns.setdefault(t.id, []).append(n.value)
    LOSSY_METHODS = {"append", "remove", "pop", "clear", "insert", "extend", "discard", "add", "update", "setdefault", "popitem"}

    def perm(e, seen=()):
        if isinstance(e, ast.Name):
            if e.id == pname:
                return True, ""
            if e.id in seen or e.id not in assigns:
                return None, f"`{e.id}` is not derived from `{pname}`"
            # a local: assigned once from a permutation and afterwards only sorted / reversed in place
            for c in ast.walk(node):
                if isinstance(c, ast.Call) and isinstance(c.func, ast.Attribute) and isinstance(c.func.value, ast.Name) and c.func.value.id == e.id \
                        and c.func.attr in LOSSY_METHODS:
                    return None, f"`{e.id}` is filled element by element"
                if isinstance(c, (ast.Subscript,)) and isinstance(c.ctx, (ast.Store, ast.Del)) and isinstance(c.value, ast.Name) and c.value.id == e.id:
                    kind = assigns[e.id][0]
                    if isinstance(kind, ast.Dict) or (isinstance(kind, ast.Call) and ast.unparse(kind.func) in ("dict", "collections.OrderedDict", "OrderedDict", "set")):
                        return False, (f"the elements are collected in the mapping `{e.id}` under `{ast.unparse(c.slice)}`: elements with equal keys "
                                       "replace each other, and the result is shorter than the input")
                    return None, f"`{e.id}` is written by subscript"
            if len(assigns[e.id]) != 1:
                return None, f"`{e.id}` is assigned more than once"
            return perm(assigns[e.id][0], seen + (e.id,))
        if isinstance(e, ast.Call):
            fn = ast.unparse(e.func)
            if fn in ("sorted", "list", "tuple", "reversed") and e.args:
                return perm(e.args[0], seen)
            if fn in ("set", "frozenset", "dict", "dict.fromkeys") and e.args:
                return False, f"`{fn}(...)` merges equal elements"
            for h in px.resolve_call(f, e, by_name_fallback=False):
                if h.module is f.module and e.args and depth < 3:
                    hp = [a.arg for a in h.node.args.args if a.arg not in ("self", "cls")]
                    ok_arg, why_arg = perm(e.args[0], seen)
                    if ok_arg is not True:
                        return ok_arg, why_arg
                    return _is_permutation(px, h, hp[0], depth + 1)
            return None, f"call `{ast.unparse(e)[:60]}` not understood"
        if isinstance(e, (ast.ListComp, ast.GeneratorExp)):
            if len(e.generators) != 1:
                return None, "nested comprehension"
            g = e.generators[0]
            if g.ifs:
                return False, f"the comprehension filters its input (`if {ast.unparse(g.ifs[0])}`)"
            it = g.iter
            if isinstance(it, ast.Call) and isinstance(it.func, ast.Attribute) and it.func.attr in ("values", "items", "keys") and isinstance(it.func.value, ast.Name):
                return perm(it.func.value, seen)
            return perm(it, seen)
        if isinstance(e, ast.Subscript) and isinstance(e.slice, ast.Slice):
            sl = e.slice
            if sl.lower is None and sl.upper is None:
                return perm(e.value, seen)
            return False, f"the slice `{ast.unparse(e)}` drops elements"
        if isinstance(e, (ast.DictComp, ast.SetComp, ast.Dict, ast.Set)):
            return False, "a set / mapping keyed by a computed value merges elements with equal keys"
        return None, f"`{ast.unparse(e)[:60]}` not understood"

    rets = [r for r in ast.walk(node) if isinstance(r, ast.Return) and r.value is not None and
            not any(r in ast.walk(inner) for inner in ast.walk(node) if isinstance(inner, (ast.FunctionDef, ast.Lambda)) and inner is not node)]
    if not rets:
        return None, "no return"
    for r in rets:
        ok, why = perm(r.value)
        if ok is not True:
            return ok, why
    return True, ""


def rule_listing(ctx, px, ts=None):
    R = "R-C20-LISTING"
    ctx.rule(
        R,
        "the sort filters that order the types and namespaces of a page return every element of their input exactly once "
        "(sorted(...) / in-place sort / an unfiltered comprehension over it): a type dropped from the listing gets no element and "
        "no id, while url_from_type still emits links to it",
    )
    m = px.module("nunavut.lang.html")
    n = 0
    for name, f in sorted(m.funcs.items()):
        if not name.startswith("filter_natural_sort"):
            continue
        n += 1
        params = [a.arg for a in f.node.args.args]
        ok, why = _is_permutation(px, f, params[0])
        if ok is None:
            raise AnalysisError(f"anchor changed: how {name} builds its result ({why})")
        ctx.ob(R, m.rel, f"{name} :: returns a permutation of its input", ok, why, f.node.lineno)
    ctx.floor(R, n, 2)
    # ... and the templates walk the whole namespace tree: a macro that renders a namespace calls itself for every nested namespace -
    # the loop over get_nested_namespaces() carries no filter and the recursive call sits under no condition.  A namespace that is
    # skipped (e.g. because it has no types of its own) takes its whole sub-tree off the page, ids included.
    if ts is None:
        return
    N = ts.nodes
    k = 0
    for t in ts.of_lang("html", "templates"):
        for mac in t.ast.find_all(N.Macro):
            for node, stack in j2front.walk(mac):
                if not (isinstance(node, N.For) and "get_nested_namespaces" in xs(node.iter)):
                    continue
                rec = [c for c in node.find_all(N.Call) if isinstance(c.node, N.Name) and c.node.name == mac.name]
                if not rec:
                    continue
                k += 1
                conds = []
                if node.test is not None:
                    conds.append(f"loop filter `{xs(node.test)}`")
                for sub, st2 in j2front.walk(node):
                    if any(sub is r_ for r_ in rec):
                        conds += [f"`{e_}`" for e_, _p in j2front.facts(st2)]
                ok = not conds
                ctx.ob(R, t.rel, f"{mac.name} :: recurses into every nested namespace", ok,
                       "" if ok else f"the recursion is subject to {conds}: a namespace that fails it is left out together with everything below it - the types there get "
                       "no element and no id on the page, while links to them are still generated", node.lineno)
    ctx.floor(R + ":recursion", k, 2)


def run(ctx):
    ctx.explanation = (
        "C20 is decided on the HTML templates and the html language module: autoescaping is resolved statically from "
        "the select_autoescape arguments and the template file names; every output of DSDL free text must then pass "
        "an escaping filter; the static markup of every Jinja block body is tokenised with html.parser and must be "
        "balanced on its own; anchors built by url_from_type / tag_id and the id / href expressions of the templates "
        "must agree.  Complete generated pages are not parsed."
    )
    ctx.declined = ["well-formedness of complete pages for all inputs (needs an HTML parser over output)",
                    "link targets across separately generated root namespaces and the page-depth assumption of url_from_type"]
    ts = j2front.TemplateSet(ctx.root)
    px = pyfront.PyIndex(ctx.root)
    rule_escape(ctx, ts, px)
    rule_balance(ctx, ts)
    rule_anchor(ctx, ts, px)
    rule_listing(ctx, px, ts)
