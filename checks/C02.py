"""
C02 - generated deserializers decode every byte string as the specification prescribes.
Static: dispatch exhaustiveness, bounded raw reads with zeroing else, representation checks before use, nested object
bounded by the delimiter header, consumed size = min(cursor, capacity).
"""
import re

from checks import C01, _codec
from checks._codec import Codec, events, macro_placeholders, unplaceholder
from nvsa import j2front, pyfront
from nvsa.j2front import xs
from nvsa.report import AnalysisError


def _enclosing_if(text, pos):
    """condition text of the innermost `if (...) {` block containing pos, and the text of its else block (or None)"""
    depth = 0
    i = pos
    while i >= 0:
        ch = text[i]
        if ch == "}":
            depth += 1
        elif ch == "{":
            if depth == 0:
                # find the `if (...)` before this brace
                head = text[:i].rstrip()
                if head.endswith(")"):
                    j = len(head) - 1
                    d = 0
                    while j >= 0:
                        if head[j] == ")":
                            d += 1
                        elif head[j] == "(":
                            d -= 1
                            if d == 0:
                                break
                        j -= 1
                    kw = head[:j].rstrip()
                    if kw.endswith("if"):
                        cond = head[j:]
                        # matching close brace of this block
                        k = i
                        d2 = 0
                        while k < len(text):
                            if text[k] == "{":
                                d2 += 1
                            elif text[k] == "}":
                                d2 -= 1
                                if d2 == 0:
                                    break
                            k += 1
                        rest = text[k + 1:].lstrip()
                        els = None
                        if rest.startswith("else"):
                            r2 = rest[4:].lstrip()
                            if r2.startswith("{"):
                                e = 0
                                for q, c2 in enumerate(r2):
                                    if c2 == "{":
                                        e += 1
                                    elif c2 == "}":
                                        e -= 1
                                        if e == 0:
                                            els = r2[1:q]
                                            break
                        return cond, els
                return None, None
            depth -= 1
        i -= 1
    return None, None


def rule_bounded_read(ctx, cd):
    R = "R-C02-BOUNDED-READ"
    ctx.rule(
        R,
        "C: every dereferencing read of the input buffer in deserialization.j2 (`buffer[..]` not under `&`) lies in the "
        "then-branch of a comparison of the cursor (plus the field length) against capacity_bits, and the matching else "
        "assigns the zero value (implicit zero extension); every other read goes through a support getter that receives "
        "`&buffer[0], capacity_bytes, offset_bits` - the routine's own buffer, size and cursor. C++: type templates never "
        "index a buffer themselves (every read is a const_bitspan getter)",
    )
    t = cd.tmpl("c", "des")
    n_raw = n_get = 0
    for mname in sorted(cd.ts.macros(t)):
        seen = set()
        for p in cd.paths("c", "des", mname):
            text = cd.text("c", p)
            for m in re.finditer(r"(?<![&\w])buffer\[([^\]]*)\]", text):
                key = ("raw", m.group(0), tuple(c for c in p.conds))
                n_raw += 1
                cond, els = _enclosing_if(text, m.start())
                label = " & ".join(("" if pol else "not ") + c for c, pol in p.conds)[-70:] or "always"
                okc = cond is not None and "capacity_bits" in cond and "offset_bits" in cond and any(op in cond for op in ("<=", "<", ">=", ">"))
                if okc:
                    # orientation: the cursor side must be the smaller one
                    c2 = cond.replace(" ", "")
                    mlt = re.search(r"offset_bits[^<>]*<=?capacity_bits|capacity_bits>=?\(?offset_bits", c2)
                    okc = mlt is not None
                    if okc:
                        # ... and by the right amount: the cursor strictly below the capacity, or cursor + (a positive number of
                        # bits) not above it.  `offset_bits <= capacity_bits` lets the byte behind the buffer be read when the
                        # cursor stands at its end
                        strict = re.search(r"(?<![+\w])\(?offset_bits\)?<capacity_bits|capacity_bits>\(?offset_bits\)?(?![+\w])", c2)
                        plus = re.search(r"\(?offset_bits\+(\w+)\)?<=capacity_bits|capacity_bits>=\(?offset_bits\+(\w+)\)?", c2)
                        okc = strict is not None
                        if not okc and plus is not None:
                            k = plus.group(1) or plus.group(2)
                            mk = re.fullmatch(r"(\d+)U?L?L?", k)
                            mp_ = re.fullmatch(r"(Pz\d+z)U?L?L?", k)
                            okc = (mk is not None and int(mk.group(1)) >= 1) or (mp_ is not None and (p.xs_of(mp_.group(1)) or "") in ("t.bit_length",))
                okz = els is not None and re.search(r"= ?(0U?|Pz\d+z) ?;", els) is not None
                if okz and els is not None:
                    mm = re.search(r"= ?(Pz\d+z) ?;", els)
                    if mm:
                        okz = (p.xs_of(mm.group(1)) or "") in ("valuetoken_false", "0")
                ctx.ob(R, t.rel, f"c: {mname} [{label}]: raw read {m.group(0)} is under a cursor-vs-capacity test", okc,
                       "" if okc else f"enclosing condition: {cond}: bytes beyond the supplied buffer can be read")
                ctx.ob(R, t.rel, f"c: {mname} [{label}]: the else branch assigns zero", okz,
                       "" if okz else "missing data is not read as zero")
            for m in re.finditer(r"\b(nunavutGet\w+) ?\(([^;]*?)\);", text):
                args = [a.strip() for a in _split_args(m.group(2))]
                key = (m.group(1), tuple(args[:4]))
                if key in seen:
                    continue
                seen.add(key)
                n_get += 1
                if m.group(1) == "nunavutGetBits":
                    ok = len(args) == 5 and args[1:4] == ["&buffer[0]", "capacity_bytes", "offset_bits"]
                else:
                    ok = len(args) >= 3 and args[0:3] == ["&buffer[0]", "capacity_bytes", "offset_bits"]
                ctx.ob(R, t.rel, f"c: {mname}: {m.group(1)} receives (&buffer[0], capacity_bytes, offset_bits)", ok,
                       "" if ok else f"arguments {args}: the getter is told a different buffer, size or cursor than the routine was given")
    # anchor: every path of the scalar emitters contains a read the rule recognises (raw index or support getter) - how many of
    # each kind there are is the template's business (a raw read replaced by a getter call is still a judged read)
    n_paths = n_seen = 0
    for mname in ("_deserialize_boolean", "_deserialize_integer", "_deserialize_float"):
        for p in cd.paths("c", "des", mname):
            text = cd.text("c", p)
            n_paths += 1
            if re.search(r"(?<![&\w])buffer\[([^\]]*)\]", text) or re.search(r"\bnunavutGet\w+ ?\(", text):
                n_seen += 1
    ctx.floor(R + ":scalar-paths", n_paths, 5)
    ctx.floor(R + ":scalar-reads", n_seen, n_paths)
    ctx.floor(R + ":reads", n_raw + n_get, 5)
    tc = cd.tmpl("cpp", "des")
    raw = []
    for mname in sorted(cd.ts.macros(tc)):
        for p in cd.paths("cpp", "des", mname):
            text = cd.text("cpp", p)
            if re.search(r"\b(buffer|data_?)\[|aligned_ptr|aligned_ref|\.data\(\)", text):
                raw.append(mname)
    ctx.ob(R, tc.rel, "cpp: no raw buffer indexing in the type templates", not raw, "" if not raw else f"raw access in {sorted(set(raw))}")


def _split_args(s):
    out, d, cur = [], 0, ""
    for ch in s:
        if ch in "([":
            d += 1
        elif ch in ")]":
            d -= 1
        if ch == "," and d == 0:
            out.append(cur)
            cur = ""
        else:
            cur += ch
    if cur.strip():
        out.append(cur)
    return out


def rule_repr_err(ctx, cd):
    R = "R-C02-REPR-ERR"
    ctx.rule(
        R,
        "(i) the array length is read, compared with the capacity and rejected before any element access or bulk copy "
        "that uses it; (ii) the union tag chain covers the unfiltered field list and ends in an error else; (iii) the "
        "delimiter header is read and compared with the remaining size, with an error return, before the nested "
        "deserializer is called; (iv) the cursor advances by the stored header value, not by what the nested call "
        "consumed. Python: the same checks raise _des_.FormatError",
    )
    N = cd.N
    for lang in ("c", "cpp"):
        t = cd.tmpl(lang, "des")
        k = 0
        for p in cd.paths(lang, "des", "_deserialize_variable_length_array"):
            k += 1
            text = cd.text(lang, p)
            ev = events(text, lang, macro_placeholders(p))
            label = " & ".join(c for c, pol in p.conds if pol and "element_type" in c)[-70:] or "general"
            prefix = [e for e in ev if e[1] == "macro" and e[2] == "_deserialize_integer"]
            errs = [e for e in ev if e[1] == "ret_err" and "ARRAYLENGTH" in e[2].upper().replace("_", "")]
            uses = [e for e in ev if (e[1] == "call" and "GetBits" in e[2]) or (e[1] == "macro" and e[2] == "_deserialize_any")]
            loop = [m.start() for m in re.finditer(r"\bfor ?\(", text)] + [m.start() for m in re.finditer(r"\.reserve\(|\.resize\(|push_back", text)]
            first_use = min([u[0] for u in uses] + loop) if (uses or loop) else None
            ok = bool(prefix) and bool(errs) and prefix[0][0] < errs[0][0] and (first_use is None or errs[0][0] < first_use)
            ctx.ob(R, t.rel, f"{lang}: array length is read, then rejected if above capacity, before it is used [{label}]", ok,
                   "" if ok else "the length is used (loop bound / bulk copy / reserve) before it has been validated")
            cap = p.name_of("t.capacity")
            m = re.search(r"if \( ?(\S+?)(\.count)? > (Pz\d+z)U? ?\)", text)
            okc = m is not None and m.group(3) == cap
            ctx.ob(R, t.rel, f"{lang}: the bound is t.capacity [{label}]", okc, "" if okc else "comparison against another bound")
        ctx.floor(R + f":{lang}-vla", k, 1)
        # union
        impl = cd.macro(lang, "des", "_deserialize_impl")
        union_loops = []
        for node, stack in j2front.walk(impl):
            if isinstance(node, N.For) and xs(node.iter) == "t.inner_type.iterate_fields_with_offsets()" and \
                    ("(t.inner_type is UnionType)", True) in j2front.facts(stack):
                union_loops.append(node)
        ok = len(union_loops) == 1 and union_loops[0].test is None
        ctx.ob(R, t.rel, f"{lang}: union deserialization iterates every option (unfiltered)", ok, "", impl.lineno)
        for p in [q for q in cd.paths(lang, "des", "_deserialize_impl") if ("(t.inner_type is UnionType)", True) in q.conds][:3]:
            text = cd.text(lang, p)
            ok = re.search(r"\} else \{ return -\S*(BAD_UNION_TAG|BadUnionTag);", text) is not None
            ctx.ob(R, t.rel, f"{lang}: unknown union tag is an error", ok, "" if ok else "an unknown tag decodes to success")
        # composite
        for p in cd.paths(lang, "des", "_deserialize_composite"):
            text = cd.text(lang, p)
            deli = ("(t is DelimitedType)", True) in p.conds
            ev = events(text, lang, macro_placeholders(p))
            nested = [m.start() for m in re.finditer(r"_deserialize_ ?\(|\bdeserialize ?\(", text)]
            if not nested:
                ctx.ob(R, t.rel, f"{lang}: nested deserializer is called", False, "call vanished")
                continue
            adv = [unplaceholder(p, e[2]) for e in ev if e[1] == "advance"]
            adv_raw = [e[2].strip() for e in ev if e[1] == "advance"]
            sz_ph = _size_var_of_call(lang, text)     # the size variable is the one handed to the nested deserializer
            if deli:
                hdr = [e for e in ev if e[1] == "macro" and e[2] == "_deserialize_integer"]
                errs = [e for e in ev if e[1] == "ret_err" and "DELIMITER" in e[2].upper().replace("_", "").replace("BADDELIMITERHEADER", "DELIMITER")]
                ok = bool(hdr) and bool(errs) and hdr[0][0] < errs[0][0] < nested[0]
                ctx.ob(R, t.rel, f"{lang}: delimiter header read -> checked against the remaining size -> nested call", ok,
                       "" if ok else "the nested deserializer runs before the header has been validated")
                # the stored value is a const copy of the size variable taken before the nested call
                m = re.search(r"const \S+ (Pz\d+z) = (Pz\d+z);", text)
                ok = m is not None and sz_ph is not None and m.group(2) == sz_ph and m.start() < nested[0]
                ctx.ob(R, t.rel, f"{lang}: the header value is saved before the nested call overwrites the size variable", ok, "")
                saved = m.group(1) if m else None
                ok = saved is not None and len(adv_raw) == 1 and re.fullmatch(rf"{saved} \* 8U?", adv_raw[0]) is not None
                ctx.ob(R, t.rel, f"{lang}: cursor advances by the stored delimiter header value", ok, "" if ok else f"advances {adv}: implicit truncation of nested objects is lost")
            else:
                if sz_ph is None and lang == "cpp":
                    # the window is `in_buffer.subspan()` (everything that is left): the consumed size is what the nested call reports
                    mv = re.search(r"\b(Pz\d+z) = Pz\d+z\.value\(\);", text)
                    sz_ph = mv.group(1) if mv else None
                ok = sz_ph is not None and len(adv_raw) == 1 and re.fullmatch(rf"{sz_ph} \* 8U?", adv_raw[0]) is not None
                ctx.ob(R, t.rel, f"{lang}: sealed nested object: cursor advances by the consumed size", ok, "" if ok else f"advances {adv}")
    rule_nested_bound(ctx, cd, "R-C02-NESTED-BOUND")
    # python
    tp = cd.tmpl("py", "des")
    txt = "".join(d.data for d in tp.ast.find_all(N.TemplateData))
    for what, pat in (("array length above capacity", r"raise _des_\.FormatError\(f?'[^']*length"), ("unknown union tag", r"raise _des_\.FormatError\(f?'[^']*tag"),
                      ("delimiter header beyond the remaining data", r"raise _des_\.FormatError\(f?'[^']*[Dd]elimiter")):
        ok = re.search(pat, txt) is not None
        ctx.ob(R, tp.rel, f"py: {what} raises FormatError", ok, "")
    # python, per path: the length prefix is read, refused when (and only when) above the capacity, then used
    k = 0
    for p in cd.paths("py", "des", "_deserialize_variable_length_array"):
        k += 1
        text = cd.text("py", p)
        label = " & ".join(("" if pol else "not ") + c for c, pol in p.conds if "element_type" in c)[-70:] or "general"
        rd = None
        for n_, e_ in p.ph:
            e_s = e_ if isinstance(e_, str) else xs(e_)
            mm = re.match(r"\(?_deserialize_integer\(t\.length_field_type, (\w+), ", e_s)
            if mm and n_ in text:
                rd = (n_, p.name_of(mm.group(1)))
                break
        cap = p.name_of("t.capacity")
        ok = okc = False
        why = "the length prefix is not read through _deserialize_integer(t.length_field_type, <length>, ..)"
        if rd is not None and rd[1] is not None and cap is not None:
            L = rd[1]
            g = re.search(rf"if (?:{L} > {cap}|{cap} < {L}|not \(?{L} <= {cap}\)?|not \(?{cap} >= {L}\)?) ?: raise _des_\.FormatError\(", text)
            anyg = re.search(rf"if [^:]*{L}[^:]*: raise _des_\.FormatError\(", text)
            uses = [m.start() for m in re.finditer(rf"(?<!\{{){L}(?!\}})", text)]
            okc = g is not None
            first_read = text.find(rd[0])
            if anyg is not None:
                later = [u for u in uses if u > text.find(")", anyg.end())]
                between = [u for u in uses if first_read < u < anyg.start() and not re.match(rf"{L} >= 0", text[u:u + len(L) + 5])]
                ok = first_read != -1 and first_read < anyg.start() and bool(later) and not between
                why = "the length is used (bulk fetch / allocation / loop bound) before it has been validated" if not ok else ""
            else:
                why = "no `if <length> ..: raise _des_.FormatError` on this path"
        ctx.ob(R, tp.rel, f"py: array length is read, then refused if above capacity, before it is used [{label}]", ok, why)
        ctx.ob(R, tp.rel, f"py: the refusal is exactly `length > t.capacity` [{label}]", okc,
               "" if okc else "another comparison: a full array is refused, or an overlong one accepted")
    ctx.floor(R + ":py-vla", k, 1)
    # python: delimiter header read -> refused when it claims more than what is left -> fork of exactly that many bytes -> skip
    k = 0
    for p in cd.paths("py", "des", "_deserialize_any"):
        if ("(t is DelimitedType)", True) not in p.conds:
            continue
        k += 1
        text = cd.text("py", p)
        hd = re.search(r"(\w+) = _des_\.fetch_aligned_u32\(\)", text)
        ok1 = ok2 = ok3 = False
        if hd:
            v = hd.group(1)
            bits = rf"(?:{v} \* 8|8 \* {v})"
            g = re.search(rf"if (?:{bits} > _des_\.remaining_bit_length|_des_\.remaining_bit_length < {bits}) ?: raise _des_\.FormatError\(", text)
            fk = re.search(rf"(\w+) = _des_\.fork_bytes\({v}\)", text)
            sk = re.search(rf"_des_\.skip_bits\({bits}\)", text)
            ne = re.search(r"\._deserialize_\((\w+)\)", text)
            ok1 = g is not None and fk is not None and hd.start() < g.start() < fk.start()
            ok2 = fk is not None and ne is not None and ne.group(1) == fk.group(1) and fk.start() < ne.start()
            ok3 = sk is not None and g is not None and sk.start() > g.start()
        ctx.ob(R, tp.rel, "py: delimiter header is read, refused exactly when header * 8 > remaining bits, then the fork is taken", ok1,
               "" if ok1 else "the comparison is not `header * 8 > _des_.remaining_bit_length` in front of fork_bytes(header)")
        ctx.ob(R, tp.rel, "py: the nested object is decoded from the fork of exactly the announced bytes", ok2, "")
        ctx.ob(R, tp.rel, "py: the outer cursor skips the announced bytes (header * 8 bits)", ok3, "")
    ctx.floor(R + ":py-delimited", k, 1)


def _size_var_of_call(lang, text):
    if lang == "c":
        m = re.search(r"_deserialize_ ?\( ?&Pz\d+z, &buffer\[offset_bits / 8U\], &(Pz\d+z) ?\)", text)
    else:
        m = re.search(r"\bdeserialize ?\( ?Pz\d+z, in_buffer\.subspan\(0U?, (Pz\d+z)\) ?\)", text)
    return m.group(1) if m else None


def _size_var_bounded(lang, text, deli):
    if deli:
        m = re.search(r"if \( ?\(?(Pz\d+z)(?: \* 8U\))? > [^{;]*\) ?\{ ?return -\S*(?:BAD_DELIMITER_HEADER|BadDelimiterHeader)", text)
    elif lang == "c":
        m = re.search(r"\bPz\d+z (Pz\d+z) = \(Pz\d+z\) ?Pz\d+z;", text)
    else:
        m = re.search(r"\bPz\d+z (Pz\d+z) = in_buffer\.size\(\) / 8U;", text)
    return m.group(1) if m else None


REM_TEXT = "(capacity_bytes - nunavutChooseMin((offset_bits / 8U), capacity_bytes))"
REM_PH = "Pz9999z"     # stands for the remaining-bytes expression when it appears as literal text (helper macro / inline)


def _remaining_phs(cd, p):
    """placeholders of the path that stand for `capacity_bytes - min(offset_bits / 8, capacity_bytes)`: the set-block holding
    it, or REM_PH where the expression appears literally (expanded helper macro, written inline)"""
    return _remaining_block_phs(cd, p) + [REM_PH]


def _remaining_block_phs(cd, p):
    m2 = cd.macro("c", "des", "_deserialize_composite")
    names = []
    for b in m2.find_all(cd.N.AssignBlock):
        if isinstance(b.target, cd.N.Name):
            btxt = _codec.squash("".join(d.data for d in b.find_all(cd.N.TemplateData)))
            if btxt == "(capacity_bytes - nunavutChooseMin((offset_bits / 8U), capacity_bytes))":
                names.append(b.target.name)
    return [n for n, _e in p.ph if p.xs_of(n) in names]


def rule_nested_bound(ctx, cd, RB):
    ctx.rule(RB, "the nested deserializer of a composite receives a window bounded by the delimiter header value (sealed: by the "
                 "remaining size): C passes `&<size var>` holding that value; C++ passes in_buffer.subspan(0, <size var>)")
    for lang in ("c", "cpp"):
        t = cd.tmpl(lang, "des")
        for p in cd.paths(lang, "des", "_deserialize_composite"):
            text = cd.text(lang, p).replace(REM_TEXT, REM_PH)
            deli = ("(t is DelimitedType)", True) in p.conds
            sz = _size_var_bounded(lang, text, deli)   # the variable that was bounded (header check / remaining size)
            if lang == "c":
                m = re.search(r"_deserialize_ ?\( ?&(Pz\d+z), &buffer\[offset_bits / 8U\], &(Pz\d+z) ?\)", text)
                ok = m is not None and m.group(2) == sz
            else:
                m = re.search(r"\bdeserialize ?\( ?(Pz\d+z), in_buffer\.subspan\(([^)]*)\) ?\)", text)
                ok = m is not None and sz is not None and re.match(rf"^0U?, {sz}$", m.group(2).strip()) is not None
                if not deli and m is not None and m.group(2).strip() == "":
                    ok = True      # a sealed object is not delimited: `subspan()` is the same window as `subspan(0, <all that is left>)`
            ctx.ob(RB, t.rel, f"{lang}: nested window is bounded by the size variable [{'delimited' if deli else 'sealed'}]", ok,
                   "" if ok else "the nested deserializer can read past the end announced by the delimiter header: fields missing in a shorter "
                   "(older) encoding are filled from the following sibling's bytes instead of zeros")
            if deli:
                # the header is compared with what is left *after* the header itself has been consumed
                hdr = [m_.start() for m_ in re.finditer(r"Pz\d+z", text) if "_deserialize_integer(" in (p.xs_of(m_.group(0)) or "")]
                if lang == "c":
                    cm = re.search(r"if \( ?(Pz\d+z) > ([^)]+?) ?\) ?\{ ?return -NUNAVUT_ERROR_REPRESENTATION_BAD_DELIMITER_HEADER", text)
                    okh = cm is not None and bool(hdr) and cm.group(1) == sz and cm.start() > hdr[0]
                    if okh:
                        x = cm.group(2).strip()
                        if x in _remaining_phs(cd, p):
                            pass  # the set-block expands in place: evaluated at the comparison
                        else:
                            decl = [d.start() for d in re.finditer(rf"\b{re.escape(x)} ?= ", text)]
                            okh = bool(decl) and min(decl) > hdr[0]
                else:
                    cm = re.search(r"if \( ?\(?(Pz\d+z) \* 8U\)? > in_buffer\.size\(\) ?\)", text)
                    okh = cm is not None and bool(hdr) and cm.group(1) == sz and cm.start() > hdr[0]
                ctx.ob(RB, t.rel, f"{lang}: delimiter header is compared with the size remaining after the header was consumed", okh,
                       "" if okh else "the bound is evaluated before the header bytes are consumed (or against another quantity): a header up to "
                       "4 bytes too large is accepted and the nested deserializer reads past the end of the buffer")
            if lang == "c" and not deli:
                rems = _remaining_phs(cd, p)
                ok2 = sz is not None and any(re.search(rf"{sz} = \([^)]*\) ?{rem};", text) is not None for rem in rems)
                ctx.ob(RB, t.rel, "c: sealed nested object gets the remaining bytes (capacity - min(offset, capacity))", ok2, "")


def rule_consumed(ctx, cd):
    R = "R-C02-CONSUMED"
    ctx.rule(R, "the only assignment to the reported size on the success path is a minimum of the cursor and the supplied capacity "
                "(C: nunavutChooseMin(offset_bits, capacity_bits) / 8; C++: std::min(in_buffer.offset(), capacity_bits) / 8)")
    t = cd.tmpl("c", "des")
    for p in cd.paths("c", "des", "_deserialize_impl")[:6]:
        text = cd.text("c", p)
        asg = re.findall(r"\*inout_buffer_size_bytes = ([^;]+);", text)
        ok = len(asg) == 1 and re.search(r"nunavutChooseMin\(offset_bits, capacity_bits\) / 8U", asg[0]) is not None
        ctx.ob(R, t.rel, "c: *inout_buffer_size_bytes = min(offset_bits, capacity_bits) / 8", ok, "" if ok else f"assigned {asg}: more bytes than supplied can be reported")
    t = cd.tmpl("cpp", "des")
    for p in cd.paths("cpp", "des", "_deserialize_impl")[:6]:
        text = cd.text("cpp", p)
        m = re.search(r"auto (\w+) = std::min<[^>]*>\(in_buffer\.offset\(\), capacity_bits\);", text)
        ok = m is not None and re.search(rf"return \{{ static_cast<[^>]*>\({m.group(1)} / 8U\) \}};", text) is not None if m else False
        ctx.ob(R, t.rel, "cpp: returns min(in_buffer.offset(), capacity_bits) / 8", bool(ok), "" if ok else "consumed size is not clamped to the supplied size")


def run(ctx):
    ctx.explanation = (
        "C02 is decided for structural necessary conditions on every path of the deserializer macros (C, C++, Python): "
        "exhaustive kind dispatch; raw buffer reads only under a cursor-vs-capacity test with a zeroing else and getter "
        "calls on the routine's own buffer/size/cursor; array length, union tag and delimiter header validated with an "
        "error exit before they are used; nested objects bounded by the delimiter header; consumed size clamped.  The "
        "decoded values for all byte strings (sign extension, float unpacking) are numerical and are not decided."
    )
    ctx.declined = ["decoded values for all byte strings (sign-extension arithmetic, zero-extension results, float unpacking)"]
    ts = j2front.TemplateSet(ctx.root)
    cd = Codec(ts)
    C01.rule_dispatch(ctx, cd, "des", "R-C02-DISPATCH")
    _codec.rule_union_tag(ctx, cd, "des", "R-C02-TAG")
    _codec.rule_entry(ctx, cd, "des", "R-C02-ENTRY")
    rule_bounded_read(ctx, cd)
    rule_repr_err(ctx, cd)
    rule_consumed(ctx, cd)
    _codec.rule_bulk_advance(ctx, cd, "des", "R-C02-CONSUMED")
    C01.rule_errprop(ctx, cd, "des", "R-C02-ERRPROP")
    _codec.rule_zero_cost(ctx, pyfront.PyIndex(ctx.root), "R-C02-ZEROCOST")
    _codec.rule_std_width(ctx, pyfront.PyIndex(ctx.root), "R-C02-STDWIDTH")
    _codec.rule_offset_sets(ctx, cd, "des", "R-C02-OFFSET-SET")
    _codec.rule_padding(ctx, cd, "des", "R-C02-PADDING")
    _codec.rule_pad_body(ctx, cd, "des", "R-C02-PAD-BODY")
    _codec.rule_py_align(ctx, cd, pyfront.PyIndex(ctx.root), "des", "R-C02-PY-ALIGN")
