"""
C14 - support-library bit primitives.  Static, over the clang AST of the C and C++ support headers expanded by the
repository's own generator at every point of the option lattice the templates branch on (endianness x asserts x
omit-float): bound checks dominate destination writes, read lengths are saturated and fit the destination, unsigned
tail computations cannot wrap, partial-byte stores are masked read-modify-writes, byte tables follow the wire order,
width families agree, and the C and C++ half-float routines agree with each other.  Nothing is executed.
"""
import concurrent.futures
import os
import pathlib
import re
import shutil
import tempfile
import typing

from nvsa import cast, j2front
from nvsa.report import AnalysisError

from . import _c14_c, _c14_cpp

C_TMPL = "src/nunavut/lang/c/support/serialization.j2"
CPP_TMPL = "src/nunavut/lang/cpp/support/serialization.j2"
ENDIAN = ("any", "little", "big")
LATTICE_OPTIONS = {"target_endianness", "enable_serialization_asserts", "omit_float_serialization_support"}

RULES = {
    "R-C14-SHIFT-RANGE": "a shift by a saturated run-time length v (or v - c), v = min(.., K), is evaluated only where the guards on the way "
                         "to it (?: condition, left operand of && / ||, if) keep the amount inside [0, width of the promoted left operand): "
                         "a mask hoisted out of its `(v < W) ? .. : ..` is evaluated for v == W as well, which is undefined behaviour",
    "R-C14-F16-SPECIAL": "half-precision unpack: the test that separates infinity / NaN from finite halves includes the boundary "
                         "(>= 0x7C00 on the magnitude bits, == on the masked exponent, or >= 2**16 on the scaled float)",
    "R-C14-SET-BOUND": "every store into a caller-supplied destination buffer (bit copy, memset/memmove, indexed store) made by a "
                       "set primitive is dominated by a comparison of the buffer size against offset + length that returns the "
                       "buffer-too-small error, and the stored extent is covered by the checked length; wrappers reach a store "
                       "only through such a routine with buffer, size and offset passed through unchanged",
    "R-C14-GET-SAT": "every read from a caller-supplied source buffer uses a length produced by the saturation routine applied to "
                     "the primitive's own size and offset (C), or goes through copyTo which clamps to the source size (C++); the "
                     "destination is zero-initialised (zero extension) before the copy",
    "R-C14-WIDTH": "in get<U|I><W> the saturation constant, the capacity of the local the bits are copied into, the return type "
                   "and the W of the name agree; getI<W> delegates to getU<W> with the saturated length; shifted literals are wide "
                   "enough for a shift of W-1 under the C minimum integer widths",
    "R-C14-TAIL": "unsigned 'bits left in the buffer' computations cannot wrap: size*8 - min(size*8, offset) (or an equivalent "
                  "guarded subtraction) in the saturation routine and in bitspan::size()",
    "R-C14-RMW": "inside the raw bit copy every store of a partial byte is a masked read-modify-write of the same lvalue "
                 "(X = (X & ~m) | (v & m)), whole-byte moves cover floor(length/8) bytes only, and the unaligned loop advances the "
                 "source and the destination offset by the same amount",
    "R-C14-BYTE-ORDER": "with endianness 'any'/'big' the byte table of setUxx is (value >> 8k) & 0xFF at index k and getU<W> "
                        "reassembles tmp[k] << 8k: little-endian wire order independent of the host",
    "R-C14-ZERO-SPAN": "bitspan::setZeros clears ceil((offset % 8 + length) / 8) bytes starting at the byte of the offset, saves the "
                       "bits below the offset before and restores them after the memset",
    "R-C14-FAMILY": "the four widths of getI<W> (and of getU<W> per endianness) are the same routine up to W and the integer types",
    "R-C14-F16-SIBLING": "the C and the C++ half-precision pack/unpack routines are statement-for-statement the same computation",
    "R-C14-ERRPROP": "padAndMoveToAlignment returns the failed result of setZeros before advancing the offset; set<F|I> wrappers "
                     "return the result of the checked routine they call",
}

FLOORS_QUICK = {"R-C14-SET-BOUND": 12, "R-C14-GET-SAT": 24, "R-C14-WIDTH": 36, "R-C14-TAIL": 3, "R-C14-RMW": 6, "R-C14-BYTE-ORDER": 6,
                "R-C14-ZERO-SPAN": 3, "R-C14-FAMILY": 6, "R-C14-F16-SIBLING": 2, "R-C14-ERRPROP": 6}


def lattice(tier: str):
    full = [(e, a, f) for e in ENDIAN for a in (False, True) for f in (False, True)]
    if tier == "thorough":
        return full
    return [("any", False, False), ("little", True, False), ("big", False, True)]


def point_name(p) -> str:
    return f"endian={p[0]},asserts={int(p[1])},omit_float={int(p[2])}"


def point_opts(p) -> typing.List[str]:
    o = ["--target-endianness", p[0]]
    if p[1]:
        o.append("--enable-serialization-asserts")
    if p[2]:
        o.append("--omit-float-serialization-support")
    return o


def _analyse_point(args):
    root, lang, p, workdir, std = args
    try:
        # one expansion directory per job: two language standards of the same option point must not share (and rewrite) a header
        wd = pathlib.Path(workdir) / f"{lang}-{std.replace('+', 'p')}-{point_name(p).replace('=', '').replace(',', '_')}"
        wd.mkdir(parents=True, exist_ok=True)
        hdr = cast.expand_support(pathlib.Path(root), lang, point_opts(p), wd)
        extra = ["-DNUNAVUT_ASSERT(x)=assert(x)", "-include", "assert.h"] if p[1] else []
        text = hdr.read_text()
        if lang == "c":
            ast = cast.clang_ast_c(hdr, extra)
            res, prints, nfun = _c14_c.analyse(ast, text, p)
        else:
            objs = cast.clang_ast_cpp(hdr, std, extra)
            res, prints, nfun = _c14_cpp.analyse(objs, text, p)
        return {"lang": lang, "point": p, "std": std, "results": res, "prints": prints, "functions": nfun, "error": None}
    except AnalysisError as e:
        return {"lang": lang, "point": p, "std": std, "results": [], "prints": {}, "functions": 0, "error": str(e)}


def _template_options(ctx, rel: str) -> typing.Set[str]:
    """options.<name> the support template reads (the lattice must cover every one that steers a branch)"""
    src = (ctx.root / rel).read_text()
    return set(re.findall(r"\boptions\.([a-z_]+)\b", src)) - {"items", "keys", "values", "get"}


def _line_of(ctx, rel: str, name: str) -> typing.Optional[int]:
    short = name.split("::")[-1].split("/")[0]
    lines = (ctx.root / rel).read_text().splitlines()
    cands = [i + 1 for i, ln in enumerate(lines) if re.search(r"\b" + re.escape(short) + r"\s*\(", ln)]
    defs = [i for i in cands if not lines[i - 1].rstrip().endswith(";") and ("inline" in lines[i - 1] or "inline" in lines[max(0, i - 2)] or "::" in lines[i - 1])]
    return (defs or cands or [None])[0]


def run(ctx):
    ctx.explanation = (
        "C14's behavioural core (bit-exact results for all offsets/lengths/values, float16 rounding) is numerical and is "
        "declined.  Decided statically on the clang AST of the support headers the generator emits at each option point: "
        "memory-safety and zero-extension structure of every set/get primitive, non-wrapping tail arithmetic, masked "
        "partial-byte stores in the raw copy, wire byte order of the endianness-neutral paths, agreement inside width "
        "families and between the C and C++ half-float routines."
    )
    ctx.declined = [
        "bit-exact equality with a bit-by-bit reference for all (offset, length, size, contents, value) - numerical",
        "float16 nearest/adjacent rounding, monotonicity, 2^16 round trip - numerical (only C/C++ agreement of the routines is decided)",
        "Python Serializer/Deserializer/ZeroExtendingBuffer: value-level behaviour is numerical (cursor arithmetic, width tables, shift pairs, masks and zero extension are decided)",
    ]
    for r, t in RULES.items():
        ctx.rule(r, t)
    for rel in (C_TMPL, CPP_TMPL):
        if not (ctx.root / rel).exists():
            raise AnalysisError(f"anchor missing: {rel}")
        extra = _template_options(ctx, rel) - LATTICE_OPTIONS
        if extra:
            raise AnalysisError(f"{rel} reads options {sorted(extra)} that the analysed lattice does not enumerate")
    points = lattice(ctx.tier)
    stds = ["c++14", "c++17"] if ctx.tier == "thorough" else ["c++14"]
    work = pathlib.Path(tempfile.mkdtemp(prefix="nvsa-c14-"))
    try:
        jobs = [(str(ctx.root), "c", p, str(work), "c11") for p in points]
        jobs += [(str(ctx.root), "cpp", p, str(work), s) for p in points for s in stds]
        with concurrent.futures.ProcessPoolExecutor(max_workers=min(16, os.cpu_count() or 4, len(jobs))) as ex:
            outs = list(ex.map(_analyse_point, jobs))
    finally:
        shutil.rmtree(work, ignore_errors=True)
    errs = [f"{o['lang']} {point_name(o['point'])}: {o['error']}" for o in outs if o["error"]]
    if errs:
        raise AnalysisError("; ".join(errs[:3]))
    ctx.unit("option_points", [point_name(p) for p in points])
    ctx.unit("expansions_parsed", len(outs))
    ctx.unit("c_functions_per_point", sorted({o["functions"] for o in outs if o["lang"] == "c"}))
    ctx.unit("cpp_functions_per_point", sorted({o["functions"] for o in outs if o["lang"] == "cpp"}))

    # merge: one obligation per (rule, language, construct); it holds iff it holds at every point where it exists
    merged: typing.Dict[tuple, list] = {}
    for o in outs:
        for r in o["results"]:
            merged.setdefault((r["rule"], o["lang"], r["construct"]), []).append((o, r))
    for (rule, lang, construct), items in sorted(merged.items()):
        bad = [(o, r) for o, r in items if not r["ok"]]
        rel = C_TMPL if lang == "c" else CPP_TMPL
        detail = "" if not bad else "; ".join(sorted({f"[{point_name(o['point'])}] {r['detail']}" for o, r in bad}))[:900]
        ctx.ob(rule, rel, construct, not bad, detail, _line_of(ctx, rel, items[0][1].get("fn", "")),
               path=sorted({point_name(o["point"]) for o, _ in items}))

    # cross-language sibling agreement of the half-float routines, per option point
    R = "R-C14-F16-SIBLING"
    for p in points:
        if p[2]:
            continue
        c = next(o for o in outs if o["lang"] == "c" and o["point"] == p)
        for x in [o for o in outs if o["lang"] == "cpp" and o["point"] == p][:1]:
            for cname, xname in (("nunavutFloat16Pack", "float16Pack"), ("nunavutFloat16Unpack", "float16Unpack")):
                a, b = c["prints"].get(cname), x["prints"].get(xname)
                if a is None or b is None:
                    raise AnalysisError(f"anchor missing: {cname if a is None else xname} at {point_name(p)}")
                # the two routines are compared only while they have the same shape (statement count, nesting and statement kinds):
                # then a differing constant / operator / operand is a slip in one of them.  If one side has been restructured the
                # pair is not comparable and the rule does not decide (an independent rewrite is not a defect)
                def shape(lines):
                    return [re.sub(r"^([a-z]*\|)(if |while |v\d+:=)?.*$", lambda m_: m_.group(1) + (m_.group(2) or "=" if ":=" not in (m_.group(2) or "") else "decl"), ln) for ln in lines]
                if shape(a) != shape(b):
                    merged.setdefault((R, "u", f"{cname} == {xname}"), []).append((p, None))
                    continue
                diff = next((f"statement {i}: C `{u}` vs C++ `{v}`" for i, (u, v) in enumerate(zip(a, b)) if u != v), None)
                key = f"{cname} == {xname}"
                merged.setdefault((R, "x", key), []).append((p, diff))
    ctx.unit("f16_pairs_not_comparable", sorted({key for (rule, lang, key) in merged if lang == "u"}))
    for key in sorted({key for (rule, lang, key) in merged if lang == "u"} - {key for (rule, lang, key) in merged if lang == "x"}):
        ctx.ob(R, CPP_TMPL, key, True, "not decided: the C and the C++ routine no longer have the same statement structure (one of them was restructured); "
               "only structurally parallel routines are compared", _line_of(ctx, CPP_TMPL, key.split(" == ")[1]))
    for (rule, lang, key), items in sorted(merged.items()):
        if lang != "x":
            continue
        bad = [f"[{point_name(p)}] {d}" for p, d in items if d]
        ctx.ob(R, CPP_TMPL, key, not bad, "; ".join(bad)[:600], _line_of(ctx, CPP_TMPL, key.split(" == ")[1]))
    for r, n in FLOORS_QUICK.items():
        ctx.floor(r, ctx.count(r), n)
    # the Python support module: structural rules over the rendered Serializer / Deserializer / ZeroExtendingBuffer
    from checks import _c14_py
    _c14_py.run(ctx)
