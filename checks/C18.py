"""
C18 - generated Python data objects validate, reflect and convert faithfully.
Static: the Python text of py/templates/base.j2 is rendered per template path with placeholders for the Jinja
expressions, parsed with `ast`, and checked for dominance of the admission test over every backing-field assignment.
"""
import ast
import re
import textwrap

from nvsa import j2front, j2text, pyfront
from nvsa.j2front import xs
from nvsa.report import AnalysisError

FID = "(f | id)"


def _rename(N, subtree, old, new):
    if old == new:
        return
    for n in subtree.find_all(N.Name):
        if n.name == old:
            n.name = new
    for n in [subtree]:
        tg = getattr(n, "target", None)
        if isinstance(tg, N.Name) and tg.name == old:
            tg.name = new


def canonicalise(ts):
    """Give the template-local variables of py/base.j2 that the rules talk about canonical names, found by *role* (what a
    loop iterates, what a `set` is assigned from, parameter position) so that the rules do not depend on their spelling."""
    N = ts.nodes
    t = ts.get("py", "base.j2")
    m = ts.macro(t, "data_schema")
    typ = m.args[1].name
    _rename(N, m, typ, "type")
    for lp in list(m.find_all(N.For)):
        it = xs(lp.iter)
        if not isinstance(lp.target, N.Name):
            continue
        if it == "type.fields_except_padding" or (it == "type.fields" and lp.test is None):
            _rename(N, lp, lp.target.name, "f")
    for lp in list(m.find_all(N.For)):
        if isinstance(lp.target, N.Name) and xs(lp.iter) == "type.fields" and lp.test is not None:
            _rename(N, lp, lp.target.name, "z")
    for a in list(m.find_all(N.Assign)):
        if isinstance(a.target, N.Name) and xs(a.node) == "type.fields[0]":
            _rename(N, m, a.target.name, "f")
    am = ts.macro(t, "assign_array")
    if len(am.args) >= 2:
        _rename(N, am, am.args[0].name, "f")
        am.args[0].name = "f"
        _rename(N, am, am.args[1].name, "src")
        am.args[1].name = "src"
    for a in list(am.find_all(N.Assign)):
        if isinstance(a.target, N.Name):
            if xs(a.node) == "f.data_type":
                _rename(N, am, a.target.name, "t")
            elif isinstance(a.node, N.Const) and a.node.value in ("==", "<="):
                _rename(N, am, a.target.name, "cmp")


UNION_TEST = "(type.inner_type is UnionType)"


def _union_split(N, n):
    """(struct branch, union branch) of an If that tests `type.inner_type is UnionType` in either polarity, else None"""
    if not isinstance(n, N.If) or n.elif_:
        return None
    t, pol = n.test, True
    while isinstance(t, N.Not):
        t, pol = t.node, not pol
    if xs(t) != UNION_TEST:
        return None
    return (n.else_, n.body) if pol else (n.body, n.else_)


def _parse(path, what):
    import re
    txt = textwrap.dedent(path.text.replace("\t", "    "))
    txt = re.sub(r"\b(Pz\d+z)\.(\d+)\b", r"\1_dot\2", txt)  # `{{ n }}.0` - a number literal continued by the template text
    lines = txt.split("\n")
    nonempty = [i for i, ln in enumerate(lines) if ln.strip()]
    if len(nonempty) > 1:
        first = nonempty[0]
        ind0 = len(lines[first]) - len(lines[first].lstrip())
        rest = min(len(lines[i]) - len(lines[i].lstrip()) for i in nonempty[1:])
        if rest > ind0:  # macro output: the first line starts right after the tag, the others carry the template's indentation
            lines = [ln[rest - ind0:] if (i > first and ln.strip()) else ln for i, ln in enumerate(lines)]
            txt = "\n".join(lines)
    try:
        return ast.parse(txt)
    except SyntaxError as e:
        raise AnalysisError(f"rendered Python of {what} does not parse on path {path.conds[-3:]}: {e}\n{txt[:400]}")


def _backing_assigns(tree, backing):
    """(stmt, guards) for assignments to self.<backing>"""
    out = []
    for st, g in pyfront.walk_guarded(tree.body, ()):
        tg = []
        if isinstance(st, ast.Assign):
            tg = st.targets
        elif isinstance(st, ast.AnnAssign) and st.value is not None:
            tg = [st.target]
        elif isinstance(st, ast.AugAssign):
            tg = [st.target]
        for t in tg:
            if isinstance(t, ast.Attribute) and isinstance(t.value, ast.Name) and t.value.id == "self" and t.attr == backing:
                out.append((st, g))
    return out


def _raises_value_error_on_other_branch(tree):
    return any(isinstance(n, ast.Raise) and n.exc is not None and "ValueError" in ast.unparse(n.exc) for n in ast.walk(tree))


def _fresh_elements(ctx, R, t, p, tree, lineno, where):
    """default value of an array of nested objects: one object per element.  `full(n, T())` / `[T()] * n` put the *same* object into every
    slot - assigning a field of one element changes all of them, and an in-place update of the elements leaves n copies of the last."""
    for c in ast.walk(tree):
        shared = None
        if isinstance(c, ast.Call) and isinstance(c.func, ast.Attribute) and c.func.attr in ("full", "repeat", "tile") and len(c.args) >= 2:
            fill = c.args[1] if c.func.attr == "full" else c.args[0]
            if isinstance(fill, ast.Call) and not (isinstance(fill.func, ast.Attribute) and fill.func.attr in ("zeros", "array")):
                shared = ast.unparse(c)
        if isinstance(c, ast.BinOp) and isinstance(c.op, ast.Mult) and any(isinstance(side, ast.List) and any(isinstance(e_, ast.Call) for e_ in side.elts) for side in (c.left, c.right)):
            shared = ast.unparse(c)
        if shared is not None:
            ctx.ob(R, t.rel, f"{where} [{' & '.join(c_ for c_, pol in p.conds if pol and 'for ' not in c_)[-70:]}]: default array elements are distinct objects", False,
                   f"`{shared[:70]}` evaluates the element constructor once and stores that one object in every slot", lineno)


def rule_validate(ctx, ts):
    R = "R-C18-VALIDATE"
    ctx.rule(
        R,
        "in every setter branch of the generated class, each assignment to the backing field is dominated by the kind's "
        "admission check with ValueError on the other branch - integer: two-sided comparison against "
        "inclusive_value_range; float < 64 bit: range-or-non-finite; arrays (assign_array): a length comparison against "
        "t.capacity with == for fixed and <= for variable arrays; composite: isinstance; __init__ routes every field "
        "through its setter or assign_array",
    )
    N = ts.nodes
    t = ts.get("py", "base.j2")
    m = ts.macro(t, "data_schema")
    # the setter loop
    setter_loop = None
    for n in m.find_all(N.For):
        txt = "".join(d.data for d in n.find_all(N.TemplateData))
        if ".setter" in txt and xs(n.iter) == "type.fields_except_padding":
            setter_loop = n
    if setter_loop is None:
        raise AnalysisError("anchor missing: the property-setter loop over type.fields_except_padding in data_schema")
    ctx.ob(R, t.rel, "setter loop iterates type.fields_except_padding unfiltered", setter_loop.test is None, "", setter_loop.lineno)
    chain = None
    for n in setter_loop.body:
        if isinstance(n, N.If) and xs(n.test) == "(f.data_type is BooleanType)":
            chain = n
    if chain is None:
        raise AnalysisError("anchor missing: kind dispatch inside the setter loop")
    kinds = {}
    for cond, body in j2text.branches_of(N, chain):
        kinds[cond] = body
    # closed by assert False
    else_body = kinds.get("else") or []
    closed = any(j2front.is_assert_false(N, x) for b in else_body for x in j2front.find_asserts(N, b))
    ctx.ob(R, t.rel, "setter kind dispatch is closed by `assert False`", closed, "" if closed else "an unknown field kind gets a setter without body", chain.lineno)
    want = ["(f.data_type is BooleanType)", "(f.data_type is IntegerType)", "(f.data_type is FloatType)", "(f.data_type is ArrayType)", "(f.data_type is CompositeType)"]
    for w in want:
        if w not in kinds:
            ctx.ob(R, t.rel, f"setter branch {w}", False, "branch vanished", chain.lineno)
    n_paths = 0
    for cond, body in kinds.items():
        if cond == "else":
            continue
        # helper macros are expanded in place, except assign_array, which has a rule of its own and is an atomic event here
        helpers = {k: v for k, v in ts.macros(t).items() if k != "assign_array"}
        for p in j2text.render_paths(N, body, macros=helpers):
            n_paths += 1
            tree = _parse(p, f"setter branch {cond}")
            fid = p.name_of(FID)
            label = f"setter {cond}" + (f" [{' & '.join(('' if pol else 'not ') + c for c, pol in p.conds)}]" if p.conds else "")
            if cond == "(f.data_type is ArrayType)":
                uses_macro = any("assign_array(f, 'x')" in (e if isinstance(e, str) else "") for _, e in p.ph)
                asg = [n for n in ast.walk(tree) if isinstance(n, (ast.Assign, ast.AugAssign, ast.AnnAssign))]
                ok = uses_macro and not asg
                ctx.ob(R, t.rel, f"{label}: delegates to assign_array(f, 'x')", ok, "" if ok else "array setter assigns the backing field itself", chain.lineno)
                continue
            if fid is None:
                ctx.ob(R, t.rel, f"setter {cond}: backing field", False, "the branch does not mention the field", chain.lineno)
                continue
            backing = "_" + fid
            asg = _backing_assigns(tree, backing)
            if not asg:
                ctx.ob(R, t.rel, f"{label}: assigns the backing field", False, "setter never stores the value", chain.lineno)
                continue
            lo = p.name_of("f.data_type.inclusive_value_range.min")
            hi = p.name_of("f.data_type.inclusive_value_range.max")
            for st, g in asg:
                terms = pyfront.guard_terms(g)
                pos = [e for e, pol in terms if pol]
                if cond == "(f.data_type is BooleanType)":
                    ok = ast.unparse(st.value) == "bool(x)"
                    why = "bool(x) is total (saturation)" if ok else f"stores {ast.unparse(st.value)}"
                elif cond == "(f.data_type is IntegerType)":
                    ok = lo is not None and hi is not None and any(e.replace(" ", "") == f"{lo}<=x<={hi}" for e in pos)
                    why = "range-checked" if ok else f"stored under {terms}: a value outside [min, max] is accepted"
                    conv = any(isinstance(s, ast.Assign) and ast.unparse(s) == "x = int(x)" for s in tree.body)
                    ctx.ob(R, t.rel, f"{label}: value converted with int() before the check", conv, "", chain.lineno)
                elif cond == "(f.data_type is FloatType)":
                    widths = _float_widths(p.conds)
                    if widths is None:
                        ctx.ob(R, t.rel, f"{label}: width condition understood", False, f"cannot evaluate {p.conds} over float widths", chain.lineno)
                        continue
                    if widths - {64}:
                        in_range = None
                        for s in tree.body:
                            if isinstance(s, ast.Assign) and isinstance(s.targets[0], ast.Name) and lo and hi and \
                                    ast.unparse(s.value).replace(" ", "") == f"{lo}_dot0<=x<={hi}_dot0":
                                in_range = s.targets[0].id
                        ok = in_range is not None and any(e.replace(" ", "") in (f"{in_range}ornot_np_.isfinite(x)", f"not_np_.isfinite(x)or{in_range}") for e in pos)
                        why = "range-or-non-finite" if ok else f"stored under {terms}"
                    else:
                        ok = widths == {64} and ast.unparse(st.value) == "float(x)" and not terms
                        why = "float64 covers the native range" if ok else "unexpected float64 handling"
                elif cond == "(f.data_type is CompositeType)":
                    ty = p.name_of("(f.data_type | full_reference_name)")
                    ok = ty is not None and f"isinstance(x, {ty})" in pos
                    why = "isinstance-checked" if ok else f"stored under {terms}"
                else:
                    ok, why = False, "unknown branch"
                ctx.ob(R, t.rel, f"{label}: `{ast.unparse(st)[:50]}` is dominated by the admission check", ok, why, chain.lineno)
            if cond in ("(f.data_type is IntegerType)", "(f.data_type is CompositeType)") or ("(f.data_type.bit_length < 64)", True) in p.conds:
                ok = _raises_value_error_on_other_branch(tree)
                ctx.ob(R, t.rel, f"{label}: the rejecting branch raises ValueError", ok, "" if ok else "out-of-range values are silently ignored", chain.lineno)
    ctx.floor(R + ":setter-paths", n_paths, 6)

    # assign_array
    am = ts.macro(t, "assign_array")
    paths = j2text.render_paths(N, am.body)
    n_fixed = n_var = 0
    for p in paths:
        tree = _parse(p, "assign_array")
        fid = p.name_of(FID)
        cap = p.name_of("t.capacity") or p.name_of("f.data_type.capacity")   # `t` is an alias of f.data_type, resolved by the path renderer
        src = p.name_of("src")
        label = "assign_array" + (f" [{' & '.join(('' if pol else 'not ') + c for c, pol in p.conds if 'FixedLength' not in c and 'VariableLength' not in c)}]")
        asg = _backing_assigns(tree, "_" + fid) if fid else []
        if not asg or cap is None or src is None:
            ctx.ob(R, t.rel, f"{label}: assigns the backing field", False, "macro path without assignment / capacity", am.lineno)
            continue
        # which kind of array is this path for?  (the comparison operator follows from it: == fixed, <= variable)
        fixed = any("FixedLengthArrayType" in c and pol for c, pol in p.conds)
        variable = any(("VariableLengthArrayType" in c and pol) or ("FixedLengthArrayType" in c and not pol) for c, pol in p.conds)
        if fixed == variable:
            ctx.ob(R, t.rel, f"{label}: the path is for a fixed-length or for a variable-length array", False,
                   f"cannot tell from {list(p.conds)}: the length comparison operator is not tied to the array kind", am.lineno)
            continue
        n_fixed += fixed
        n_var += variable
        op = "==" if fixed else "<="
        for st, g in asg:
            terms = pyfront.guard_terms(g)
            pos = [e.replace(" ", "") for e, pol in terms if pol]
            okc = any((f"len({src}){op}{cap}" in e or f"{src}.size{op}{cap}" in e) for e in pos)
            ctx.ob(R, t.rel, f"{label} ({'fixed' if fixed else 'variable'}): `{ast.unparse(st)[:46]}` is control-dependent on a length check `{op} capacity`", okc,
                   "" if okc else f"stored under {terms}: an array longer than the capacity (or of the wrong fixed length) is accepted", am.lineno)
            # zero-copy view of a buffer: len() counts the elements that are stored only for bytes / bytearray (one byte per item);
            # a memoryview or array.array has len() in items of its own format, and frombuffer reinterprets their bytes
            if "frombuffer(" in ast.unparse(st.value):
                tys = set()
                for e, pol in terms:
                    if pol:
                        for c in ast.walk(ast.parse(e, mode="eval")):
                            if isinstance(c, ast.Call) and isinstance(c.func, ast.Name) and c.func.id == "isinstance" and len(c.args) == 2 and ast.unparse(c.args[0]) == src:
                                tys |= {ast.unparse(x) for x in (c.args[1].elts if isinstance(c.args[1], ast.Tuple) else [c.args[1]])}
                okb = bool(tys) and tys <= {"bytes", "bytearray"}
                ctx.ob(R, t.rel, f"{label}: the buffer fast path admits only bytes / bytearray, whose len() is the number of stored elements", okb,
                       "" if okb else f"admits {sorted(tys)}: len() of such an object is not its size in bytes, so the length check does not bound the array that frombuffer creates",
                       am.lineno)
                byte_elems = any("bit_length <= 8" in c and pol for c, pol in p.conds)
                ctx.ob(R, t.rel, f"{label}: the buffer fast path exists only for elements of at most 8 bits", byte_elems, "", am.lineno)
        ok = _raises_value_error_on_other_branch(tree)
        ctx.ob(R, t.rel, f"{label}: the remaining path raises ValueError", ok, "", am.lineno)
        if ".encode()" in p.text:
            ok = any(c.endswith(".string_like") or c.endswith(".string_like)") for c, pol in p.conds if pol)
            ctx.ob(R, t.rel, f"{label}: a str is accepted (implicit encode) only for string_like arrays", ok, "", am.lineno)
    ok = n_fixed >= 1 and n_var >= 1
    ctx.ob(R, t.rel, "assign_array: == for fixed-length, <= for variable-length arrays (both kinds have paths)", ok, f"fixed paths {n_fixed}, variable paths {n_var}", am.lineno)

    # __init__ routes through setters
    init_if = None
    if init_if is None:
        for n in m.find_all(N.If):
            if _union_split(N, n) is not None and any("_init_cnt_" in d.data for d in n.find_all(N.TemplateData)):
                init_if = n
    if init_if is None:
        raise AnalysisError("anchor missing: field initialisation block of __init__")
    k = 0
    for lp in _union_split(N, init_if)[0]:
        if isinstance(lp, N.For) and any(isinstance(x, N.If) for x in lp.body):
            for p in j2text.render_paths(N, lp.body, macros={k_: v_ for k_, v_ in ts.macros(t).items() if k_ != "assign_array"}):
                k += 1
                tree = _parse(p, "__init__ (struct)")
                _fresh_elements(ctx, R, t, p, tree, lp.lineno, "__init__ (struct)")
                fid = p.name_of(FID)
                direct = _backing_assigns(tree, "_" + fid) if fid else []
                ok = not direct
                ctx.ob(R, t.rel, f"__init__ (struct) [{' & '.join(c for c, pol in p.conds if pol and 'for ' not in c)[-80:]}]: field goes through its setter / assign_array", ok,
                       "" if ok else f"`{ast.unparse(direct[0][0])[:60]}` bypasses validation", lp.lineno)
    ctx.floor(R + ":init-paths", k, 6)


def rule_union(ctx, ts):
    R = "R-C18-UNION"
    ctx.rule(
        R,
        "each union setter clears every other option (loop over the unfiltered field list excluding only itself); "
        "__init__ counts the supplied options over the unfiltered field list, raises ValueError above one and "
        "default-initialises the first option when none is given",
    )
    N = ts.nodes
    t = ts.get("py", "base.j2")
    m = ts.macro(t, "data_schema")
    # the setters, path by path (helper macros expanded in place): from the kind dispatch to the end of the setter
    setter_loop = None
    for n in m.find_all(N.For):
        txt = "".join(d.data for d in n.find_all(N.TemplateData))
        if ".setter" in txt and xs(n.iter) == "type.fields_except_padding":
            setter_loop = n
    if setter_loop is None:
        raise AnalysisError("anchor missing: the property-setter loop over type.fields_except_padding in data_schema")
    idx = [i for i, b in enumerate(setter_loop.body) if isinstance(b, N.If) and re.match(r"^\(f\.data_type is \w+\)$", xs(b.test))]
    if not idx:
        raise AnalysisError("anchor missing: kind dispatch inside the setter loop")
    tail = setter_loop.body[idx[0]:]
    helpers = {k: v for k, v in ts.macros(t).items() if k != "assign_array"}
    n_union_paths = 0
    for p in j2text.render_paths(N, tail, macros=helpers):
        conds = dict(p.conds)
        if conds.get(UNION_TEST) is False:
            continue   # a structure: nothing to clear
        kind = next((c for c, pol in p.conds if pol and re.match(r"^\(f\.data_type is \w+\)$", c)), "?")
        n_union_paths += 1
        text = p.text
        clears = []
        for mm in re.finditer(r"self\._(Pz\d+z) = None", text):
            key = p.xs_of(mm.group(1)) or ""
            km = re.match(r"^\((\w+) \| id\)$", key)
            if not km:
                continue
            var = km.group(1)
            marker = None
            for c, pol in p.conds:
                fm = re.match(r"^for (\w+) in (.+?)(?: if (.+))?$", c)
                if fm and fm.group(1) == var:
                    marker = (fm.group(2), re.sub(rf"\b{re.escape(var)}\b", "_", fm.group(3) or ""))
            clears.append((mm.start(), var, marker))
        label = f"union setter {kind}"
        if conds.get(UNION_TEST) is None or not clears:
            why = ("the clearing is not emitted under `type.inner_type is UnionType` (a delimited union's model wraps the union: `type is UnionType` is false for it)"
                   if clears or conds.get(UNION_TEST) is None else "no `self._<other> = None` on this path")
            ctx.ob(R, t.rel, f"{label}: the other options are cleared", False, f"{why}: two options can be set at once [{[c for c, pol in p.conds if 'Union' in c]}]",
                   setter_loop.lineno)
            continue
        ctx.ob(R, t.rel, f"{label}: the other options are cleared", True, "", setter_loop.lineno)
        pos, var, marker = clears[-1]
        ok = marker is not None and marker[0] == "type.fields" and marker[1] in ("(_.name != f.name)", "(f.name != _.name)")
        ctx.ob(R, t.rel, f"{label}: clearing loop runs over every option except the one being set", ok, f"{marker}", setter_loop.lineno)
        # ... and only after the new value has been admitted (the rejecting branches raise): a rejected assignment leaves the
        # previously selected option in place
        fid = p.name_of(FID)
        before = max([mm.end() for mm in re.finditer(r"raise ValueError", text)] +
                     ([mm.end() for mm in re.finditer(rf"self\._{fid}\b[^=\n]*=", text)] if fid else []) + [-1])
        order_ok = all(c[0] > before for c in clears) and before >= 0 or (kind == "(f.data_type is ArrayType)" and all(c[0] > text.find("assign_array") >= 0 for c in clears))
        if kind == "(f.data_type is ArrayType)":
            ai = max([text.find(n_) for n_, k_ in p.ph if "assign_array(" in (k_ if isinstance(k_, str) else "")] + [-1])
            order_ok = ai >= 0 and all(c[0] > ai for c in clears)
        ctx.ob(R, t.rel, f"{label}: the other options are cleared only after the new value passed validation", order_ok,
               "" if order_ok else "the clearing block precedes the validating assignment: a rejected value (ValueError) leaves the union with no option "
               "selected (MALFORMED UNION; serialize() raises)", setter_loop.lineno)
    ctx.floor(R + ":union-setter-paths", n_union_paths, 5)
    # __init__ of unions
    init_if = None
    for n in m.find_all(N.If):
        if _union_split(N, n) is not None and any("_init_cnt_" in d.data for d in n.find_all(N.TemplateData)):
            init_if = n
    if init_if is None:
        raise AnalysisError("anchor missing: union branch of __init__")
    union_branch = _union_split(N, init_if)[1]
    cnt_loops = [x for x in union_branch if isinstance(x, N.For) and any("_init_cnt_ += 1" in d.data for d in x.find_all(N.TemplateData))]
    ok = len(cnt_loops) == 1 and xs(cnt_loops[0].iter) == "type.fields" and cnt_loops[0].test is None
    ctx.ob(R, t.rel, "union __init__: every option is counted (unfiltered loop over type.fields)", ok, "", init_if.lineno)
    paths = j2text.render_paths(N, union_branch, macros={k_: v_ for k_, v_ in ts.macros(t).items() if k_ != "assign_array"})
    n = 0
    for p in paths:
        n += 1
        tree = _parse(p, "__init__ (union)")
        _fresh_elements(ctx, R, t, p, tree, init_if.lineno, "__init__ (union)")
        zero = [s for s in ast.walk(tree) if isinstance(s, ast.If) and ast.unparse(s.test) == "_init_cnt_ == 0"]
        ok = len(zero) == 1
        if ok:
            z = zero[0]
            one = z.orelse[0] if z.orelse and isinstance(z.orelse[0], ast.If) else None
            ok = one is not None and ast.unparse(one.test) == "_init_cnt_ == 1" and one.orelse and isinstance(one.orelse[0], ast.Raise) \
                and "ValueError" in ast.unparse(one.orelse[0])
            okd = any(isinstance(s, ast.Assign) and isinstance(s.targets[0], ast.Attribute) for s in z.body)
        else:
            okd = False
        kind = [c for c, pol in p.conds if pol and "f.data_type is" in c]
        ctx.ob(R, t.rel, f"union __init__ [{kind[-1] if kind else ''}]: more than one option raises ValueError", bool(ok), "", init_if.lineno)
        ctx.ob(R, t.rel, f"union __init__ [{kind[-1] if kind else ''}]: no option given -> first option default-initialised", okd, "", init_if.lineno)
    ctx.floor(R, n, 5)
    first = [a for a in init_if.find_all(N.Assign) if isinstance(a.target, N.Name) and a.target.name == "f"]
    ok = len(first) == 1 and xs(first[0].node) == "type.fields[0]"
    ctx.ob(R, t.rel, "union __init__: the default option is type.fields[0]", ok, "", init_if.lineno)


def _float_widths(conds):
    """the float widths (16/32/64) consistent with the path's conditions on f.data_type.bit_length, whatever comparison spells them;
    None when a condition on the width cannot be evaluated"""
    W = "f.data_type.bit_length"
    out = set()
    for b in (16, 32, 64):
        keep = True
        for e, pol in conds:
            if W not in e:
                continue
            try:
                tree = ast.parse(e.replace(W, "B"), mode="eval")
                for n in ast.walk(tree):
                    if not isinstance(n, (ast.Expression, ast.Compare, ast.BoolOp, ast.UnaryOp, ast.Not, ast.And, ast.Or, ast.Constant, ast.Name,
                                          ast.Load, ast.cmpop)):
                        return None
                    if isinstance(n, ast.Name) and n.id != "B":
                        return None
                val = bool(eval(compile(tree, "<cond>", "eval"), {"__builtins__": {}}, {"B": b}))
            except Exception:
                return None
            if val != pol:
                keep = False
        if keep:
            out.add(b)
    return out


def rule_model(ctx, ts, px):
    R = "R-C18-MODEL"
    ctx.rule(
        R,
        "the object fed to `pickle` for _MODEL_ is the very type the class is generated from; _restore_constant_ "
        "inverts filter_pickle's layers in reverse order (pickle/gzip/base85 pairing)",
    )
    N = ts.nodes
    t = ts.get("py", "base.j2")
    m = ts.macro(t, "data_schema")
    type_param = m.args[1].name
    pk = [f for f in m.find_all(N.Filter) if f.name == "pickle"]
    ok = len(pk) == 1 and xs(pk[0].node) == type_param
    ctx.ob(R, t.rel, "data_schema: _MODEL_ pickles the macro's own `type` argument", ok, "" if ok else f"pickles {[xs(f.node) for f in pk]}", m.lineno)
    # ... and the name still denotes that argument where it is pickled: a `{% set type = type.inner_type %}` ahead of it silently swaps the
    # model (and everything else taken from `type`: the extent, the reported full name) for the undecorated inner type
    rebinds = [a for a in m.find_all(N.Assign) if isinstance(a.target, N.Name) and a.target.name == type_param]
    rebinds += [a for a in m.find_all(N.Assign) if not isinstance(a.target, N.Name) and any(x.name == type_param for x in a.target.find_all(N.Name))]
    ok = not rebinds
    ctx.ob(R, t.rel, "data_schema: the `type` argument is not re-bound inside the macro", ok,
           "" if ok else f"`{{% set {type_param} = {xs(rebinds[0].node)} %}}`: from there on _MODEL_, _EXTENT_BYTES_ and the reflected names describe that value, not the type "
           "the class was generated for (a delimited type reports the sealed inner model and its extent)", rebinds[0].lineno if rebinds else m.lineno)
    txt = "".join(d.data for d in m.find_all(N.TemplateData))
    ok = "_MODEL_: _pydsdl_." in txt and "= _restore_constant_(" in txt
    ctx.ob(R, t.rel, "data_schema: _MODEL_ = _restore_constant_(<blob>)", ok, "", m.lineno)
    # the class name / type pairing at the call sites: data_schema(<name of X>, X)
    for tt in ts.of_lang("py", "templates"):
        for c in tt.ast.find_all(N.Call):
            if isinstance(c.node, N.Name) and c.node.name == "data_schema" and len(c.args) >= 2:
                a0, a1 = xs(c.args[0]), xs(c.args[1])
                ok = a1 in a0 or (a0.startswith("'") and a1.split(".")[-1].replace("_type", "").lower() in a0.lower())
                ctx.ob(R, tt.rel, f"data_schema({a0}, {a1}): class name and model come from the same type", ok, "", c.lineno)
    # decode chain in the template text
    top = "".join(d.data for d in t.ast.find_all(N.TemplateData))
    i = top.find("def _restore_constant_")
    seg = top[i:i + 400] if i >= 0 else ""
    try:
        fn = ast.parse(textwrap.dedent(seg.split("\n\n\n")[0]))
        ret = [r.value for r in ast.walk(fn) if isinstance(r, ast.Return)][0]
        dec = []
        cur = ret
        while isinstance(cur, ast.Call):
            dec.append(ast.unparse(cur.func))
            cur = cur.args[0] if cur.args else None
    except Exception as e:
        raise AnalysisError(f"anchor missing: _restore_constant_ in py base.j2 ({e})")
    f = px.func("nunavut.lang.py", "filter_pickle")
    pm = pyfront.parent_map(f.node)

    def depth(n):
        d = 0
        while id(n) in pm:
            n = pm[id(n)]
            d += 1
        return d

    # the encoder chain, outermost first, with hoisted intermediate locals put back (pickled = pickle.dumps(x); gzip.compress(pickled) ...)
    enc = []
    # the chain may live in a private helper of the module that filter_pickle calls
    for g in [f] + pyfront.private_helpers(px, f, 2):
        outer = [c for c in ast.walk(g.node) if isinstance(c, ast.Call) and ast.unparse(c.func) == "base64.b85encode"]
        if not outer:
            continue
        cur = pyfront.subst_locals(g.node, outer[0])
        while isinstance(cur, ast.Call) and ast.unparse(cur.func) in ("base64.b85encode", "gzip.compress", "pickle.dumps"):
            enc.append(ast.unparse(cur.func))
            cur = pyfront.subst_locals(g.node, cur.args[0]) if cur.args else None
        break
    # the blob is computed from the object handed in, every time: a memo keyed on the type (pydsdl composites compare equal by name,
    # version and bit length set only) hands a regenerated class the model of an earlier definition of that type
    for g in [f] + pyfront.private_helpers(px, f, 2):
        memo = [ast.unparse(d) for d in g.node.decorator_list if any(k in ast.unparse(d) for k in ("lru_cache", "functools.cache", "cache", "memo"))]
        ctx.ob(R, g.module.rel, f"{g.short} :: the encoded model is computed per call (no memo keyed on the type)", not memo,
               "" if not memo else f"decorated with {memo}: pydsdl types hash/compare by name, version and bit lengths, so after the definition changed "
               "in the same process the embedded _MODEL_ is the one of the earlier definition", g.node.lineno)
    pairs = {"pickle.loads": "pickle.dumps", "gzip.decompress": "gzip.compress", "base64.b85decode": "base64.b85encode"}
    want = [pairs.get(d) for d in dec]
    ok = enc == want[::-1] and len(dec) == 3
    ctx.ob(R, t.rel, "_restore_constant_ undoes filter_pickle layer by layer", ok, f"decode {dec} vs encode {enc}")


def rule_builtin(ctx, ts):
    R = "R-C18-BUILTIN"
    ctx.rule(
        R,
        "py/support: update_from_builtin walks model.fields_except_padding unfiltered and skips a field only when the source "
        "has no entry for it (the LookupError handler of source.pop); every kind branch applies the value (set_attribute or "
        "recursive update) and the closing else asserts; leftover source keys raise ValueError; _to_builtin_impl emits every "
        "field whose attribute is not None (the only filter, hiding inactive union variants) - so that whatever to_builtin "
        "produces, update_from_builtin applies completely",
    )
    N = ts.nodes
    cands = [x for x in ts.templates if x.rel.endswith("py/support/nunavut_support.j2")]
    if not cands:
        raise AnalysisError("anchor missing: py/support/nunavut_support.j2")
    t = cands[0]
    paths = j2text.render_paths(N, t.ast.body, limit=64)
    n = 0
    for p in paths[:4]:
        try:
            tree = ast.parse(p.text)
        except SyntaxError as e:
            raise AnalysisError(f"rendered nunavut_support does not parse: {e}")
        fns = {f.name: f for f in tree.body if isinstance(f, ast.FunctionDef)}
        up = fns.get("update_from_builtin")
        tb = fns.get("_to_builtin_impl")
        if up is None or tb is None:
            raise AnalysisError("anchor missing: update_from_builtin / _to_builtin_impl")
        dest, src = (a.arg for a in up.args.args[:2])
        # steps moved into private module-level procedures are judged where they are called
        up = pyfront.inline_procedures(up, {k_: v_ for k_, v_ in fns.items() if k_.startswith("_")})
        # the working copy of the source (`source = dict(source)` / `remaining = dict(source)`)
        srcs = {src} | {tg_.id for a_ in ast.walk(up) if isinstance(a_, ast.Assign) and ast.unparse(a_.value) in (f"dict({src})", f"{src}.copy()", f"{{**{src}}}")
                        for tg_ in a_.targets if isinstance(tg_, ast.Name)}
        # the field loop
        fields_names = {tg.id for a in ast.walk(up) if isinstance(a, ast.Assign) and ast.unparse(a.value).endswith(".fields_except_padding")
                        for tg in a.targets if isinstance(tg, ast.Name)}
        loops = [lp for lp in up.body if isinstance(lp, ast.For) and (ast.unparse(lp.iter) in fields_names or ast.unparse(lp.iter).endswith(".fields_except_padding"))]
        ok = len(loops) == 1
        ctx.ob(R, t.rel, "update_from_builtin: one loop over model.fields_except_padding (unfiltered)", ok, f"{len(loops)} loops", up.lineno)
        if not ok:
            continue
        n += 1
        lp = loops[0]
        fv = lp.target.id if isinstance(lp.target, ast.Name) else "f"
        # skips
        pm = pyfront.parent_map(lp)
        for st, gd in pyfront.walk_guarded(lp.body, ()):
            if isinstance(st, (ast.Continue, ast.Break)) or (isinstance(st, ast.Return)):
                terms = pyfront.guard_terms(gd)
                par = pm.get(id(st))
                in_handler = isinstance(par, ast.ExceptHandler) and par.type is not None and ast.unparse(par.type) in ("LookupError", "KeyError") and not terms
                if not in_handler and isinstance(par, ast.ExceptHandler):
                    terms = terms + [(f"except {ast.unparse(par.type) if par.type else 'BaseException'}", True)]
                ctx.ob(R, t.rel, f"update_from_builtin: `{type(st).__name__.lower()}` in the field loop only when the source has no entry for the field", in_handler,
                       "" if in_handler else f"a supplied value is skipped under {terms}: e.g. an empty dict for a field-less composite (the selected union "
                       "variant) is dropped and the destination keeps its previous variant", st.lineno)
        tries = [x for x in lp.body if isinstance(x, ast.Try)]
        body_ = lp.body
        # the other way to skip a field the source does not mention: `if f.name in source: <handle>` with nothing else in the loop
        member = [x for x in lp.body if isinstance(x, ast.If) and not x.orelse and ast.unparse(x.test) in {f"{fv}.name in {s_}" for s_ in srcs}]
        if not tries and len(member) == 1 and all(x is member[0] or (isinstance(x, ast.Expr) and isinstance(x.value, ast.Constant)) for x in lp.body):
            body_ = member[0].body
            ok = any(isinstance(c, ast.Call) and isinstance(c.func, ast.Attribute) and c.func.attr == "pop" and ast.unparse(c.func.value) in srcs
                     and [ast.unparse(a) for a in c.args][:1] == [f"{fv}.name"] for st_ in body_ for c in ast.walk(st_))
        else:
            ok = len(tries) == 1 and any(isinstance(c, ast.Call) and isinstance(c.func, ast.Attribute) and c.func.attr == "pop" and ast.unparse(c.func.value) in srcs
                                         and [ast.unparse(a) for a in c.args] == [f"{fv}.name"] for c in ast.walk(tries[0]))
        ctx.ob(R, t.rel, "update_from_builtin: the value is taken with source.pop(f.name)", ok, "", lp.lineno)
        # kind dispatch: each branch applies the value
        chain = [x for x in body_ if isinstance(x, ast.If) and "isinstance(" in ast.unparse(x.test)]
        ok = len(chain) == 1
        if ok:
            cur = chain[0]
            kinds = []
            while True:
                applies = any(isinstance(c, ast.Call) and isinstance(c.func, ast.Name) and c.func.id in ("set_attribute", "update_from_builtin") for b in cur.body for c in ast.walk(b))
                kinds.append((ast.unparse(cur.test), applies))
                if len(cur.orelse) == 1 and isinstance(cur.orelse[0], ast.If):
                    cur = cur.orelse[0]
                else:
                    closed = any(isinstance(x, (ast.Assert, ast.Raise)) for x in cur.orelse)
                    # `else: assert isinstance(t, X), ...; <handle X>`: the last kind, named by the assertion
                    for x in cur.orelse:
                        if isinstance(x, ast.Assert) and "isinstance(" in ast.unparse(x.test):
                            applies_ = any(isinstance(c, ast.Call) and isinstance(c.func, ast.Name) and c.func.id in ("set_attribute", "update_from_builtin")
                                           for b in cur.orelse for c in ast.walk(b))
                            kinds.append((ast.unparse(x.test), applies_))
                    break
            for k, applies in kinds:
                ctx.ob(R, t.rel, f"update_from_builtin [{k[:60]}]: the value is applied (set_attribute / recursive update)", applies, "", lp.lineno)
            want = {"CompositeType", "ArrayType", "PrimitiveType"}
            got = {w for w in want for k, _ in kinds if w in k}
            ctx.ob(R, t.rel, "update_from_builtin: composite, array and primitive fields are all handled; anything else asserts", got == want and closed,
                   f"{sorted(got)} closed={closed}", lp.lineno)
        else:
            ctx.ob(R, t.rel, "update_from_builtin: kind dispatch on the field type", False, f"{len(chain)} dispatch statements", lp.lineno)
        after = up.body[up.body.index(lp) + 1:]
        ok = any(isinstance(x, ast.If) and ast.unparse(x.test) in srcs and any(isinstance(r, ast.Raise) and "ValueError" in ast.unparse(r) for r in ast.walk(x)) for x in after)
        ctx.ob(R, t.rel, "update_from_builtin: leftover source keys raise ValueError", ok, "", up.lineno)
        # to_builtin: a str is produced for an array exactly under the predicate that makes the generated setter accept a str.
        # The walk may be split over private module-level helpers (one per kind): all of them are judged, each with its own model parameter.
        unit, seen_u = [tb], {tb.name}
        qi = 0
        while qi < len(unit):
            for c in ast.walk(unit[qi]):
                if isinstance(c, ast.Call) and isinstance(c.func, ast.Name) and c.func.id in fns and c.func.id.startswith("_") and c.func.id not in seen_u:
                    seen_u.add(c.func.id)
                    unit.append(fns[c.func.id])
            qi += 1
        n_str = 0
        for fn_ in unit:
            model = fn_.args.args[1].arg if len(fn_.args.args) > 1 else "model"
            for st, gd in pyfront.walk_guarded(fn_.body, ()):
                if isinstance(st, ast.Return) and st.value is not None and ".decode()" in ast.unparse(st.value):
                    n_str += 1
                    terms = pyfront.guard_terms([(pyfront.subst_locals(fn_, t_), p_) for t_, p_ in gd])
                    ok = any(pol and re.fullmatch(rf"{model}\.string_like", e) is not None for e, pol in terms) or \
                        any(pol and e.startswith(f"{model}.string_like and ") for e, pol in terms)
                    ctx.ob(R, t.rel, "_to_builtin_impl: an array becomes a str only where the model is string_like (the predicate under which the setter takes a str)", ok,
                           "" if ok else f"str returned under {[(e[:70], pol) for e, pol in terms]}: for an array that is not string_like (e.g. a fixed-length uint8 array) the "
                           "result cannot be applied back with update_from_builtin", st.lineno)
        ctx.ob(R, t.rel, "_to_builtin_impl: the str special case exists (anchor)", n_str >= 1, "", tb.lineno)
        # to_builtin: composite branch - a dict comprehension over the fields, or a loop that fills a dict
        ok = False
        for fn_ in unit:
            comps = [c for c in ast.walk(fn_) if isinstance(c, ast.DictComp)]
            if len(comps) == 1 and len(comps[0].generators) == 1 and ast.unparse(comps[0].generators[0].iter).endswith(".fields_except_padding"):
                g = comps[0].generators[0]
                v = g.target.id if isinstance(g.target, ast.Name) else "f"
                ok = ast.unparse(comps[0].key) == f"{v}.name" and len(g.ifs) <= 1 and all(
                    isinstance(i_, ast.Compare) and len(i_.ops) == 1 and isinstance(i_.ops[0], ast.IsNot) and ast.unparse(i_.comparators[0]) == "None"
                    and ast.unparse(i_.left).startswith("get_attribute(") for i_ in g.ifs)
            for lp in [n_ for n_ in fn_.body if isinstance(n_, ast.For) and ast.unparse(n_.iter).endswith(".fields_except_padding") and isinstance(n_.target, ast.Name)]:
                v = lp.target.id
                stores = [(st_, gd_) for st_, gd_ in pyfront.walk_guarded(lp.body, ()) if isinstance(st_, ast.Assign) and isinstance(st_.targets[0], ast.Subscript)
                          and ast.unparse(st_.targets[0].slice) == f"{v}.name"]
                skips = [(st_, gd_) for st_, gd_ in pyfront.walk_guarded(lp.body, ()) if isinstance(st_, (ast.Continue, ast.Break, ast.Return))]

                def _only_none_test(gd_):
                    terms_ = pyfront.guard_terms([(pyfront.subst_locals(lp, t_), p_) for t_, p_ in gd_])
                    return all(re.fullmatch(r"get_attribute\(.*\) is (not )?None", e_) or re.fullmatch(r"\w+ is (not )?None", e_) for e_, _p in terms_)
                ok = ok or (len(stores) == 1 and _only_none_test(stores[0][1]) and all(isinstance(s_[0], ast.Continue) and _only_none_test(s_[1]) for s_ in skips))
        ctx.ob(R, t.rel, "_to_builtin_impl: every field whose attribute is not None is emitted under its DSDL name", ok, "", tb.lineno)
        # DSDL name -> Python attribute: both walks address a field through get_attribute / set_attribute.  The generated class names
        # a field `x` unless x is reserved (then `x_`); a type may well have both `value` and `value_`, so the unsuffixed name must be
        # probed first and the suffixed one only when that probe failed.
        for acc in ("get_attribute", "set_attribute"):
            fn = fns.get(acc)
            if fn is None:
                raise AnalysisError(f"anchor missing: {acc} in nunavut_support")
            probes = _probe_order(fns, fn, {})
            if probes is None:
                raise AnalysisError(f"{acc}: the order in which candidate attribute names are probed cannot be decided (non-literal candidate sequence)")
            nm = fn.args.args[1].arg
            def derived(x):
                # the final access through the name a preceding probe settled on (`getattr(obj, resolved or name)`): not a probe of its own
                e = ast.parse(x, mode="eval").body
                return isinstance(e, (ast.IfExp, ast.BoolOp)) or (isinstance(e, ast.Name) and e.id != nm) or \
                    any(isinstance(c, ast.Call) and not (isinstance(c.func, ast.Attribute) and c.func.attr == "format") for c in ast.walk(e))
            norm = [re.sub(r"\s+", "", x) for x in probes if not derived(x)]
            suffixed = {f"{nm}+'_'", f"f'{{{nm}}}_'", f"'{{}}_'.format({nm})", f"'%s_'%{nm}"}
            first_plain = bool(norm) and norm[0] == nm
            only = all(x == nm or x in suffixed for x in norm) and any(x in suffixed for x in norm)
            ok = first_plain and only
            ctx.ob(R, t.rel, f"{acc}: the DSDL name itself is tried first, the underscore-suffixed name only afterwards", ok,
                   "" if ok else f"probe order {probes}: for a type that has both `{nm}` and `{nm}_` style fields (`value`, `value_`) the accessor addresses the wrong "
                   "field, so to_builtin / update_from_builtin swap or lose values", fn.lineno)
    ctx.floor(R, n, 1)


def _probe_order(fns, fn, bind, depth=0):
    """attribute-name expressions handed to getattr / hasattr / setattr-free probes of the first parameter, in evaluation order;
    module-level helpers are followed with their parameters bound; a loop over a literal sequence is unrolled.  None = not decidable."""
    if depth > 3:
        return None
    obj = fn.args.args[0].arg
    out = []

    class _Sub(ast.NodeTransformer):
        def __init__(self, env):
            self.env = env

        def visit_Name(self, node):
            return self.env[node.id] if isinstance(node.ctx, ast.Load) and node.id in self.env else node

    def sub(e, env):
        import copy
        return _Sub(env).visit(copy.deepcopy(e))

    def expr(e, env):
        # evaluation order of the calls inside an expression: arguments before the call itself
        for c in ast.iter_child_nodes(e):
            r = expr(c, env)
            if r is False:
                return False
        if isinstance(e, ast.Call) and isinstance(e.func, ast.Name):
            if e.func.id in ("getattr", "hasattr") and len(e.args) >= 2 and ast.unparse(sub(e.args[0], env)) == ast.unparse(sub(ast.Name(id=obj, ctx=ast.Load()), bind_env)):
                out.append(ast.unparse(sub(e.args[1], env)))
            elif e.func.id in fns and e.func.id.startswith("_") and fns[e.func.id] is not fn:
                g = fns[e.func.id]
                genv = {a.arg: sub(v, env) for a, v in zip(g.args.args, e.args)}
                r = _probe_order(fns, g, genv, depth + 1)
                if r is None:
                    return False
                out.extend(r)
        return True

    def block(stmts, env):
        env = dict(env)
        for st in stmts:
            if isinstance(st, ast.Assign) and len(st.targets) == 1 and isinstance(st.targets[0], ast.Name):
                if expr(st.value, env) is False:
                    return False
                if not any(isinstance(c, ast.Call) for c in ast.walk(st.value)):
                    env[st.targets[0].id] = sub(st.value, env)
            elif isinstance(st, ast.If):
                if expr(st.test, env) is False or block(st.body, env) is False or block(st.orelse, env) is False:
                    return False
            elif isinstance(st, ast.Try):
                if block(st.body, env) is False:
                    return False
                for h in st.handlers:
                    if block(h.body, env) is False:
                        return False
                if block(st.orelse, env) is False or block(st.finalbody, env) is False:
                    return False
            elif isinstance(st, ast.For):
                it = sub(st.iter, env)
                if not (isinstance(it, (ast.Tuple, ast.List)) and isinstance(st.target, ast.Name)):
                    return False
                for el in it.elts:
                    e2 = dict(env)
                    e2[st.target.id] = el
                    if block(st.body, e2) is False:
                        return False
            elif isinstance(st, (ast.Return, ast.Expr, ast.Raise, ast.Assert, ast.AugAssign, ast.AnnAssign)):
                for c in ast.iter_child_nodes(st):
                    if isinstance(c, ast.expr) and expr(c, env) is False:
                        return False
            elif isinstance(st, (ast.While, ast.With)):
                return False
        return True

    bind_env = bind
    if block(fn.body, bind) is False:
        return None
    return out


def rule_reflect(ctx, ts):
    """get_class(get_model(cls)) is cls for every generated class: the generated package path strops each namespace component on its
    own (`filter` -> `filter_`), so the lookup has to retry with the underscore per component, on top of the package it has resolved
    so far.  One retry for the whole dotted path finds the class only when nothing but the last component is a reserved word."""
    R = "R-C18-MODEL"
    N = ts.nodes
    cands = [x for x in ts.templates if x.rel.endswith("py/support/nunavut_support.j2")]
    if not cands:
        raise AnalysisError("anchor missing: py/support/nunavut_support.j2")
    t = cands[0]
    p = j2text.render_paths(N, t.ast.body, limit=64)[0]
    try:
        tree = ast.parse(p.text)
    except SyntaxError as e:
        raise AnalysisError(f"rendered nunavut_support does not parse: {e}")
    mod_fns = {f.name: f for f in tree.body if isinstance(f, ast.FunctionDef)}
    gc = mod_fns.get("get_class")
    if gc is None:
        raise AnalysisError("anchor missing: get_class in nunavut_support")
    unit, todo = [], [gc]
    while todo:
        f = todo.pop()
        if f in unit:
            continue
        unit.append(f)
        for c in ast.walk(f):
            if isinstance(c, ast.Call) and isinstance(c.func, ast.Name) and c.func.id in mod_fns and c.func.id.startswith("_") and len(unit) < 6:
                todo.append(mod_fns[c.func.id])

    def is_import(c):
        return isinstance(c, ast.Call) and ast.unparse(c.func).endswith("import_module") and c.args

    def underscored(e):
        if isinstance(e, ast.BinOp) and isinstance(e.op, ast.Add) and isinstance(e.right, ast.Constant) and e.right.value == "_":
            return e.left
        if isinstance(e, ast.JoinedStr) and e.values and isinstance(e.values[-1], ast.Constant) and e.values[-1].value == "_" and len(e.values) == 2 \
                and isinstance(e.values[0], ast.FormattedValue):
            return e.values[0].value
        return None

    found = 0
    for f in unit:
        pm = pyfront.parent_map(f)
        for tr in [n for n in ast.walk(f) if isinstance(n, ast.Try)]:
            hs = [h for h in tr.handlers if h.type is not None and any(k in ast.unparse(h.type) for k in ("ImportError", "ModuleNotFoundError"))]
            retry = [(h, c) for h in hs for c in ast.walk(h) if is_import(c) and underscored(c.args[0]) is not None]
            if not retry:
                continue
            found += 1
            first = [c for st in tr.body for c in ast.walk(st) if is_import(c)]
            # the enclosing loop over the components
            cur, loop = tr, None
            while id(cur) in pm:
                cur = pm[id(cur)]
                if isinstance(cur, ast.For):
                    loop = cur
                    break
                if isinstance(cur, (ast.FunctionDef, ast.Lambda)):
                    break
            ok, why = True, ""
            if loop is None:
                ok, why = False, "the underscore retry is not inside a loop over the namespace components: it is applied once, to the whole dotted path"
            else:
                lv = {n.id for n in ast.walk(loop.target) if isinstance(n, ast.Name)}
                name_e = pyfront.subst_locals(f, first[0].args[0]) if first else None
                base = underscored(retry[0][1].args[0])
                same = first and (ast.unparse(base) == ast.unparse(first[0].args[0]))
                uses_lv = name_e is not None and bool({n.id for n in ast.walk(name_e) if isinstance(n, ast.Name)} & lv)
                onto_parent = name_e is not None and "__name__" in ast.unparse(name_e)
                if not same:
                    ok, why = False, f"the retry imports `{ast.unparse(retry[0][1].args[0])}`, not the name that just failed with the underscore appended"
                elif not (uses_lv and onto_parent):
                    ok, why = False, f"the name tried in the loop, `{ast.unparse(name_e)}`, is not <resolved parent package>.__name__ + '.' + <this component>"
            ctx.ob(R, t.rel, f"{f.name}: a reserved namespace component is retried with the underscore per component, on top of the package resolved so far", ok,
                   "" if ok else why + ": get_class(get_model(cls)) fails for classes below a stropped namespace that is not the last component", tr.lineno)
    ctx.ob(R, t.rel, "get_class: the import of the generated package retries stropped component names", found > 0,
           "" if found else "no `except ImportError: import_module(<name> + '_')` retry reachable from get_class: classes in stropped namespaces are not found", gc.lineno)


def run(ctx):
    ctx.explanation = (
        "C18 is decided on the Python text embedded in py/templates/base.j2: each setter branch, the assign_array "
        "macro and the __init__ blocks are rendered per template path with placeholders for the Jinja expressions, "
        "parsed with ast, and every assignment to a backing field must be control-dependent on the kind's admission "
        "check with ValueError on the other branch; union bookkeeping loops must be unfiltered; the pickled model must "
        "be the generating type and the decode chain must invert the encode chain.  Run-time object round trips "
        "(to_builtin/update_from_builtin, _MODEL_ equality) are not executed."
    )
    ctx.declined = ["faithful round trip through builtins and equality of _MODEL_ with the source model (run-time object comparisons)",
                    "value-level behaviour of to_builtin / update_from_builtin (only the completeness structure of both walks is decided: R-C18-BUILTIN)"]
    ts = j2front.TemplateSet(ctx.root)
    px = pyfront.PyIndex(ctx.root)
    canonicalise(ts)
    rule_model(ctx, ts, px)
    rule_reflect(ctx, ts)
    rule_validate(ctx, ts)
    rule_union(ctx, ts)
    rule_builtin(ctx, ts)
