"""
C07 - reproducible output.  Decides (static): ambient state (clock, environment, absolute location, platform data,
hash order, directory order, implicit clocks of library calls) reaches generated text only under the auditing guard.
"""
import ast

from nvsa import effects, j2front, pyfront
from nvsa.j2front import xs
from nvsa.report import AnalysisError

AUDIT = "nunavut.embed_auditing_info"
SAFE_PATH_ATTRS = {"name", "stem", "suffix"}


def _audit_aliases(ts, t):
    """Names assigned `{% set X = nunavut.embed_auditing_info %}` in the template."""
    N = ts.nodes
    out = set()
    for a in t.ast.find_all(N.Assign):
        if isinstance(a.target, N.Name) and xs(a.node) == AUDIT:
            out.add(a.target.name)
    return out


def _under_audit(stack, aliases):
    for e, pol in j2front.facts(stack):
        if pol and (e == AUDIT or e in aliases):
            return True
    return False


def _macro_callsites(ts, t, macro_name):
    N = ts.nodes
    out = []
    for node, stack in j2front.walk(t.ast):
        if isinstance(node, N.Call) and isinstance(node.node, N.Name) and node.node.name == macro_name:
            out.append(stack)
    return out


def rule_ambient_j2(ctx, ts, px=None):
    R = "R-C07-AMBIENT-J2"
    ctx.rule(
        R,
        "every template occurrence of a tainted expression (now_utc; source_file_path other than .name/.stem/.suffix; "
        "type_to_include_path(resolve=true); whole-model dumps | pickle / | yamlfy) is dominated by "
        "{% if nunavut.embed_auditing_info %}",
    )
    N = ts.nodes
    n_taint = 0
    # templates rendered with a Namespace as `T`: Namespace.j2 of each language and whatever it pulls in
    ns_templates = set()
    for t0 in ts.templates:
        if t0.name == "Namespace.j2":
            work = [t0]
            while work:
                cur = work.pop()
                if id(cur) in ns_templates:
                    continue
                ns_templates.add(id(cur))
                for ref in list(cur.ast.find_all(N.Include)) + list(cur.ast.find_all(N.Import)) + list(cur.ast.find_all(N.FromImport)) + list(cur.ast.find_all(N.Extends)):
                    tn = getattr(ref, "template", None)
                    if isinstance(tn, N.Const) and isinstance(tn.value, str):
                        work.extend(x for x in ts.templates if x.lang == cur.lang and x.kind == cur.kind and x.name == tn.value)
    for t in ts.templates:
        aliases = _audit_aliases(ts, t)
        safe_wrapped = set()
        for node in t.ast.find_all(N.Getattr):
            # source_file_path(.parent)*.(name|stem|suffix) is location independent
            if node.attr in SAFE_PATH_ATTRS:
                inner = node.node
                while isinstance(inner, N.Getattr) and inner.attr == "parent":
                    inner = inner.node
                if isinstance(inner, N.Getattr) and inner.attr == "source_file_path":
                    safe_wrapped.add(id(inner))
        # a component (.name / .stem / .suffix) of a path is location independent only for a normalised path: `Path('.').name` is '',
        # `Path('../ns').name` is the last spelled component.  pydsdl resolves the file path of every type (axiom); the folder of a
        # Namespace object is nunavut's own value, so a template whose `T` is a namespace may print a component of it outside the
        # auditing guard only while Namespace.__init__ stores the resolved folder.
        if px is not None and id(t) in ns_templates:
            for node, stack in j2front.walk(t.ast):
                if isinstance(node, N.Getattr) and node.attr == "source_file_path" and id(node) in safe_wrapped and not _under_audit(stack, aliases):
                    okn, whyn = _namespace_folder_normalised(px)
                    ctx.ob(R, t.rel, f"{xs(node)} component of a namespace's folder @ {j2front.construct_path(stack)}", okn,
                           "the folder is stored resolved" if okn else
                           f"{whyn}: run from inside the namespace folder (`nnvg .`) the printed name is empty, with `../ns` it is whatever was typed - the "
                           "output depends on the working directory and on how the input path was spelled", getattr(node, "lineno", None))
        for node, stack in j2front.walk(t.ast):
            taint = None
            if isinstance(node, N.Name) and node.name == "now_utc" and node.ctx == "load":
                taint = "now_utc"
            elif isinstance(node, N.Getattr) and node.attr == "source_file_path" and id(node) not in safe_wrapped:
                taint = xs(node) + " (absolute input location)"
            elif isinstance(node, N.Getitem) and xs(node.arg) == "'source_file_path'":
                taint = xs(node) + " (absolute input location)"
            elif isinstance(node, N.Filter) and node.name in ("pickle", "yamlfy"):
                taint = f"{xs(node.node)} | {node.name} (whole-model dump, contains source_file_path)"
            elif isinstance(node, N.Filter) and node.name == "type_to_include_path":
                args = [xs(a) for a in node.args] + [xs(k.value) for k in node.kwargs if k.key == "resolve"]
                if any(a not in ("False", "false") for a in args):
                    taint = xs(node) + " (resolve=True gives an absolute path)"
            if taint is None:
                continue
            n_taint += 1
            ok = _under_audit(stack, aliases)
            how = "guarded"
            if not ok:
                m = j2front.enclosing_macro(stack)
                if m is not None:
                    sites = _macro_callsites(ts, t, m.name)
                    if sites and all(_under_audit(s, aliases) for s in sites):
                        ok = True
                        how = "macro called only under the guard"
            cname = taint.split(" (")[0]
            ctx.ob(
                R,
                t.rel,
                f"{cname} @ {j2front.construct_path(stack)}",
                ok,
                ("" if ok else f"tainted expression {taint} is emitted without the embed_auditing_info guard"),
                line=getattr(node, "lineno", None),
            )
    ctx.floor(R, n_taint, 8)


def _namespace_folder_normalised(px):
    """Namespace.__init__ assigns self._source_folder a value that went through .resolve() / abspath / realpath"""
    init = px.func("nunavut._namespace", "Namespace.__init__")
    for st in ast.walk(init.node):
        if isinstance(st, ast.Assign) and any(ast.unparse(t_) == "self._source_folder" for t_ in st.targets):
            v = pyfront.subst_locals(init.node, st.value)
            ok = any(isinstance(c, ast.Call) and ((isinstance(c.func, ast.Attribute) and c.func.attr in ("resolve", "absolute")) or
                                                  effects.dotted(c.func) in ("os.path.abspath", "os.path.realpath")) for c in ast.walk(v))
            return ok, f"Namespace.__init__ stores `{ast.unparse(v)[:80]}` as given"
    return False, "Namespace.__init__ no longer assigns _source_folder"


def _returned_local(fnode):
    names = {r.value.id for r in ast.walk(fnode) if isinstance(r, ast.Return) and isinstance(r.value, ast.Name)}
    return next(iter(names)) if len(names) == 1 else None


def rule_platform_version(ctx, px):
    R = "R-C07-PLATFORM"
    ctx.rule(
        R,
        "in _create_platform_version every entry other than python_version (interpreter version = tool version) is "
        "assigned under `if embed_auditing_info`",
    )
    f = px.func("nunavut.jinja.environment", "CodeGenEnvironment._create_platform_version")
    n = 0
    pv = _returned_local(f.node)
    if pv is None:
        # the mapping is returned as a literal, one per path: every key but python_version only on paths where the flag is set
        for path in pyfront.enumerate_paths(f.node.body):
            if path.outcome != "return":
                continue
            rv = path.stmts[-1].value
            if not isinstance(rv, ast.Dict):
                raise AnalysisError("anchor changed: _create_platform_version returns neither a local mapping nor a mapping literal")
            terms = pyfront.guard_terms([c_ for c_ in path.conds if not isinstance(c_[0], str)])
            flagged = ("embed_auditing_info", True) in terms
            for k_ in rv.keys:
                key = ast.unparse(k_) if k_ is not None else "**"
                n += 1
                ok = flagged or key == "'python_version'"
                ctx.ob(R, f.module.rel, f"{f.short} platform_version[{key}]", ok,
                       "" if ok else "platform datum exposed to templates without the auditing guard", rv.lineno)
        pv = "\x00"
    for st, g in pyfront.walk_guarded(f.node.body):
        if isinstance(st, ast.Assign):
            for tg in st.targets:
                if isinstance(tg, ast.Subscript) and isinstance(tg.value, ast.Name) and tg.value.id == pv:
                    key = ast.unparse(tg.slice)
                    n += 1
                    terms = pyfront.guard_terms(g)
                    guarded = ("embed_auditing_info", True) in terms
                    ok = guarded or key == "'python_version'"
                    ctx.ob(R, f.module.rel, f"{f.short} platform_version[{key}]", ok,
                           "" if ok else "platform datum exposed to templates without the auditing guard", st.lineno)
        elif isinstance(st, ast.Expr) and isinstance(st.value, ast.Call):
            d = effects.dotted(st.value.func)
            if d and d.startswith(pv + "."):
                n += 1
                terms = pyfront.guard_terms(g)
                ok = ("embed_auditing_info", True) in terms
                ctx.ob(R, f.module.rel, f"{f.short} {d}()", ok, "" if ok else "bulk update outside the guard", st.lineno)
    ctx.floor(R, n, 2)
    # the flag given to _create_platform_version is the one given to update_nunavut_globals
    u = px.func("nunavut.jinja.environment", "CodeGenEnvironment.update_nunavut_globals")
    calls = [c for c in ast.walk(u.node) if isinstance(c, ast.Call) and effects.dotted(c.func) in
             ("self._create_platform_version", "cls._create_platform_version")]
    for c in calls:
        arg = ast.unparse(c.args[0]) if c.args else ",".join(ast.unparse(k.value) for k in c.keywords)
        ctx.ob(R, u.module.rel, f"{u.short} -> _create_platform_version({arg})", arg == "embed_auditing_info",
               "" if arg == "embed_auditing_info" else "platform version built from another flag", c.lineno)
    if not calls:
        ctx.ob(R, u.module.rel, f"{u.short} -> _create_platform_version", False, "call vanished")


# --- classification of ambient reads in Python ------------------------------------------------
def _stmt(site, pm):
    return pyfront.enclosing_stmt(site.node, pm)


def _chk_utcnow(site, pm, px):
    st = _stmt(site, pm)
    return (
        isinstance(st, ast.Assign)
        and len(st.targets) == 1
        and ast.unparse(st.targets[0]) in ("self._env.now_utc",)
        and st.value is site.node
    ), "result must flow only into env.now_utc (templates read it under the auditing guard: R-C07-AMBIENT-J2)"


def _chk_in_dunder_hash(site, pm, px):
    return site.func is not None and site.func.name == "__hash__", "hash() only inside __hash__ (container identity)"


def _chk_version_gate(site, pm, px):
    st = _stmt(site, pm)
    return isinstance(st, ast.If) and any(n is site.node for n in ast.walk(st.test)), "interpreter version gate only"


def _chk_logging_arg(site, pm, px):
    st = _stmt(site, pm)
    ok = isinstance(st, ast.Expr) and isinstance(st.value, ast.Call) and (effects.dotted(st.value.func) or "").split(".")[0] in (
        "logging", "logger")
    return ok, "value flows into a logging call only"


def _chk_cli_module(site, pm, px):
    return site.module.name.startswith("nunavut.cli"), "command-line front end: declared input / stdout listing, not file content"


def _chk_lister_callback(site, pm, px):
    """generic: a helper of the CLI runner whose only use is as the to-string callback of the stdout lister (a listing printed for the
    build system, never file content)"""
    f = site.func
    if f is None or not site.module.name.startswith("nunavut.cli"):
        return False, "not a CLI listing helper"
    uses = []
    for n in ast.walk(site.module.tree):
        if (isinstance(n, ast.Attribute) and n.attr == f.name) or (isinstance(n, ast.Name) and n.id == f.name and isinstance(n.ctx, ast.Load)):
            uses.append(n)
    if not uses:
        return False, "helper is never used"
    mpm = pyfront.parent_map(site.module.tree)
    for u in uses:
        par = mpm.get(id(u))
        ok = isinstance(par, ast.Call) and u in par.args and isinstance(par.func, ast.Attribute) and par.func.attr == "_stdout_lister"
        if not ok:
            return False, f"`{f.name}` is used outside a _stdout_lister(...) callback position"
    return True, "only ever passed as the to-string callback of the stdout lister: listing for the build system, not file content"


def _chk_postprocessor_cmd(site, pm, px):
    c = site.func.cls if site.func is not None else None
    ok = c is not None and any(b.name == "FilePostProcessor" for b in c.bases)
    return ok, "command line of a user-requested external post-processor"


def _chk_source_folder(site, pm, px):
    st = _stmt(site, pm)
    ok = isinstance(st, ast.Assign) and ast.unparse(st.targets[0]) == "self._source_folder"
    if not ok and isinstance(st, ast.Assign) and len(st.targets) == 1 and isinstance(st.targets[0], ast.Name):
        # computed into a local first: every use of the local is the store into _source_folder, a test, or the argument of a raise
        loc = st.targets[0].id
        fpm = pyfront.parent_map(site.func.node)
        uses = [n for n in ast.walk(site.func.node) if isinstance(n, ast.Name) and n.id == loc and isinstance(n.ctx, ast.Load)]
        def _use_ok(u):
            s_ = pyfront.enclosing_stmt(u, fpm)
            if isinstance(s_, ast.Assign):
                return [ast.unparse(t_) for t_ in s_.targets] == ["self._source_folder"] and isinstance(s_.value, ast.Name)
            if isinstance(s_, ast.If):
                return any(x is u for x in ast.walk(s_.test))
            return isinstance(s_, ast.Raise)
        ok = bool(uses) and all(_use_ok(u) for u in uses) and any(isinstance(pyfront.enclosing_stmt(u, fpm), ast.Assign) for u in uses)
    if ok:
        # _source_folder is exposed only through the source_file_path property (tainted name for R-C07-AMBIENT-J2)
        cls = site.func.cls
        for n in ast.walk(cls.node):
            if isinstance(n, ast.Attribute) and n.attr == "_source_folder" and isinstance(n.ctx, ast.Load):
                fn = None
                for f in cls.methods.values():
                    if any(x is n for x in ast.walk(f.node)):
                        fn = f
                if fn is None or fn.name not in ("__init__", "source_file_path"):
                    return False, f"_source_folder read in {fn.name if fn else '?'}"
    return ok, "absolute source folder is stored in _source_folder, readable only as source_file_path (a tainted name)"


def _chk_resolve_param(site, pm, px):
    g = pyfront.guards_of(site.func.node, site.node)
    ok = g is not None and ("resolve", True) in pyfront.guard_terms(g)
    return ok, "absolute form only under the `resolve` parameter (no built-in template passes it: R-C07-AMBIENT-J2)"


def _chk_audit_guard_only(site, pm, px):
    return False, "must be under embed_auditing_info"


def _chk_python_version(site, pm, px):
    st = _stmt(site, pm)
    pv = _returned_local(site.func.node) if site.func is not None else None
    ok = isinstance(st, ast.Assign) and pv is not None and ast.unparse(st.targets[0]) == f"{pv}['python_version']"
    if not ok and site.func is not None:
        # ... or it is the value of the 'python_version' key of the returned literal(s) - directly, or through a local that is used for
        # nothing else
        holders = {site.node}
        if isinstance(st, ast.Assign) and len(st.targets) == 1 and isinstance(st.targets[0], ast.Name) and st.value is site.node:
            nm = st.targets[0].id
            uses = [n_ for n_ in ast.walk(site.func.node) if isinstance(n_, ast.Name) and n_.id == nm and isinstance(n_.ctx, ast.Load)]
            vals = [v_ for d_ in ast.walk(site.func.node) if isinstance(d_, ast.Dict) for k_, v_ in zip(d_.keys, d_.values)
                    if isinstance(k_, ast.Constant) and k_.value == "python_version"]
            ok = bool(uses) and all(any(u_ is v_ for v_ in vals) for u_ in uses)
        else:
            ok = any(isinstance(d_, ast.Dict) and any(isinstance(k_, ast.Constant) and k_.value == "python_version" and v_ is site.node for k_, v_ in zip(d_.keys, d_.values))
                     for d_ in ast.walk(site.func.node))
    return ok, "interpreter version is reported as part of the tool version"


def _chk_gzip_mtime(site, pm, px):
    kw = {k.arg: k.value for k in site.node.keywords}
    ok = "mtime" in kw and isinstance(kw["mtime"], ast.Constant)
    return ok, "gzip header embeds the wall clock unless a constant mtime= is passed"


def _chk_gzip_mtime_any(site, pm, px):
    # the justification is local to the call (constant mtime=), so it holds wherever the call is moved to
    if site.what != "gzip.compress":
        return False, ""
    return _chk_gzip_mtime(site, pm, px)


def _chk_sorted_return(site, pm, px):
    rets = [n for n in ast.walk(site.func.node) if isinstance(n, ast.Return) and n.value is not None]
    ok = bool(rets) and all(isinstance(r.value, ast.Call) and effects.dotted(r.value.func) == "sorted" for r in rets)
    return ok, "directory enumeration order is erased by returning sorted(...)"


def _chk_unordered_then_sorted(site, pm, px):
    """a directory enumeration inside a private helper that hands back an unordered collection (set / set comprehension), every call
    of which sits inside sorted(...): the enumeration order cannot reach anything"""
    if site.category != "fs-order" or site.func is None or site.func.cls is None or not site.func.name.startswith("_"):
        return False, ""
    f = site.func
    rets = [n for n in ast.walk(f.node) if isinstance(n, ast.Return) and n.value is not None]

    def unordered(e):
        return isinstance(e, (ast.Set, ast.SetComp)) or (isinstance(e, ast.Call) and effects.dotted(e.func) in ("set", "frozenset"))
    is_gen = any(isinstance(n, (ast.Yield, ast.YieldFrom)) for n in ast.walk(f.node)) and not rets
    if not is_gen and (not rets or not all(unordered(r.value) for r in rets)):
        return False, ""
    uses = []
    for g in [x for x in px.all_funcs if x.module is f.module]:
        gpm = pyfront.parent_map(g.node)
        for c in ast.walk(g.node):
            if isinstance(c, ast.Call) and isinstance(c.func, ast.Attribute) and c.func.attr == f.name:
                cur, ok = c, False
                while id(cur) in gpm:
                    cur = gpm[id(cur)]
                    if isinstance(cur, ast.Call) and effects.dotted(cur.func) == "sorted":
                        ok = True
                        break
                    if isinstance(cur, ast.stmt):
                        break
                uses.append(ok)
    ok = bool(uses) and all(uses)
    return ok, f"{f.short} hands back an unordered collection / a stream and each of its {len(uses)} call(s) is an argument of sorted(...)"


def _chk_support_files_order(site, pm, px):
    # iter_package_resources: order reaches (a) include lists -> sorted (R-C07-ORDER includes obligation),
    # (b) generation order -> output-irrelevant.  Structural condition: the function only yields paths.
    ok = site.func is not None and site.func.name == "iter_package_resources"
    return ok, "package resource enumeration: order reaches only generation order and the (sorted) include list"


CLASSIFIED = {
    ("src/nunavut/__init__.py", "<module>", "sys.version_info"): _chk_version_gate,
    ("src/nunavut/_namespace.py", "Namespace.__init__", ".resolve()"): _chk_source_folder,
    ("src/nunavut/_namespace.py", "Namespace.__hash__", "hash"): _chk_in_dunder_hash,
    ("src/nunavut/_utilities.py", "DefaultValue.__hash__", "hash"): _chk_in_dunder_hash,
    ("src/nunavut/_postprocessors.py", "ExternalProgramEditInPlace.__call__", "sys.executable"): _chk_postprocessor_cmd,
    ("src/nunavut/cli/__init__.py", "_extra_includes_from_env", "os.environ"): _chk_cli_module,
    ("src/nunavut/cli/__init__.py", "main", "sys.prefix"): _chk_logging_arg,
    ("src/nunavut/cli/__init__.py", "main", "__file__"): _chk_logging_arg,
    ("src/nunavut/cli/runners.py", "ArgparseRunner._list_inputs_only", ".resolve()"): _chk_cli_module,
    ("src/nunavut/jinja/__init__.py", "CodeGenerator._generate_code", "datetime.datetime.utcnow"): _chk_utcnow,
    ("src/nunavut/jinja/__init__.py", "DSDLCodeGenerator.filter_type_to_include_path", ".resolve()"): _chk_resolve_param,
    ("src/nunavut/jinja/environment.py", "CodeGenEnvironment._create_platform_version", "platform.python_version"): _chk_python_version,
    ("src/nunavut/lang/py/__init__.py", "filter_pickle", "gzip.compress"): _chk_gzip_mtime,
    ("src/nunavut/jinja/loaders.py", "DSDLTemplateLoader.get_templates", ".glob()"): _chk_sorted_return,
    ("src/nunavut/_utilities.py", "iter_package_resources", ".iterdir()"): _chk_support_files_order,
}

FS_ORDER_METHODS = {"glob", "rglob", "iterdir"}
FS_ORDER_CALLS = {"os.listdir", "os.walk", "os.scandir", "glob.glob", "glob.iglob"}


def _extra_sites(m, fb):
    """directory-order reads and __file__ (tool location) - added to the ambient inventory."""
    out = []

    def visit(node, cur):
        for c in ast.iter_child_nodes(node):
            nxt = fb.get(id(c), cur) if isinstance(c, (ast.FunctionDef, ast.AsyncFunctionDef)) else cur
            if isinstance(c, ast.Call):
                d = effects.dotted(c.func)
                r = effects.resolve_dotted(m, d) if d else None
                if r in FS_ORDER_CALLS:
                    out.append(effects.Site(cur, m, c, r, "fs-order"))
                elif isinstance(c.func, ast.Attribute) and c.func.attr in FS_ORDER_METHODS:
                    out.append(effects.Site(cur, m, c, "." + c.func.attr + "()", "fs-order"))
            elif isinstance(c, ast.Name) and c.id == "__file__" and isinstance(c.ctx, ast.Load):
                out.append(effects.Site(cur, m, c, "__file__", "tool-location"))
            visit(c, nxt)

    visit(m.tree, None)
    return out


def rule_ambient_py(ctx, px):
    R = "R-C07-AMBIENT-PY"
    ctx.rule(
        R,
        "every read of ambient state in the package (clock, environment, cwd/absolute paths, platform, hash/id, "
        "random, implicit-clock library calls, directory order, tool location) is under `embed_auditing_info` or is a "
        "classified site whose structural justification still holds; an unclassified site is a violation",
    )
    fb = {id(f.node): f for f in px.all_funcs}
    n = 0
    for m in px.modules.values():
        pm = pyfront.parent_map(m.tree)
        sites = effects.ambient_sites(m, fb) + _extra_sites(m, fb)
        seen_nodes = set()
        for s in sites:
            # skip attribute nodes that are the .func of an already reported call
            if id(s.node) in seen_nodes:
                continue
            seen_nodes.add(id(s.node))
            n += 1
            key = (m.rel, s.where, s.what)
            construct = f"{s.where} :: {s.what}"
            guarded = False
            if s.func is not None:
                top = s.func
                while top.outer is not None:
                    top = top.outer
                g = pyfront.guards_of(top.node, s.node)
                if g is not None:
                    guarded = any(p and e.endswith("embed_auditing_info") for e, p in pyfront.guard_terms(g))
            if guarded:
                ctx.ob(R, m.rel, construct, True, "under embed_auditing_info", s.node.lineno)
                continue
            chk = CLASSIFIED.get(key)
            if chk is None and ".<locals>." in s.where:
                # a lambda turned into a named nested function: classified under the enclosing function
                chk = CLASSIFIED.get((m.rel, s.where.split(".<locals>.")[0], s.what))
            if chk is None:
                # generic structural justifications that hold for any site: the value can only reach a log record, or only selects
                # code by interpreter version
                for g_chk in (_chk_logging_arg, _chk_version_gate, _chk_lister_callback, _chk_gzip_mtime_any, _chk_unordered_then_sorted):
                    try:
                        okg, whyg = g_chk(s, pm, px)
                    except Exception:
                        okg = False
                    if okg:
                        ctx.ob(R, m.rel, construct, True, whyg, s.node.lineno)
                        break
                else:
                    okg = False
                if okg:
                    continue
            if chk is None:
                ctx.ob(R, m.rel, construct, False,
                       f"unclassified ambient read ({s.category}) outside the auditing guard", s.node.lineno)
                continue
            ok, why = chk(s, pm, px)
            ctx.ob(R, m.rel, construct, ok, why if ok else f"justification no longer holds: {why}", s.node.lineno)
    ctx.floor(R, n, 18)


def _tree_walk_recursion(f, node) -> bool:
    """`for child in <nested namespaces>: yield from <this very generator>(child, ...)` inside a method of Namespace and nothing else
    in the loop: the order decides the order in which files are visited, never what a file contains."""
    if not isinstance(node, ast.For) or f.cls is None or f.cls.name != "Namespace" or node.orelse:
        return False
    if len(node.body) != 1 or not isinstance(node.body[0], ast.Expr) or not isinstance(node.body[0].value, ast.YieldFrom):
        return False
    c = node.body[0].value.value
    if not (isinstance(c, ast.Call) and isinstance(c.func, ast.Attribute) and isinstance(c.func.value, ast.Name) and c.func.attr == f.name
            and isinstance(node.target, ast.Name)):
        return False
    # the child is the first argument of the recursive call (class / static walker) or its receiver (instance walker)
    return (c.func.value.id in ("self", "cls") and bool(c.args) and ast.unparse(c.args[0]) == node.target.id) or c.func.value.id == node.target.id


def _unique_language_match(px, reason):
    """The hash-ordered list of non-target languages is harmless only while a language-bound callable can match *one*
    language: handle_conventional_methods takes the first language that matches and the order of that list is the set order.
    Structural condition: every selection test in its loop over the supported languages is an equality comparison of the
    language's package name (a prefix / containment / regex match lets `nunavut.lang.c` claim the callables of
    `nunavut.lang.cpp`, and which one wins then depends on PYTHONHASHSEED)."""
    try:
        f = px.func("nunavut._templates", "LanguageEnvironment.handle_conventional_methods")
    except AnalysisError:
        return False, "anchor missing: LanguageEnvironment.handle_conventional_methods"
    params = [a.arg for a in f.node.args.args]
    loops = [n for n in ast.walk(f.node) if isinstance(n, ast.For) and isinstance(n.iter, ast.Name) and n.iter.id in params]
    if not loops:
        return False, "anchor changed: no loop over the supported languages in handle_conventional_methods"
    for lp in loops:
        lv = lp.target.id if isinstance(lp.target, ast.Name) else None
        tests = [n.test for n in ast.walk(lp) if isinstance(n, ast.If) and lv in {x.id for x in ast.walk(n.test) if isinstance(x, ast.Name)}]
        if not tests:
            return False, "anchor changed: no language selection test in the loop"
        for t in tests:
            ok = isinstance(t, ast.Compare) and len(t.ops) == 1 and isinstance(t.ops[0], ast.Eq)
            if not ok:
                return False, (f"a language-bound callable is matched with `{ast.unparse(t)}` instead of an equality on the package name: more than "
                               "one language can match (nunavut.lang.c is a prefix of nunavut.lang.cpp) and the first in hash order wins")
    return True, reason + "; a callable matches exactly one language (equality on the package name)"


def rule_order(ctx, px, ts):
    R = "R-C07-ORDER"
    ctx.rule(
        R,
        "every iteration over a hash-ordered collection (set-typed attribute/local, set expression) whose order can "
        "reach emitted text or a returned sequence is sorted on the way; other iterations are classified with a reason",
    )
    # 1. inventory of set-typed names (attributes and locals) in the package
    set_names = {}  # (module rel, owner, name) -> node

    def is_set_expr(v):
        if isinstance(v, (ast.Set, ast.SetComp)):
            return True
        if isinstance(v, ast.Call):
            d = effects.dotted(v.func)
            if d in ("set", "frozenset"):
                return True
        if isinstance(v, ast.BinOp) and isinstance(v.op, (ast.Sub, ast.BitAnd, ast.BitOr, ast.BitXor)):
            return is_set_expr(v.left) or is_set_expr(v.right)
        return False

    set_attr_names = set()
    set_locals = {}  # func qual -> set of local names
    for f in px.all_funcs:
        for n in ast.walk(f.node):
            tgt = val = None
            if isinstance(n, ast.Assign) and len(n.targets) == 1:
                tgt, val = n.targets[0], n.value
            elif isinstance(n, ast.AnnAssign) and n.value is not None:
                tgt, val = n.target, n.value
            if tgt is None or not is_set_expr(val):
                continue
            if isinstance(tgt, ast.Attribute):
                set_attr_names.add(tgt.attr)
            elif isinstance(tgt, ast.Name):
                set_locals.setdefault(f.qual, set()).add(tgt.id)
    # methods returning iter(<set attr>) are set-ordered producers too
    set_producers = set()
    for f in px.all_funcs:
        for n in ast.walk(f.node):
            if isinstance(n, ast.Return) and n.value is not None:
                v = n.value
                if isinstance(v, ast.Call) and effects.dotted(v.func) in ("iter", "list", "tuple") and v.args:
                    v = v.args[0]
                if isinstance(v, ast.Attribute) and v.attr in set_attr_names:
                    set_producers.add(f.name)
    ctx.unit("set_typed_attributes", sorted(set_attr_names))
    ctx.unit("set_typed_locals", {k: sorted(v) for k, v in set_locals.items()})
    ctx.unit("set_order_producers", sorted(set_producers))

    def is_set_ordered(expr, f):
        if isinstance(expr, ast.Attribute) and expr.attr in set_attr_names:
            return ast.unparse(expr)
        if isinstance(expr, ast.Name) and expr.id in set_locals.get(f.qual, ()):
            return expr.id
        if is_set_expr(expr):
            return ast.unparse(expr)
        if isinstance(expr, ast.Call) and isinstance(expr.func, ast.Attribute) and expr.func.attr in set_producers:
            return ast.unparse(expr)
        return None

    # classified iterations: (function short, collection text) -> reason  (order provably output-irrelevant)
    class _Anon(ast.NodeTransformer):
        def visit_Name(self, node):
            return node if node.id in ("self", "cls", "set", "frozenset", "sorted", "list", "tuple") else ast.copy_location(ast.Name(id="_", ctx=node.ctx), node)

    def coll_key(expr):
        """collection text with every local/parameter name anonymised: the classification must not depend on variable names"""
        import copy
        return ast.unparse(_Anon().visit(copy.deepcopy(expr)))

    ACCEPT = {
        ("IncludeGenerator.generate_include_filepart_list", "_.composite_types"):
            "list is returned through sorted() when sort is true - checked below as its own obligation",
        ("Namespace._bfs_search_for_output_path", "_._nested_namespaces"):
            "search for the unique namespace holding the type; result independent of visiting order (one owner per type: R-C11)",
        ("build_namespace_tree", "_"):
            "order of linking parents and children; the links form sets, result is order independent",
        ("DSDLTemplateLoader.get_templates", "_"): "returned through sorted()",
        ("Namespace.get_nested_namespaces", "self._nested_namespaces"):
            "producer of a set-ordered iterator; every consumer (Python and template) is an obligation of its own",
        ("LanguageContextBuilder._new_language_map",
         "set(self.get_supported_language_names()) - set((_.name,))"):
            "registration order of languages; each language registers names under its own ln.<name>. prefix (disjoint keys)",
    }
    # the include list: either the caller sorts the whole list (then the order in which a language hands back its includes is erased),
    # or it sorts its own part and relies on the language's order (then that order must not come from a hash-ordered iteration)
    g_inc = px.func("nunavut.lang._common", "IncludeGenerator.generate_include_filepart_list")

    def _sorted_exprs(fn):
        out_ = []
        for st_, gd_ in pyfront.walk_guarded(fn.node.body):
            if isinstance(st_, ast.Return) and st_.value is not None:
                v_ = st_.value
                if isinstance(v_, ast.IfExp):
                    t_, a_, b_ = v_.test, v_.body, v_.orelse
                    if isinstance(t_, ast.UnaryOp) and isinstance(t_.op, ast.Not):
                        t_, a_, b_ = t_.operand, b_, a_
                    if ast.unparse(t_) == "sort":
                        v_ = a_
                    else:
                        continue
                elif ("sort", True) not in pyfront.guard_terms(gd_):
                    continue
                out_.append(pyfront.subst_locals(fn.node, v_))
        return out_
    inc_rets = _sorted_exprs(g_inc)
    def _feeds(name_):
        """the language's includes are put into the local `name_` (assignment, +=, extend / append)"""
        for n_ in ast.walk(g_inc.node):
            if isinstance(n_, (ast.Assign, ast.AugAssign, ast.AnnAssign)):
                tg_ = n_.targets[0] if isinstance(n_, ast.Assign) else n_.target
                if isinstance(tg_, ast.Name) and tg_.id == name_ and n_.value is not None and "get_includes(" in ast.unparse(n_.value):
                    return True
            if isinstance(n_, ast.Call) and isinstance(n_.func, ast.Attribute) and n_.func.attr in ("extend", "append", "update") and isinstance(n_.func.value, ast.Name) \
                    and n_.func.value.id == name_ and any("get_includes(" in ast.unparse(a_) for a_ in n_.args):
                return True
        return False

    def _sorts_all(v_):
        if not (isinstance(v_, ast.Call) and effects.dotted(v_.func) == "sorted" and v_.args):
            return False
        a0 = v_.args[0]
        return "get_includes(" in ast.unparse(a0) or (isinstance(a0, ast.Name) and _feeds(a0.id))
    sorted_all = bool(inc_rets) and all(_sorts_all(v_) for v_ in inc_rets)
    lang_unordered = []      # hash-ordered iterations inside a language's get_includes that reach its result unsorted
    n = 0
    for f in px.all_funcs:
        if f.outer is not None:
            continue
        pm = None
        for node in ast.walk(f.node):
            iters = []
            if isinstance(node, (ast.For, ast.AsyncFor)):
                iters.append(node.iter)
            elif isinstance(node, (ast.ListComp, ast.GeneratorExp, ast.DictComp, ast.SetComp)):
                iters.extend(g.iter for g in node.generators)
            elif isinstance(node, ast.Call) and effects.dotted(node.func) in ("list", "tuple", "iter", "next", "enumerate") and node.args:
                iters.append(node.args[0])
            elif isinstance(node, ast.Call) and isinstance(node.func, ast.Attribute) and node.func.attr == "join" and node.args:
                iters.append(node.args[0])
            for it in iters:
                coll = is_set_ordered(it, f)
                if coll is None:
                    continue
                if isinstance(node, ast.SetComp):
                    continue  # result is again a set
                pm = pm or pyfront.parent_map(f.node)
                # directly wrapped in sorted(...) ?
                par = pm.get(id(node))
                wrapped = False
                cur = node
                for _ in range(3):
                    par = pm.get(id(cur))
                    if isinstance(par, ast.Call) and effects.dotted(par.func) in ("sorted", "set", "frozenset", "len", "any", "all", "sum", "max", "min"):
                        wrapped = True
                        break
                    cur = par
                    if par is None:
                        break
                n += 1
                key = (f.short, coll_key(it))
                construct = f"{f.short} iterates {coll_key(it)}"
                if wrapped:
                    ctx.ob(R, f.module.rel, construct, True, "order erased by sorted()/set()/aggregate", node.lineno)
                elif _tree_walk_recursion(f, node):
                    ctx.ob(R, f.module.rel, construct, True, "recursion of a tree-walk generator (the loop body only yields from the generator's own call on the "
                           "nested namespace): processing order of files only; per-file content is order independent (R-C10)", node.lineno)
                elif f.name == "get_includes" and f.cls is not None:
                    lang_unordered.append((f, node))
                    ctx.ob(R, f.module.rel, construct, sorted_all,
                           "the only caller sorts the whole include list" if sorted_all else
                           "the include generator does not sort what the language hands back, and this iteration follows the hash order of a set: "
                           "the order of #include lines changes with PYTHONHASHSEED", node.lineno)
                elif key in ACCEPT:
                    okj, whyj = True, ACCEPT[key]
                    if key[0] == "LanguageContextBuilder._new_language_map":
                        okj, whyj = _unique_language_match(px, ACCEPT[key])
                    ctx.ob(R, f.module.rel, construct, okj, whyj, node.lineno)
                else:
                    ctx.ob(R, f.module.rel, construct, False,
                           "iteration over a hash-ordered collection is neither sorted nor classified as order-irrelevant",
                           node.lineno)
    ctx.floor(R, n, 6)

    # 2. include list: the sort parameter defaults to True everywhere and no built-in template switches it off
    g = g_inc
    own_sorted = sorted_all
    if not own_sorted:
        # the generated paths are sorted on their own (sorted(paths) + ..., or paths.sort() before the return) and the language's includes
        # follow in the order the language gives them
        def part_sorted(v_):
            parts_ = []

            def flat(e_):
                if isinstance(e_, ast.BinOp) and isinstance(e_.op, ast.Add):
                    flat(e_.left)
                    flat(e_.right)
                else:
                    parts_.append(e_)
            flat(v_)
            ok_ = True
            for e_ in parts_:
                if "get_includes(" in ast.unparse(e_):
                    continue
                if isinstance(e_, ast.Call) and effects.dotted(e_.func) == "sorted":
                    continue
                if isinstance(e_, ast.Name) and any(isinstance(c_, ast.Call) and isinstance(c_.func, ast.Attribute) and c_.func.attr == "sort" and isinstance(c_.func.value, ast.Name)
                                                    and c_.func.value.id == e_.id for c_ in ast.walk(g.node)):
                    continue
                ok_ = False
            return ok_ and bool(parts_)
        raw_rets = [st_.value for st_, gd_ in pyfront.walk_guarded(g.node.body) if isinstance(st_, ast.Return) and st_.value is not None and ("sort", False) not in pyfront.guard_terms(gd_)]
        own_sorted = bool(raw_rets) and all(part_sorted(v_) for v_ in raw_rets) and not lang_unordered
    sorted_ret = own_sorted
    ctx.ob(R, g.module.rel, f"{g.short} returns sorted(...) under `sort`", sorted_ret,
           "" if sorted_ret else "under `sort` the list is neither sorted as a whole nor made of a sorted part plus the language's includes in a fixed order", g.node.lineno)
    nflt = 0
    for f in px.all_funcs:
        if f.name in ("filter_includes", "filter_imports") and f.outer is None:
            nflt += 1
            args = f.node.args
            names = [a.arg for a in args.args]
            dflt = dict(zip(names[len(names) - len(args.defaults):], args.defaults))
            d = dflt.get("sort")
            ok = isinstance(d, ast.Constant) and d.value is True
            ctx.ob(R, f.module.rel, f"{f.short} default sort=True", ok, "" if ok else "sort no longer defaults to True", f.node.lineno)
            # every call to generate_include_filepart_list forwards `sort`
            for c in ast.walk(f.node):
                if isinstance(c, ast.Call) and isinstance(c.func, ast.Attribute) and c.func.attr == "generate_include_filepart_list":
                    a = [ast.unparse(x) for x in c.args] + [ast.unparse(k.value) for k in c.keywords if k.arg == "sort"]
                    ok = "sort" in a or "True" in a
                    ctx.ob(R, f.module.rel, f"{f.short} forwards sort", ok, "" if ok else f"args {a}", c.lineno)
    ctx.floor(R + ":filters", nflt, 3)
    N = ts.nodes
    for t in ts.templates:
        for node, stack in j2front.walk(t.ast):
            if isinstance(node, N.Filter) and node.name in ("includes", "imports"):
                args = [xs(a) for a in node.args] + [xs(k.value) for k in node.kwargs]
                ok = all(a in ("True", "true") for a in args)
                ctx.ob(R, t.rel, f"{xs(node)} @ {j2front.construct_path(stack)}", ok,
                       "" if ok else "built-in template requests an unsorted include/import list", node.lineno)
            if isinstance(node, N.Call) and isinstance(node.node, N.Getattr) and node.node.attr in set_producers:
                # template iterates a set-ordered producer: must be piped into a sorting filter
                ok = False
                why = "set-ordered producer used by a template without a sorting filter"
                # find the Filter whose .node is this call
                for flt in t.ast.find_all(N.Filter):
                    if flt.node is node and (flt.name.startswith("natural_sort") or flt.name == "sort"):
                        ok = True
                ctx.ob(R, t.rel, f"{xs(node)} @ {j2front.construct_path(stack)}", ok, "" if ok else why, node.lineno)


LOSSY_CALLS = {"int", "float", "len", "abs", "round", "bool"}
LOSSY_METHODS = {"lower", "upper", "casefold", "strip", "lstrip", "rstrip", "title", "capitalize", "isdigit"}


def rule_sort_keys(ctx, px):
    R = "R-C07-SORT-KEY"
    ctx.rule(
        R,
        "a sort whose job is to erase hash order must order distinct elements totally: its key may not be a lossy "
        "image of the element (int(), lower(), len() ...) unless the raw value takes part in the key as a tie-breaker; "
        "otherwise equal keys keep the arbitrary input order",
    )
    n = 0
    for f in px.all_funcs:
        if not f.module.name.startswith("nunavut.lang"):
            continue
        for c in ast.walk(f.node):
            if not (isinstance(c, ast.Call) and (effects.dotted(c.func) == "sorted" or (isinstance(c.func, ast.Attribute) and c.func.attr == "sort"))):
                continue    # sorted(x, key=..) and x.sort(key=..)
            kw = {k.arg: k.value for k in c.keywords}
            if "key" not in kw:
                continue
            n += 1
            key = kw["key"]
            # resolve the key callable: lambda, or a local def
            body = None
            params = []
            if isinstance(key, ast.Lambda):
                body, params = key.body, [a.arg for a in key.args.args]
            elif isinstance(key, ast.Name):
                for d in ast.walk(f.node):
                    if isinstance(d, ast.FunctionDef) and d.name == key.id:
                        rets = [r.value for r in ast.walk(d) if isinstance(r, ast.Return) and r.value is not None]
                        body = ast.Tuple(elts=rets, ctx=ast.Load()) if len(rets) != 1 else rets[0]
                        body._def = d  # type: ignore
                        params = [a.arg for a in d.args.args]
            if body is None:
                ctx.ob(R, f.module.rel, f"{f.short} :: sorted(..., key={ast.unparse(key)})", True, "key is an attribute/function reference (not analysed further)", c.lineno)
                continue

            def lossy(node, depth=0):
                for x in ast.walk(node):
                    if isinstance(x, ast.Call):
                        d = effects.dotted(x.func)
                        if d in LOSSY_CALLS:
                            return True
                        if isinstance(x.func, ast.Attribute) and x.func.attr in LOSSY_METHODS:
                            return True
                        # a call to a local function defined in f: look inside once
                        if depth < 1 and isinstance(x.func, ast.Name):
                            for dd in ast.walk(f.node):
                                if isinstance(dd, ast.FunctionDef) and dd.name == x.func.id and lossy(dd, depth + 1):
                                    return True
                return False

            whole = getattr(body, "_def", body)
            is_lossy = lossy(whole)
            tie_broken = False
            if isinstance(body, ast.Tuple) and len(body.elts) >= 2:
                # some component must be non-lossy (raw key)
                tie_broken = any(not lossy(e) for e in body.elts)
            ok = (not is_lossy) or tie_broken
            ctx.ob(R, f.module.rel, f"{f.short} :: sorted(..., key={ast.unparse(key)[:60]})", ok,
                   ("raw value is part of the key" if tie_broken else "key is not lossy") if ok else
                   "the key is a lossy image of the element (e.g. int('01') == int('1')): elements with equal keys keep the order of the "
                   "hash-ordered input, so the output depends on PYTHONHASHSEED", c.lineno)
    ctx.floor(R, n, 1)


def run(ctx):
    ctx.explanation = (
        "C07 is decided structurally: the analyser enumerates every read of ambient state in the Python package "
        "(resolved through import tables) and every tainted expression in the 40 built-in templates (parsed with "
        "the bundled Jinja parser) and requires each to be dominated by the embed_auditing_info guard or to be a "
        "classified site whose structural justification is re-checked on every run; iteration over hash-ordered "
        "collections must be sorted before it can reach text.  Byte identity of two runs is not observed."
    )
    ctx.declined = [
        "byte-identity of whole runs (a relation between executions)",
        "internal state of pydsdl objects beyond the axioms (e.g. what pickle(T) contains) - see known finding on `| pickle`",
    ]
    ts = j2front.TemplateSet(ctx.root)
    px = pyfront.PyIndex(ctx.root)
    ctx.unit("templates", len(ts.templates))
    ctx.unit("python_modules", len(px.modules))
    ctx.unit("python_functions", len(px.all_funcs))
    rule_ambient_j2(ctx, ts, px)
    rule_platform_version(ctx, px)
    rule_ambient_py(ctx, px)
    rule_order(ctx, px, ts)
    rule_sort_keys(ctx, px)
    from checks import C10

    C10.rule_memo(ctx, px, R="R-C07-MEMO")  # output must be a function of the inputs within one process as well
    # the files of a run are generated in the iteration order of a set of namespaces (hash order: it changes with PYTHONHASHSEED and
    # with the location of the inputs).  That order is harmless exactly while no file's text depends on what was rendered before it
    C10.rule_state(ctx, px, R="R-C07-CROSS-FILE", why="[generation order is hash order; it must not reach the text] ")
    C10.rule_context_free(ctx, px, ts, "R-C07-CROSS-FILE")
    C10.rule_folded_load(ctx, px, ts, "R-C07-CROSS-FILE")
