"""
C09 - identifier stropping always yields valid, unreserved, deterministic identifiers.
Static: must-pass-through on TokenEncoder.strop, match-conditioned transformations, purity, and regex-AST / table
reasoning over the stropping configuration of every built-in language.
"""
import ast
import builtins
import keyword

try:
    import re._parser as sre_parse
    import re._constants as sre_c
except ImportError:  # pragma: no cover
    import sre_parse  # type: ignore
    import sre_constants as sre_c  # type: ignore

import yaml

from nvsa import effects, pyfront, reach
from nvsa.report import AnalysisError

COMMON = "nunavut.lang._common"

C11_KEYWORDS = """auto break case char const continue default do double else enum extern float for goto if inline int long
register restrict return short signed sizeof static struct switch typedef union unsigned void volatile while _Alignas
_Alignof _Atomic _Bool _Complex _Generic _Imaginary _Noreturn _Static_assert _Thread_local""".split()
CPP20_KEYWORDS = """alignas alignof and and_eq asm auto bitand bitor bool break case catch char char8_t char16_t char32_t
class compl concept const consteval constexpr constinit const_cast continue co_await co_return co_yield decltype default
delete do double dynamic_cast else enum explicit export extern false float for friend goto if inline int long mutable
namespace new noexcept not not_eq nullptr operator or or_eq private protected public register reinterpret_cast requires
return short signed sizeof static static_assert static_cast struct switch template this thread_local throw true try
typedef typeid typename union unsigned using virtual void volatile wchar_t while xor xor_eq""".split()

ALPHABET = set("abcdefghijklmnopqrstuvwxyzABCDEFGHIJKLMNOPQRSTUVWXYZ0123456789_")


# ---------------------------------------------------------------------------------------------------------------
def rule_recheck(ctx, px):
    R = "R-C09-RECHECK"
    ctx.rule(
        R,
        "every return of TokenEncoder.strop is dominated by the three dry-run re-verifications (reserved pattern, "
        "reserved identifier, encoding stability), each of which either re-raises or replaces the token through the "
        "registered failure handler; no path returns a token that skipped them",
    )
    f = px.func(COMMON, "TokenEncoder.strop")
    rets = [r for r in ast.walk(f.node) if isinstance(r, ast.Return)]
    if not rets:
        raise AnalysisError("anchor missing: return of TokenEncoder.strop")
    for r in rets:
        dom = pyfront.dominating_stmts(f.node, r) or []
        tries = [d for d in dom if isinstance(d, ast.Try)]
        found = {}
        for t in tries:
            for c in ast.walk(ast.Module(body=t.body, type_ignores=[])):
                if isinstance(c, ast.Call) and ast.unparse(c.func) == "self._do_for_type_and_all" and len(c.args) == 4 \
                        and ast.unparse(c.args[3]) == "True":
                    what = ast.unparse(c.args[0])
                    # handler shape: `if handler is None: raise` ... `stropped = handler(...)`
                    hs = t.handlers
                    ok_h = len(hs) == 1 and any(isinstance(x, ast.Raise) for x in ast.walk(hs[0])) and any(
                        isinstance(x, ast.Assign) and ast.unparse(x.targets[0]) == ast.unparse(r.value) for x in ast.walk(hs[0]))
                    subject = ast.unparse(c.args[1])
                    found[what] = (ok_h, subject, t.lineno)
        for what, label in (("self._strop_by_pattern", "reserved pattern"), ("self._strop_by_keyword", "reserved identifier"),
                            ("self._encode", "encoding stability")):
            info = found.get(what)
            ok = info is not None and info[0] and info[1] == ast.unparse(r.value)
            ctx.ob(R, f.module.rel, f"{f.short} :: dry-run {label} check dominates `return {ast.unparse(r.value)}`", ok,
                   "" if ok else ("check missing on the path to the return: a reserved or unstable token can be returned" if info is None
                                  else "failure is swallowed or the check is applied to another variable"), r.lineno)
    # 'all' is refused
    raises = [pyfront.guard_terms(g) for st, g in pyfront.walk_guarded(f.node.body) if isinstance(st, ast.Raise) and not g == ()]
    tt_param = f.node.args.args[2].arg if len(f.node.args.args) > 2 else "token_type"
    asg = {t.id: ast.unparse(n.value) for n in ast.walk(f.node) if isinstance(n, ast.Assign) for t in n.targets if isinstance(t, ast.Name)}
    tt_names = {tt_param} | {k for k, v in asg.items() if v in (f"{tt_param}.lower()", f"{tt_param}.casefold()")}
    ok = any(any(p and e in {f"{n} == 'all'" for n in tt_names} | {f"'all' == {n}" for n in tt_names} for e, p in t) for t in raises)
    ctx.ob(R, f.module.rel, f"{f.short} :: token type 'all' is refused", ok, "", f.node.lineno)
    # dry-run branches raise
    for name in ("_strop_by_keyword", "_strop_by_pattern", "_encode"):
        g = px.func(COMMON, f"TokenEncoder.{name}")
        dry_raises = []
        for st, gd in pyfront.walk_guarded(g.node.body):
            if isinstance(st, ast.Raise):
                dry_raises.append(pyfront.guard_terms(gd))
        ok = any(("dry_run", False) not in t and (("dry_run", True) in t or ("not dry_run", False) in t or any(e == "dry_run" and p for e, p in t)
                                                   or any(e == "not dry_run" and not p for e, p in t)) for t in dry_raises)
        ctx.ob(R, g.module.rel, f"{g.short} :: a match in dry-run mode raises", ok, f"raise guards: {dry_raises}", g.node.lineno)
    # _do_for_type_and_all applies the transform for 'all' and for the type
    d = px.func(COMMON, "TokenEncoder._do_for_type_and_all")
    calls = [c for c in ast.walk(d.node) if isinstance(c, ast.Call) and isinstance(c.func, ast.Name) and c.func.id == "transform"]
    args = [ast.unparse(c.args[1]) for c in calls if len(c.args) >= 2]
    ok = sorted(args) == ["'all'", "token_type"]
    ctx.ob(R, d.module.rel, f"{d.short} :: rules of 'all' and of the token type are both applied", ok, f"{args}", d.node.lineno)


def rule_identity(ctx, px):
    R = "R-C09-IDENTITY"
    ctx.rule(
        R,
        "each transformation changes the token only inside a branch conditioned on a match (`_matches(...)`, the "
        "callback of pattern.sub), so an already valid, unreserved identifier is returned unchanged",
    )
    for name in ("_strop_by_keyword", "_strop_by_pattern"):
        g = px.func(COMMON, f"TokenEncoder.{name}")
        rets = [ast.unparse(r.value) for r in ast.walk(g.node) if isinstance(r, ast.Return)]
        var = rets[0] if rets else None
        stores = []
        for st, gd in pyfront.walk_guarded(g.node.body):
            if isinstance(st, ast.Assign) and ast.unparse(st.targets[0]) == var and ast.unparse(st.value) != g.node.args.args[1].arg:
                stores.append((ast.unparse(st.value), pyfront.guard_terms(gd)))
        ok = bool(stores) and all(any(e.startswith("self._matches(") and p for e, p in t) for _, t in stores)
        ctx.ob(R, g.module.rel, f"{g.short} :: token modified only under _matches(...)", ok, f"{stores}", g.node.lineno)
        ok = all(v == f"self._stropping_prefix + {var} + self._stropping_suffix" for v, _ in stores)
        ctx.ob(R, g.module.rel, f"{g.short} :: modification is prefix + token + suffix", ok, f"{[v for v, _ in stores]}", g.node.lineno)
    e = px.func(COMMON, "TokenEncoder._encode")
    subs = [c for c in ast.walk(e.node) if isinstance(c, ast.Call) and isinstance(c.func, ast.Attribute) and c.func.attr == "sub"]
    ok = len(subs) == 1 and ast.unparse(subs[0].args[0]) == "self._encoding_filter"
    ctx.ob(R, e.module.rel, f"{e.short} :: characters change only inside pattern.sub(self._encoding_filter, ...)", ok, "", e.node.lineno)
    m = px.func(COMMON, "TokenEncoder._matches")
    inp = m.node.args.args[1].arg
    loops = [n for n in ast.walk(m.node) if isinstance(n, ast.For) and isinstance(n.target, ast.Name)]
    ok = False
    if loops:
        lv = loops[0].target.id
        eq = any(isinstance(c, ast.Compare) and len(c.ops) == 1 and isinstance(c.ops[0], ast.Eq) and {ast.unparse(c.left), ast.unparse(c.comparators[0])} == {lv, inp}
                 for c in ast.walk(loops[0]))
        mt = any(isinstance(c, ast.Call) and isinstance(c.func, ast.Attribute) and c.func.attr in ("match", "fullmatch") and ast.unparse(c.func.value) == lv
                 and [ast.unparse(a) for a in c.args] == [inp] for c in ast.walk(loops[0]))
        ok = eq and mt
    ctx.ob(R, m.module.rel, f"{m.short} :: strings compare for equality, patterns with match()", ok, "", m.node.lineno)


def rule_pure(ctx, px):
    R = "R-C09-PURE"
    ctx.rule(
        R,
        "strop's call graph reads no ambient state, and the lru_cache key (self, token, token_type) covers every input "
        "it reads: the encoder's attributes are written only in __init__",
    )
    f = px.func(COMMON, "TokenEncoder.strop")
    fb = {id(g.node): g for g in px.all_funcs}
    region = {}
    for g, st, gd, chain in reach.region_walk(px, [f], lambda a, b: False):
        region[g.qual] = g
    amb = []
    for g in region.values():
        for s in effects.ambient_sites(g.module, fb):
            if s.func is g:
                amb.append(f"{g.short}:{s.what}")
    ctx.unit("strop_region_functions", sorted(g.short for g in region.values()))
    ctx.ob(R, f.module.rel, f"{f.short} :: no ambient read in {len(region)} reachable functions", not amb, "" if not amb else f"{amb}", f.node.lineno)
    cls = px.cls(COMMON, "TokenEncoder")
    written = {}
    for name, g in cls.methods.items():
        for n in ast.walk(g.node):
            tg = n.targets if isinstance(n, ast.Assign) else ([n.target] if isinstance(n, (ast.AugAssign, ast.AnnAssign)) else [])
            for t in tg:
                if isinstance(t, ast.Attribute) and isinstance(t.value, ast.Name) and t.value.id == "self":
                    written.setdefault(t.attr, set()).add(name)
    bad = {a: sorted(ms) for a, ms in written.items() if ms - {"__init__"}}
    ctx.ob(R, f.module.rel, "TokenEncoder :: attributes are written in __init__ only", not bad, "" if not bad else f"{bad}")
    ok = any("lru_cache" in d for d in f.decorators)
    params = [a.arg for a in f.node.args.args]
    ctx.ob(R, f.module.rel, f"{f.short} :: memo key = {params}", params == ["self", "token", "token_type"], "cached" if ok else "not cached", f.node.lineno)


# ---------------------------------------------------------------------------------------------------------------
def _class_of_negated_rule(pattern):
    """for rules of the form  [^...]+  /  ([^...]+): the set of characters NOT matched, else None"""
    p = sre_parse.parse(pattern)
    items = list(p)
    while len(items) == 1 and items[0][0] is sre_c.SUBPATTERN:
        items = list(items[0][1][3])
    if len(items) != 1:
        return None
    op = items[0]
    if op[0] in (sre_c.MAX_REPEAT, sre_c.MIN_REPEAT):
        lo, hi, inner = op[1]
        inner = list(inner)
        if lo < 1 or len(inner) != 1:
            return None
        op = inner[0]
    if op[0] is not sre_c.IN:
        return None
    spec = list(op[1])
    if not spec or spec[0][0] is not sre_c.NEGATE:
        return None
    listed = set()
    for k, v in spec[1:]:
        if k is sre_c.LITERAL:
            listed.add(chr(v))
        elif k is sre_c.RANGE:
            lo, hi = v
            if hi - lo > 200:
                return None
            listed.update(chr(c) for c in range(lo, hi + 1))
        else:
            return None
    return listed


def _first_chars_can_start_with(pattern, prefix_pred):
    """conservative: can `pattern` (used with .match) match a string whose first two characters satisfy prefix_pred(c0,c1)?
    Enumerates the first two positions over a small alphabet."""
    import itertools
    p = sre_parse.parse(pattern)

    probes = "_aA0z9Z-"

    def matches_prefix(s):
        # evaluate the regex AST on a 2-char prefix symbolically: we use a tiny recursive matcher over the parsed ops
        return _prefix_possible(list(p), s)

    for c0, c1 in itertools.product(probes, repeat=2):
        if prefix_pred(c0, c1) and matches_prefix(c0 + c1):
            return True, c0 + c1
    return False, None


def _in_class(spec, ch):
    neg = False
    hit = False
    for k, v in spec:
        if k is sre_c.NEGATE:
            neg = True
        elif k is sre_c.LITERAL:
            hit |= ord(ch) == v
        elif k is sre_c.RANGE:
            hit |= v[0] <= ord(ch) <= v[1]
        elif k is sre_c.CATEGORY:
            if v is sre_c.CATEGORY_DIGIT:
                hit |= ch.isdigit()
            elif v is sre_c.CATEGORY_SPACE:
                hit |= ch.isspace()
            elif v is sre_c.CATEGORY_WORD:
                hit |= ch.isalnum() or ch == "_"
            elif v is sre_c.CATEGORY_NOT_DIGIT:
                hit |= not ch.isdigit()
            elif v is sre_c.CATEGORY_NOT_SPACE:
                hit |= not ch.isspace()
            elif v is sre_c.CATEGORY_NOT_WORD:
                hit |= not (ch.isalnum() or ch == "_")
    return hit != neg


def _prefix_possible(ops, s):
    """can the op sequence match some string that starts with s (or of which s... ) - i.e. is s a viable prefix of a
    match anchored at position 0?  Returns True when the first len(s) characters are consistent with the pattern (or
    the pattern completes within them)."""
    def rec(ops, i, pos):
        # returns True if ops[i:] can match starting at s[pos:], treating exhaustion of s as success
        if pos >= len(s):
            return True
        if i >= len(ops):
            return True  # pattern complete: .match succeeds regardless of the rest
        op, av = ops[i]
        if op is sre_c.AT:
            if av in (sre_c.AT_BEGINNING, sre_c.AT_BEGINNING_STRING):
                return pos == 0 and rec(ops, i + 1, pos)
            if av in (sre_c.AT_END, sre_c.AT_END_STRING):
                return False
            return rec(ops, i + 1, pos)
        if op is sre_c.LITERAL:
            return s[pos] == chr(av) and rec(ops, i + 1, pos + 1)
        if op is sre_c.NOT_LITERAL:
            return s[pos] != chr(av) and rec(ops, i + 1, pos + 1)
        if op is sre_c.ANY:
            return rec(ops, i + 1, pos + 1)
        if op is sre_c.IN:
            return _in_class(av, s[pos]) and rec(ops, i + 1, pos + 1)
        if op is sre_c.CATEGORY:
            return _in_class([(sre_c.CATEGORY, av)], s[pos]) and rec(ops, i + 1, pos + 1)
        if op is sre_c.SUBPATTERN:
            inner = list(av[3])
            return rec(inner + list(ops[i + 1:]), 0, pos)
        if op is sre_c.BRANCH:
            return any(rec(list(a) + list(ops[i + 1:]), 0, pos) for a in av[1])
        if op in (sre_c.MAX_REPEAT, sre_c.MIN_REPEAT):
            lo, hi, inner = av
            inner = list(inner)
            hi = min(int(hi), 3)
            for k in range(lo, max(lo, hi) + 1):
                if rec(inner * k + list(ops[i + 1:]), 0, pos):
                    return True
            return False
        return True  # unknown op: assume possible (conservative towards reporting)

    return rec(ops, 0, 0)


def rule_config(ctx, px, root):
    R = "R-C09-CONFIG"
    ctx.rule(
        R,
        "per built-in language with stropping enabled: the 'all' encoding rules cover every character outside the "
        "identifier alphabet and the leading-digit case; the images of encoding (prefix + upper-case hex, whitespace "
        "character) and the stropping prefix/suffix lie inside the alphabet and do not start with a digit; prefix + "
        "reserved word + suffix is not itself reserved unless a failure handler is installed; the failure handlers' "
        "output language is disjoint from the reserved list and from every 'all' reserved pattern; the reserved lists "
        "contain the ISO C11 / C++20 keyword tables and Python's keyword + builtins construction",
    )
    cfg = yaml.safe_load((root / "src" / "nunavut" / "lang" / "properties.yaml").read_text())
    src = "src/nunavut/lang/properties.yaml"
    n_lang = 0
    for lang in ("c", "cpp", "py"):
        sect = cfg.get(f"nunavut.lang.{lang}") or {}
        if not sect.get("enable_stropping"):
            ctx.ob(R, src, f"{lang}: stropping enabled", False, "built-in language generates identifiers without stropping")
            continue
        n_lang += 1
        rules = (sect.get("token_encoding_rules_by_identifier_type") or {}).get("all") or []
        pats = (sect.get("reserved_token_patterns_by_type") or {})
        all_pats = pats.get("all") or []
        enc = sect.get("encoding_prefix") or ""
        pre = sect.get("stropping_prefix") or ""
        suf = sect.get("stropping_suffix") or ""
        ws = sect.get("whitespace_encoding_char")
        reserved = list(sect.get("reserved_identifiers") or [])
        # (a) alphabet coverage
        unmatched = None
        for r in rules:
            listed = _class_of_negated_rule(r)
            if listed is not None:
                unmatched = listed if unmatched is None else (unmatched & listed)
        ok = unmatched is not None and unmatched <= ALPHABET
        ctx.ob(R, src, f"{lang}: an unanchored encoding rule matches every character outside [A-Za-z0-9_]", ok,
               "" if ok else (f"characters left unencoded: {sorted(unmatched - ALPHABET)}" if unmatched is not None else
                              "no rule of the form [^...]+ : illegal characters can survive encoding"))
        lead_digit = any(_prefix_possible(list(sre_parse.parse(r)), "1") and str(r).lstrip("(").startswith("^") for r in rules) or \
            any(_prefix_possible(list(sre_parse.parse(r)), "1") and str(r).lstrip("(").startswith("^") for r in all_pats)
        ctx.ob(R, src, f"{lang}: a leading digit is encoded or stropped", lead_digit,
               "" if lead_digit else "a token starting with a digit is returned as is (not an identifier)")
        # (b) images
        for label, val in (("encoding_prefix", enc), ("stropping_prefix", pre), ("stropping_suffix", suf), ("whitespace_encoding_char", ws or "")):
            ok = set(val) <= ALPHABET
            ctx.ob(R, src, f"{lang}: {label} {val!r} lies inside the identifier alphabet", ok, "" if ok else "encoded/stropped tokens contain illegal characters")
        ok = bool(enc) and not enc[0].isdigit()
        ctx.ob(R, src, f"{lang}: encoding_prefix does not start with a digit (encoded leading characters stay legal)", ok,
               "" if ok else f"encoding_prefix {enc!r}: a token whose first character is encoded starts with a digit")
        ok = not (pre and pre[0].isdigit())
        ctx.ob(R, src, f"{lang}: stropping_prefix does not start with a digit", ok, "")
        ok = bool(pre or suf)
        ctx.ob(R, src, f"{lang}: stropping changes the token (prefix or suffix is non-empty)", ok,
               "" if ok else "reserved words are returned unchanged")
        # (c) prefix + w + suffix not reserved
        m = px.module(f"nunavut.lang.{lang}")
        enc_call = None
        for n in ast.walk(m.tree):
            if isinstance(n, ast.Call) and ast.unparse(n.func) == "TokenEncoder":
                enc_call = n
        if enc_call is None:
            raise AnalysisError(f"anchor missing: TokenEncoder(...) construction in nunavut.lang.{lang}")
        kws = {k.arg: ast.unparse(k.value) for k in enc_call.keywords}
        has_strop_handler = "stropping_failure_handler" in kws
        has_enc_handler = "encoding_failure_handler" in kws
        full_reserved = set(reserved)
        if lang == "py":
            full_reserved |= set(map(str, list(keyword.kwlist) + dir(builtins)))
        clashes = [w for w in full_reserved if (pre + w + suf) in full_reserved]
        ok = not clashes or has_strop_handler
        ctx.ob(R, src, f"{lang}: prefix + reserved word + suffix is not itself a reserved word ({len(full_reserved)} words)", ok,
               ("" if not clashes else f"{clashes[:5]} handled by the failure handler") if ok else
               f"{clashes[:5]}: stropping yields another reserved word and strop raises for ordinary DSDL names")
        pat_clashes = []
        for w in sorted(full_reserved):
            t = pre + w + suf
            for p in all_pats:
                if _prefix_possible(list(sre_parse.parse(p)), t[:2]) and __import__("re").match(p, t):
                    pat_clashes.append((w, p))
        ok = not pat_clashes or has_strop_handler
        ctx.ob(R, src, f"{lang}: stropped reserved words do not match an 'all' reserved pattern (or a failure handler exists)", ok,
               f"{len(pat_clashes)} stropped words hit a pattern; handler installed" if pat_clashes and ok else ("" if ok else f"{pat_clashes[:4]}"))
        # (d) failure handler output language:  "_" + non-upper, non-underscore
        if has_strop_handler or has_enc_handler:
            bad_ids = [w for w in full_reserved if len(w) > 1 and w[0] == "_" and not (w[1].isupper() or w[1] == "_")]
            ctx.ob(R, src, f"{lang}: no reserved identifier has the shape of a failure-handler result (`_` + non-upper-case)", not bad_ids,
                   "" if not bad_ids else f"{bad_ids[:5]} can be produced by the handler")
            for p in all_pats:
                can, ex = _first_chars_can_start_with(p, lambda c0, c1: c0 == "_" and not (c1.isupper() or c1 == "_"))
                ctx.ob(R, src, f"{lang}: reserved pattern {p!r} cannot match a failure-handler result", not can,
                       "" if not can else f"e.g. a token starting {ex!r}")
            # handler shape
            hname = (kws.get("stropping_failure_handler") or kws.get("encoding_failure_handler")).split(".")[-1]
            h = None
            for f in px.all_funcs:
                if f.module is m and f.name == hname:
                    h = f
            if h is None:
                raise AnalysisError(f"anchor missing: failure handler {hname} of {lang}")
            hs = ast.unparse(h.node)
            ok = "re.match('^_+([A-Z]?)', stropped)" in hs and ".lower()" in hs and "raise pending_error" in hs
            ctx.ob(R, m.rel, f"{h.short} :: returns `_` + lower-cased first letter + rest, or re-raises", ok, "", h.node.lineno)
        # (e) keyword tables
        if lang in ("c", "cpp"):
            missing = sorted(set(C11_KEYWORDS + CPP20_KEYWORDS) - set(reserved))
            ctx.ob(R, src, f"{lang}: reserved_identifiers contains the ISO C11 and C++20 keyword tables ({len(set(C11_KEYWORDS + CPP20_KEYWORDS))} words)",
                   not missing, "" if not missing else f"missing keywords: {missing}")
        else:
            cls = m.classes.get("Language")
            expr = None
            for st in cls.node.body:
                if isinstance(st, (ast.Assign, ast.AnnAssign)) and "PYTHON_RESERVED_IDENTIFIERS" in ast.unparse(st.targets[0] if isinstance(st, ast.Assign) else st.target):
                    expr = ast.unparse(st.value)
            ok = expr is not None and "keyword.kwlist" in expr and "dir(builtins)" in expr
            ctx.ob(R, m.rel, "py: PYTHON_RESERVED_IDENTIFIERS = keyword.kwlist + dir(builtins)", ok, str(expr))
            ok = kws.get("additional_reserved_identifiers") == "self.PYTHON_RESERVED_IDENTIFIERS"
            ctx.ob(R, m.rel, "py: the encoder receives PYTHON_RESERVED_IDENTIFIERS", ok, str(kws))
    ctx.floor(R + ":languages", n_lang, 3)
    # filter_id of each language routes through strop
    for lang in ("c", "cpp", "py"):
        m = px.module(f"nunavut.lang.{lang}")
        f = m.classes["Language"].methods.get("filter_id")
        if f is None:
            raise AnalysisError(f"anchor missing: Language.filter_id of {lang}")
        rets = [ast.unparse(r.value) for r in ast.walk(f.node) if isinstance(r, ast.Return)]
        ok = bool(rets) and all(".strop(" in r for r in rets)
        ctx.ob(R, m.rel, f"{lang}: Language.filter_id returns the encoder's strop() result", ok, f"{rets}", f.node.lineno)


def run(ctx):
    ctx.explanation = (
        "C09 is decided on two levels: (1) the shape of TokenEncoder.strop - every return is dominated by the three "
        "dry-run re-verifications, transformations happen only under a match, the call graph is pure and memoised on "
        "all its inputs; (2) the configuration of each built-in language in properties.yaml, reasoned about through "
        "regex ASTs and tables - alphabet coverage of the encoding rules, images inside the alphabet, stropped reserved "
        "words not reserved, failure-handler results disjoint from everything reserved, keyword tables complete.  The "
        "value-level claim for every unicode string is not enumerated."
    )
    ctx.declined = ["validity of the result for every unicode string as a value-level claim about re.sub compositions",
                    "configuration overrides supplied by users"]
    px = pyfront.PyIndex(ctx.root)
    rule_recheck(ctx, px)
    rule_identity(ctx, px)
    rule_pure(ctx, px)
    rule_config(ctx, px, ctx.root)
