"""
C09 - identifier stropping always yields valid, unreserved, deterministic identifiers.
Static: must-pass-through on TokenEncoder.strop, match-conditioned transformations, purity, and regex-AST / table
reasoning over the stropping configuration of every built-in language.
"""
import ast
import builtins
import keyword
import re

try:
    import re._parser as sre_parse
    import re._constants as sre_c
except ImportError:  # pragma: no cover
    import sre_parse  # type: ignore
    import sre_constants as sre_c  # type: ignore

import yaml

from nvsa import effects, pyfront, reach
from nvsa.report import AnalysisError

COMMON = "nunavut.lang._common"

C11_KEYWORDS = """auto break case char const continue default do double else enum extern float for goto if inline int long
register restrict return short signed sizeof static struct switch typedef union unsigned void volatile while _Alignas
_Alignof _Atomic _Bool _Complex _Generic _Imaginary _Noreturn _Static_assert _Thread_local""".split()
CPP20_KEYWORDS = """alignas alignof and and_eq asm auto bitand bitor bool break case catch char char8_t char16_t char32_t
class compl concept const consteval constexpr constinit const_cast continue co_await co_return co_yield decltype default
delete do double dynamic_cast else enum explicit export extern false float for friend goto if inline int long mutable
namespace new noexcept not not_eq nullptr operator or or_eq private protected public register reinterpret_cast requires
return short signed sizeof static static_assert static_cast struct switch template this thread_local throw true try
typedef typeid typename union unsigned using virtual void volatile wchar_t while xor xor_eq""".split()

ALPHABET = set("abcdefghijklmnopqrstuvwxyzABCDEFGHIJKLMNOPQRSTUVWXYZ0123456789_")



def _unit(px, g):
    """A method whose body only prepares locals and returns self._helper(...) delegates its logic: analyse the helper.
    Returns (function to analyse, {parameter of g -> parameter of the helper}, {helper parameter -> argument text})."""
    body = [st for st in g.node.body if not (isinstance(st, ast.Expr) and isinstance(st.value, ast.Constant))]
    if not body or not all(isinstance(st, (ast.Assign, ast.AnnAssign)) for st in body[:-1]):
        return g, {a.arg: a.arg for a in g.node.args.args}, {}
    last = body[-1]
    c = last.value if isinstance(last, ast.Return) else None
    if not (isinstance(c, ast.Call) and isinstance(c.func, ast.Attribute) and isinstance(c.func.value, ast.Name) and c.func.value.id == "self"
            and g.cls is not None and c.func.attr in g.cls.methods and c.func.attr.startswith("_") and c.func.attr != g.node.name):
        return g, {a.arg: a.arg for a in g.node.args.args}, {}
    h = g.cls.methods[c.func.attr]
    hp = [a.arg for a in h.node.args.args][1:]
    own = {a.arg for a in g.node.args.args}
    pmap, amap = {"self": "self"}, {}
    bound = list(zip(hp, c.args)) + [(k.arg, k.value) for k in c.keywords if k.arg]
    for name, a in bound:
        amap[name] = ast.unparse(pyfront.subst_locals(g.node, a))
        if isinstance(a, ast.Name) and a.id in own:
            pmap[a.id] = name
    return h, pmap, amap


def _param(g, idx):
    return g.node.args.args[idx].arg if len(g.node.args.args) > idx else None


class _SpelledOut:
    """a method with the private methods of its class that it calls as statements, or whose value it returns / binds, written out"""
    def __init__(self, g):
        self.cls, self.module, self.short, self.name, self.qual = g.cls, g.module, g.short, g.name, g.qual
        ms = {k: v.node for k, v in g.cls.methods.items() if k != g.name} if g.cls is not None else {}
        self.node = pyfront.inline_procedures(g.node, {}, methods=ms, values=True)

# ---------------------------------------------------------------------------------------------------------------
def rule_recheck(ctx, px):
    R = "R-C09-RECHECK"
    ctx.rule(
        R,
        "every return of TokenEncoder.strop is dominated by the three dry-run re-verifications (reserved pattern, "
        "reserved identifier, encoding stability), each of which either re-raises or replaces the token through the "
        "registered failure handler; no path returns a token that skipped them",
    )
    f0 = px.func(COMMON, "TokenEncoder.strop")

    class _View:
        """strop with its table-driven loops (`for check, handler in ((..), ..)`) written out"""
        def __init__(self, g):
            self.node = pyfront.unroll_literal_loops(g.node)
            self.cls, self.module, self.short = g.cls, g.module, g.short
    f = _View(f0)
    rets = [r for r in ast.walk(f.node) if isinstance(r, ast.Return)]
    if not rets:
        raise AnalysisError("anchor missing: return of TokenEncoder.strop")
    TRANSFORMS = (("_strop_by_pattern", "reserved pattern"), ("_strop_by_keyword", "reserved identifier"), ("_encode", "encoding stability"))

    def direct_site(t: ast.Try):
        """try: self._do_for_type_and_all(self.<T>, <subject>, <type>, True) except RuntimeError: raise | subject = handler(..)"""
        for c in ast.walk(ast.Module(body=t.body, type_ignores=[])):
            if isinstance(c, ast.Call) and ast.unparse(c.func) == "self._do_for_type_and_all" and len(c.args) == 4 and ast.unparse(c.args[3]) == "True":
                hs = t.handlers
                ok_h = len(hs) == 1 and any(isinstance(x, ast.Raise) for x in ast.walk(hs[0])) and any(
                    isinstance(x, (ast.Assign, ast.Return)) for x in ast.walk(hs[0]))
                repl = [ast.unparse(x.targets[0]) for x in ast.walk(hs[0]) if isinstance(x, ast.Assign)] if hs else []
                return ast.unparse(c.args[0]).split(".")[-1], ast.unparse(c.args[1]), ok_h, repl
        return None

    def helper_site(call: ast.Call):
        """self._h(self.<T>, <subject>, ...) where _h verifies its first callable parameter in a dry run and hands a failure to the
        handler parameter (raising when there is none) - the verification blocks factored into a private helper"""
        if not (isinstance(call.func, ast.Attribute) and isinstance(call.func.value, ast.Name) and call.func.value.id == "self" and f.cls is not None
                and call.func.attr in f.cls.methods and call.func.attr.startswith("_")):
            return None
        h = f.cls.methods[call.func.attr]
        hp = [a.arg for a in h.node.args.args if a.arg != "self"]
        for t in [n for n in ast.walk(h.node) if isinstance(n, ast.Try)]:
            ds = direct_site(t)
            if ds is None:
                continue
            # ds[0] is a *parameter* of the helper here
            tpar, spar, ok_h, _repl = ds
            if tpar not in hp or spar not in hp:
                continue
            ti, si = hp.index(tpar), hp.index(spar)
            if ti >= len(call.args) or si >= len(call.args):
                continue
            # the helper returns the (possibly replaced) subject
            rets_h = [ast.unparse(r.value) for r in ast.walk(h.node) if isinstance(r, ast.Return) and r.value is not None]
            ok_ret = spar in rets_h
            return ast.unparse(call.args[ti]).split(".")[-1], ast.unparse(call.args[si]), ok_h and ok_ret, ["<return>"]
        return None

    for r in rets:
        dom = pyfront.dominating_stmts(f.node, r) or []
        found = {}
        for d in list(dom) + [r]:
            if isinstance(d, ast.Try):
                ds = direct_site(d)
                if ds is not None:
                    found[ds[0]] = (ds[2], ds[1], ds[3], d.lineno)
            calls_here = []
            if isinstance(d, ast.Assign) and isinstance(d.value, ast.Call):
                calls_here = [(d.value, [ast.unparse(t) for t in d.targets])]
            elif isinstance(d, ast.Return) and isinstance(d.value, ast.Call):
                calls_here = [(d.value, ["<return>"])]
            for c, tgts in calls_here:
                hsite = helper_site(c)
                if hsite is not None:
                    found[hsite[0]] = (hsite[2], hsite[1], tgts, d.lineno)
        # the verified token is the one that is returned: each site checks the variable that the return hands out (or is the return)
        retvar = ast.unparse(r.value) if isinstance(r.value, ast.Name) else None
        for what, label in TRANSFORMS:
            info = found.get(what)
            ok = info is not None and info[0]
            if ok:
                subj, repl = info[1], info[2]
                ok = (retvar is not None and subj == retvar) or (retvar is None and "<return>" in [x for i_ in found.values() for x in i_[2]])
                # a site that replaces the token must write it back to the verified variable (or be the return itself)
                ok = ok and all(x in (subj, "<return>") for x in repl)
            shown = ast.unparse(r.value)
            ctx.ob(R, f.module.rel, f"{f.short} :: dry-run {label} check dominates `return {shown[:60]}`", ok,
                   "" if ok else ("check missing on the path to the return: a reserved or unstable token can be returned" if info is None
                                  else "failure is swallowed or the check is applied to another variable"), r.lineno)
    # 'all' is refused
    raises = [pyfront.guard_terms(g) for st, g in pyfront.walk_guarded(f.node.body) if isinstance(st, ast.Raise) and not g == ()]
    tt_param = f.node.args.args[2].arg if len(f.node.args.args) > 2 else "token_type"
    asg = {t.id: ast.unparse(n.value) for n in ast.walk(f.node) if isinstance(n, ast.Assign) for t in n.targets if isinstance(t, ast.Name)}
    tt_names = {tt_param} | {k for k, v in asg.items() if v in (f"{tt_param}.lower()", f"{tt_param}.casefold()")}
    ok = any(any(p and e in {f"{n} == 'all'" for n in tt_names} | {f"'all' == {n}" for n in tt_names} for e, p in t) for t in raises)
    ctx.ob(R, f.module.rel, f"{f.short} :: token type 'all' is refused", ok, "", f.node.lineno)
    # dry-run branches raise
    for name in ("_strop_by_keyword", "_strop_by_pattern", "_encode"):
        g0 = px.func(COMMON, f"TokenEncoder.{name}")
        g, pmap, _amap = _unit(px, g0)
        g = _SpelledOut(g)
        dp = pmap.get(_param(g0, 3) or "dry_run")
        dry_raises = []
        for st, gd in pyfront.walk_guarded(g.node.body):
            if isinstance(st, ast.Raise):
                dry_raises.append(pyfront.guard_terms(gd))
        ok = dp is not None and any((dp, False) not in t and (f"not {dp}", True) not in t and ((dp, True) in t or (f"not {dp}", False) in t) for t in dry_raises)
        ctx.ob(R, g0.module.rel, f"{g0.short} :: a match in dry-run mode raises", ok, f"analysed {g.short}; raise guards: {dry_raises}", g0.node.lineno)
    # _do_for_type_and_all applies the transform for 'all' and for the type
    d = px.func(COMMON, "TokenEncoder._do_for_type_and_all")
    tparam, typ = _param(d, 1) or "transform", _param(d, 3) or "token_type"
    calls = [c for c in ast.walk(d.node) if isinstance(c, ast.Call) and isinstance(c.func, ast.Name) and c.func.id == tparam]
    args = []
    pm = pyfront.parent_map(d.node)
    for c in calls:
        if len(c.args) < 2:
            continue
        a = c.args[1]
        # loop form: `for t in ("all", token_type): transform(x, t, dry_run)` - the tuple's elements are the applied types
        loop = None
        cur = c
        while id(cur) in pm:
            cur = pm[id(cur)]
            if isinstance(cur, ast.For) and isinstance(cur.target, ast.Name) and isinstance(a, ast.Name) and cur.target.id == a.id:
                loop = cur
                break
        if loop is not None:
            it = pyfront.subst_locals(d.node, loop.iter)
            alts = [it.body, it.orelse] if isinstance(it, ast.IfExp) else [it]
            per = []
            for alt in alts:
                if isinstance(alt, (ast.Tuple, ast.List)):
                    per.append([ast.unparse(e) for e in alt.elts])
                else:
                    per.append(["?"])
            # every alternative starts with 'all'; the longest one also applies the token type; a shorter alternative is
            # only taken when the type *is* 'all' (checked by the conditional's test)
            full = max(per, key=len)
            okalt = all(x and x[0] == "'all'" for x in per) and all(x == full or (x == ["'all'"] and isinstance(it, ast.IfExp) and "'all'" in ast.unparse(it.test)
                                                                    and typ in ast.unparse(it.test)) for x in per)
            args.extend(full if okalt else ["?"])
        else:
            args.append(ast.unparse(a))
    ok = sorted(args) == sorted(["'all'", typ])
    ctx.ob(R, d.module.rel, f"{d.short} :: rules of 'all' and of the token type are both applied", ok, f"{args}", d.node.lineno)
    # a rule set that is not configured (KeyError) is skipped on its own: the handler must not also swallow the other application
    for c in calls:
        cur, tr, loop_inside_try = c, None, False
        seen_for = False
        while id(cur) in pm:
            cur = pm[id(cur)]
            if isinstance(cur, ast.For):
                seen_for = True
            if isinstance(cur, ast.Try) and any(h.type is not None and "KeyError" in ast.unparse(h.type) or h.type is None for h in cur.handlers):
                tr = cur
                loop_inside_try = seen_for
                break
        if tr is None:
            continue      # KeyError propagates: nothing is swallowed
        others = [x for x in calls if x is not c and any(y is x for y in ast.walk(ast.Module(body=tr.body, type_ignores=[])))]
        ok2 = not others and not loop_inside_try
        ctx.ob(R, d.module.rel, f"{d.short} :: a missing rule set skips only its own application (`{ast.unparse(c)[:50]}`)", ok2,
               "" if ok2 else "one try / except KeyError spans several applications: when the 'all' rules are not configured the rules of the token type are skipped too "
               "(in the stropping pass and in its dry-run verification alike)", c.lineno)


def _loop_elem_names(lp: ast.For):
    """the loop variable and the locals of the body that are plain copies of it"""
    names = {lp.target.id}
    for n in ast.walk(lp):
        if isinstance(n, ast.Assign) and isinstance(n.value, ast.Name) and n.value.id in names:
            names.update(t.id for t in n.targets if isinstance(t, ast.Name))
    return names


def rule_identity(ctx, px):
    R = "R-C09-IDENTITY"
    ctx.rule(
        R,
        "each transformation changes the token only inside a branch conditioned on a match (`_matches(...)`, the "
        "callback of pattern.sub), so an already valid, unreserved identifier is returned unchanged; the configured encoding "
        "rules are applied one after another to the running result, and the stability check walks the same rule list",
    )
    for name in ("_strop_by_keyword", "_strop_by_pattern"):
        g0 = px.func(COMMON, f"TokenEncoder.{name}")
        g, pmap, _amap = _unit(px, g0)
        tok = pmap.get(_param(g0, 1) or "token")
        # aliases of the token parameter: locals assigned the bare parameter
        alias = {tok}
        for n in ast.walk(g.node):
            if isinstance(n, ast.Assign) and isinstance(n.value, ast.Name) and n.value.id in alias:
                alias.update(t.id for t in n.targets if isinstance(t, ast.Name))
        retvars = {ast.unparse(r.value) for r in ast.walk(g.node) if isinstance(r, ast.Return) and isinstance(r.value, ast.Name)}
        stores = []   # (new value, guard terms, variable that carries the token there)
        for st, gd in pyfront.walk_guarded(g.node.body):
            if isinstance(st, ast.Assign) and ast.unparse(st.targets[0]) in retvars and not (isinstance(st.value, ast.Name) and st.value.id in alias):
                stores.append((ast.unparse(st.value), pyfront.guard_terms(gd), ast.unparse(st.targets[0])))
            elif isinstance(st, ast.Return) and st.value is not None and not isinstance(st.value, ast.Name):
                stores.append((ast.unparse(st.value), pyfront.guard_terms(gd), None))
        # a match computed by the caller and handed to the helper as an argument is the match (`is_reserved` := self._matches(...))
        stores = [(v_, [(_amap.get(e, e), p) for e, p in t], x_) for v_, t, x_ in stores]
        ok = bool(stores) and all(any(e.startswith("self._matches(") and p for e, p in t) for _, t, _v in stores)
        ctx.ob(R, g0.module.rel, f"{g0.short} :: token modified only under _matches(...)", ok, f"analysed {g.short}: {stores}", g0.node.lineno)
        def _parts(e):
            # the operands of a string concatenation in any spelling (+, f-string, "{}{}".format): literal pieces dropped when empty
            if isinstance(e, ast.BinOp) and isinstance(e.op, ast.Add):
                return _parts(e.left) + _parts(e.right)
            if isinstance(e, ast.JoinedStr):
                out = []
                for v_ in e.values:
                    if isinstance(v_, ast.Constant):
                        out += [repr(v_.value)] if v_.value else []
                    elif isinstance(v_, ast.FormattedValue) and v_.conversion == -1 and v_.format_spec is None:
                        out += _parts(v_.value)
                    else:
                        out.append(ast.unparse(v_))
                return out
            if isinstance(e, ast.Call) and isinstance(e.func, ast.Attribute) and e.func.attr == "format" and isinstance(e.func.value, ast.Constant) \
                    and isinstance(e.func.value.value, str) and not e.keywords and e.func.value.value == "{}" * len(e.args):
                return [x for a in e.args for x in _parts(a)]
            if isinstance(e, ast.Constant) and e.value == "":
                return []
            return [ast.unparse(e)]

        def _is_wrapped(v, names):
            try:
                got = _parts(ast.parse(v, mode="eval").body)
            except SyntaxError:
                return False
            return any(got == ["self._stropping_prefix", a, "self._stropping_suffix"] for a in names)
        ok = all(_is_wrapped(v, alias | ({var} if var else set())) for v, _, var in stores)
        ctx.ob(R, g0.module.rel, f"{g0.short} :: modification is prefix + token + suffix", ok, f"{[v for v, _, _x in stores]}", g0.node.lineno)
    e = _SpelledOut(px.func(COMMON, "TokenEncoder._encode"))
    subs = [c for c in ast.walk(e.node) if isinstance(c, ast.Call) and isinstance(c.func, ast.Attribute) and c.func.attr == "sub"]
    ok = len(subs) == 1 and ast.unparse(subs[0].args[0]) == "self._encoding_filter"
    ctx.ob(R, e.module.rel, f"{e.short} :: characters change only inside pattern.sub(self._encoding_filter, ...)", ok, "", e.node.lineno)
    # the configured rules are applied as configured: one after another, in list order, each on the result of the previous one
    # (the C++ rules rely on it: `\s+` -> `_` produces the `__` that the later `_{2,}$` rule must still see).  A single pass
    # over an alternation of the rule sources, or a pass per rule over the *original* token, is a different function.
    RULES_ATTR = "_token_encoding_rules_by_identifier_type"
    seq = []
    for lp in [n for n in ast.walk(e.node) if isinstance(n, ast.For) and isinstance(n.target, ast.Name)]:
        src = ast.unparse(pyfront.subst_locals(e.node, lp.iter))
        elem = _loop_elem_names(lp)
        for st in ast.walk(lp):
            if isinstance(st, ast.Assign) and st.value in subs and isinstance(st.value.func.value, ast.Name) and st.value.func.value.id in elem \
                    and len(st.value.args) == 2 and len(st.targets) == 1 and ast.unparse(st.targets[0]) == ast.unparse(st.value.args[1]):
                seq.append((src, lp))
    def _rules_lookup(src_, lp_=None):
        # self.<rules>[<type>]  or  self.<rules>.get(<type>, <empty>)  (no rules configured for the type: nothing to apply)
        if f"self.{RULES_ATTR}[" in src_ or re.search(rf"self\.{RULES_ATTR}\.get\([^,]+, ?(\(\)|\[\]|tuple\(\)|list\(\))\)", src_) is not None:
            return True
        # or  rules = self.<rules>.get(<type>)  with `if rules is None: return ...` before the loop
        if lp_ is not None and isinstance(lp_.iter, ast.Name) and re.fullmatch(rf"self\.{RULES_ATTR}\.get\([^,()]+\)", src_):
            for st_ in e.node.body:
                if st_ is lp_ or any(n_ is lp_ for n_ in ast.walk(st_)):
                    break
                if isinstance(st_, ast.If) and ast.unparse(st_.test) in (f"{lp_.iter.id} is None", f"not {lp_.iter.id}") and pyfront._always_exits(st_.body):
                    return True
        return False
    ok = len(subs) == 1 and len(seq) == 1 and _rules_lookup(seq[0][0], seq[0][1])
    ctx.ob(R, e.module.rel, f"{e.short} :: every configured rule is applied in turn to the running result (feed-forward)", ok,
           "" if ok else f"the substitution is not `x = rule.sub(callback, x)` inside a loop over self.{RULES_ATTR}[<type>] "
           f"(loops found: {[s_ for s_, _ in seq]}): a rule no longer sees what an earlier rule produced, so e.g. the C++ double-underscore rules miss the "
           "underscores that the whitespace rule writes", e.node.lineno)
    # the dry-run verification walks the same list
    chk = []
    for lp in [n for n in ast.walk(e.node) if isinstance(n, ast.For) and isinstance(n.target, ast.Name)]:
        if any(isinstance(c, ast.Call) and isinstance(c.func, ast.Attribute) and c.func.attr in ("match", "search") and isinstance(c.func.value, ast.Name)
               and c.func.value.id in _loop_elem_names(lp) for c in ast.walk(lp)):
            chk.append(ast.unparse(pyfront.subst_locals(e.node, lp.iter)))
    # any(rule.match(x) for rule in rules)
    for ge in [n for n in ast.walk(e.node) if isinstance(n, (ast.GeneratorExp, ast.ListComp)) and len(n.generators) == 1 and isinstance(n.generators[0].target, ast.Name)]:
        c = ge.elt
        if isinstance(c, ast.Call) and isinstance(c.func, ast.Attribute) and c.func.attr in ("match", "search") and isinstance(c.func.value, ast.Name) \
                and c.func.value.id == ge.generators[0].target.id and not ge.generators[0].ifs:
            chk.append(ast.unparse(pyfront.subst_locals(e.node, ge.generators[0].iter)))
    ok = bool(chk) and bool(seq) and all(c == seq[0][0] for c in chk)
    ctx.ob(R, e.module.rel, f"{e.short} :: the stability check tests the rules the encoding pass applies", ok, f"pass over {[s_ for s_, _ in seq]}, check over {chk}",
           e.node.lineno)
    # the returned variable is written only with the token itself or the result of that substitution: no normalisation
    # (strip / split / join / lower ...) outside the match callback, which could empty or alter a valid identifier
    tokp = _param(e, 1) or "token"
    retvars = {ast.unparse(r.value) for r in ast.walk(e.node) if isinstance(r, ast.Return) and r.value is not None}
    other = []
    carriers = set(retvars) | {tokp}
    for n in ast.walk(e.node):
        tg = n.targets if isinstance(n, ast.Assign) else ([n.target] if isinstance(n, (ast.AugAssign, ast.AnnAssign)) and getattr(n, "value", None) is not None else [])
        for t in tg:
            if ast.unparse(t) in carriers:
                v = n.value
                is_tok = isinstance(v, ast.Name) and v.id in carriers
                is_sub = v in subs and len(v.args) == 2 and ast.unparse(v.args[1]) in carriers
                if isinstance(n, ast.AugAssign) or not (is_tok or is_sub):
                    other.append(f"{ast.unparse(t)} = {ast.unparse(v)[:60]}")
    bad_ret = [rv for rv in retvars if not rv.isidentifier()]
    ok = not other and not bad_ret
    ctx.ob(R, e.module.rel, f"{e.short} :: the encoded token is written only by the token parameter or by pattern.sub(self._encoding_filter, token)", ok,
           "" if ok else f"token rewritten outside the match callback: {other + bad_ret}", e.node.lineno)
    # the callback never returns the empty string for a (non-empty) match: a non-empty token stays non-empty
    ef = px.func(COMMON, "TokenEncoder._encoding_filter")
    mp = _param(ef, 1) or "m"
    span_exprs = {f"{mp}.group(0)", f"{mp}.group()", f"{mp}[0]", f"{mp}.string[{mp}.start():{mp}.end()]"}
    spans = set()
    for n in ast.walk(ef.node):
        if isinstance(n, ast.Assign) and ast.unparse(n.value).replace(" ", "") in {x.replace(" ", "") for x in span_exprs}:
            spans.update(t.id for t in n.targets if isinstance(t, ast.Name))

    def is_span(x):
        return (isinstance(x, ast.Name) and x.id in spans) or ast.unparse(x).replace(" ", "") in {y.replace(" ", "") for y in span_exprs}

    def nonempty(v, terms):
        u = ast.unparse(v)
        if isinstance(v, ast.Call) and u.startswith("self.encode_character("):
            return True
        if isinstance(v, ast.Attribute) and u == "self._whitespace_encoding_char":
            # configured character (non-empty: R-C09-CONFIG) and not None on this path
            return (f"{u} is not None", True) in terms or (f"{u} is None", False) in terms
        if isinstance(v, ast.Call) and isinstance(v.func, ast.Attribute) and v.func.attr == "join" and isinstance(v.func.value, ast.Constant) and len(v.args) == 1:
            a = v.args[0]
            if isinstance(a, ast.Call) and isinstance(a.func, ast.Name) and a.func.id == "map" and len(a.args) == 2 and ast.unparse(a.args[0]) == "self.encode_character" and is_span(a.args[1]):
                return True
            if isinstance(a, (ast.GeneratorExp, ast.ListComp)) and len(a.generators) == 1 and not a.generators[0].ifs and is_span(a.generators[0].iter) \
                    and ast.unparse(a.elt) == f"self.encode_character({ast.unparse(a.generators[0].target)})":
                return True
        if isinstance(v, ast.IfExp):
            return nonempty(v.body, terms + pyfront.guard_terms([(v.test, True)])) and nonempty(v.orelse, terms + pyfront.guard_terms([(v.test, False)]))
        return False

    n_ret = 0
    for st, gd in pyfront.walk_guarded(ef.node.body):
        if isinstance(st, ast.Return):
            n_ret += 1
            ok = st.value is not None and nonempty(pyfront.subst_locals(ef.node, st.value) if not is_span(st.value) else st.value, pyfront.guard_terms(gd))
            ctx.ob(R, ef.module.rel, f"{ef.short} :: `return {ast.unparse(st.value)[:50] if st.value else ''}` is a non-empty encoding of the match", ok,
                   "" if ok else "the callback can return an empty or unencoded replacement: a non-empty token can become empty or keep illegal characters", st.lineno)
    if not n_ret:
        raise AnalysisError("anchor missing: return of TokenEncoder._encoding_filter")
    m = px.func(COMMON, "TokenEncoder._matches")
    inp = m.node.args.args[1].arg
    # the element variable: a for-loop target, a comprehension target, or the parameter of a nested predicate that any()/the loop applies
    elems = {n.target.id for n in ast.walk(m.node) if isinstance(n, (ast.For, ast.comprehension)) and isinstance(n.target, ast.Name)}
    for n in ast.walk(m.node):
        if isinstance(n, (ast.FunctionDef, ast.Lambda)) and n is not m.node and len(n.args.args) == 1:
            applied = any(isinstance(c, ast.Call) and ((isinstance(c.func, ast.Name) and isinstance(n, ast.FunctionDef) and c.func.id == n.name))
                          and len(c.args) == 1 and isinstance(c.args[0], ast.Name) and c.args[0].id in elems for c in ast.walk(m.node))
            if applied or isinstance(n, ast.Lambda):
                elems.add(n.args.args[0].arg)
    eq = any(isinstance(c, ast.Compare) and len(c.ops) == 1 and isinstance(c.ops[0], ast.Eq) and inp in (ast.unparse(c.left), ast.unparse(c.comparators[0]))
             and ({ast.unparse(c.left), ast.unparse(c.comparators[0])} - {inp}) <= elems and ast.unparse(c.left) != ast.unparse(c.comparators[0])
             for c in ast.walk(m.node))
    mt = any(isinstance(c, ast.Call) and isinstance(c.func, ast.Attribute) and c.func.attr in ("match", "fullmatch") and ast.unparse(c.func.value) in elems
             and [ast.unparse(a) for a in c.args] == [inp] for c in ast.walk(m.node))
    ok = bool(elems) and eq and mt
    ctx.ob(R, m.module.rel, f"{m.short} :: strings compare for equality, patterns with match()", ok, "", m.node.lineno)


def rule_pure(ctx, px):
    R = "R-C09-PURE"
    ctx.rule(
        R,
        "strop's call graph reads no ambient state, and the lru_cache key (self, token, token_type) covers every input "
        "it reads: the encoder's attributes are written only in __init__",
    )
    f = px.func(COMMON, "TokenEncoder.strop")
    fb = {id(g.node): g for g in px.all_funcs}
    region = {}
    for g, st, gd, chain in reach.region_walk(px, [f], lambda a, b: False):
        region[g.qual] = g
    amb = []
    for g in region.values():
        for s in effects.ambient_sites(g.module, fb):
            if s.func is g:
                amb.append(f"{g.short}:{s.what}")
    ctx.unit("strop_region_functions", sorted(g.short for g in region.values()))
    ctx.ob(R, f.module.rel, f"{f.short} :: no ambient read in {len(region)} reachable functions", not amb, "" if not amb else f"{amb}", f.node.lineno)
    cls = px.cls(COMMON, "TokenEncoder")
    written = {}
    for name, g in cls.methods.items():
        for n in ast.walk(g.node):
            tg = n.targets if isinstance(n, ast.Assign) else ([n.target] if isinstance(n, (ast.AugAssign, ast.AnnAssign)) else [])
            for t in tg:
                if isinstance(t, ast.Attribute) and isinstance(t.value, ast.Name) and t.value.id == "self":
                    written.setdefault(t.attr, set()).add(name)
    bad = {a: sorted(ms) for a, ms in written.items() if ms - {"__init__"}}
    ctx.ob(R, f.module.rel, "TokenEncoder :: attributes are written in __init__ only", not bad, "" if not bad else f"{bad}")
    # each Language object has its own encoder: the caching property keeps its value per instance
    from checks import C10
    okp, whyp = C10.cached_property_per_instance(px)
    ctx.ob(R, "src/nunavut/_utilities.py", "cached_property (Language._token_encoder) :: one encoder per Language object", okp, whyp)
    ok = any("lru_cache" in d for d in f.decorators)
    params = [a.arg for a in f.node.args.args]
    ctx.ob(R, f.module.rel, f"{f.short} :: memo key = {params}", params == ["self", "token", "token_type"], "cached" if ok else "not cached", f.node.lineno)



_BUILTINS_MODULE_METADATA = {"_", "__doc__", "__loader__", "__name__", "__package__", "__spec__"}


class _Unfoldable(Exception):
    pass


def _fold(e, env):
    """constant folding of the reserved-list expression: keyword.kwlist, dir(builtins), list/set algebra, str mapping and
    comprehensions with foldable filters.  No repository code is executed."""
    u = ast.unparse(e)
    if u == "keyword.kwlist":
        return list(keyword.kwlist)
    if u == "keyword.softkwlist":
        return list(getattr(keyword, "softkwlist", []))
    if u == "dir(builtins)":
        return sorted(dir(builtins))
    if isinstance(e, ast.Constant):
        return e.value
    if isinstance(e, ast.Name):
        if e.id in env:
            return env[e.id]
        raise _Unfoldable(u)
    if isinstance(e, (ast.List, ast.Tuple, ast.Set)):
        out = []
        for x in e.elts:
            if isinstance(x, ast.Starred):
                out.extend(_fold(x.value, env))
            else:
                out.append(_fold(x, env))
        return out
    if isinstance(e, ast.BinOp) and isinstance(e.op, (ast.Add, ast.BitOr)):
        return list(_fold(e.left, env)) + list(_fold(e.right, env))
    if isinstance(e, ast.UnaryOp) and isinstance(e.op, ast.Not):
        return not _fold(e.operand, env)
    if isinstance(e, ast.BoolOp):
        vals = [_fold(v, env) for v in e.values]
        return all(vals) if isinstance(e.op, ast.And) else any(vals)
    if isinstance(e, ast.Compare) and len(e.ops) == 1:
        a, b = _fold(e.left, env), _fold(e.comparators[0], env)
        op = e.ops[0]
        if isinstance(op, ast.Eq):
            return a == b
        if isinstance(op, ast.NotEq):
            return a != b
        if isinstance(op, ast.In):
            return a in b
        if isinstance(op, ast.NotIn):
            return a not in b
        raise _Unfoldable(u)
    if isinstance(e, (ast.ListComp, ast.SetComp, ast.GeneratorExp)) and len(e.generators) == 1 and isinstance(e.generators[0].target, ast.Name):
        g = e.generators[0]
        out = []
        for v in _fold(g.iter, env):
            env2 = dict(env)
            env2[g.target.id] = v
            if all(_fold(c, env2) for c in g.ifs):
                out.append(_fold(e.elt, env2))
        return out
    if isinstance(e, ast.Call):
        fn = e.func
        if isinstance(fn, ast.Name) and fn.id in ("list", "sorted", "set", "tuple", "frozenset") and len(e.args) == 1:
            return list(_fold(e.args[0], env))
        if isinstance(fn, ast.Name) and fn.id == "str" and len(e.args) == 1:
            return str(_fold(e.args[0], env))
        if isinstance(fn, ast.Name) and fn.id == "map" and len(e.args) == 2 and ast.unparse(e.args[0]) == "str":
            return [str(x) for x in _fold(e.args[1], env)]
        if isinstance(fn, ast.Attribute) and fn.attr == "chain" and ast.unparse(fn.value) == "itertools":
            return [x for a in e.args for x in _fold(a, env)]
        if isinstance(fn, ast.Attribute) and fn.attr == "union":
            return list(_fold(fn.value, env)) + [x for a in e.args for x in _fold(a, env)]
        if isinstance(fn, ast.Attribute) and fn.attr in ("startswith", "endswith") and len(e.args) == 1:
            recv, arg = _fold(fn.value, env), _fold(e.args[0], env)
            if isinstance(recv, str) and isinstance(arg, (str, tuple, list)):
                arg = tuple(arg) if isinstance(arg, list) else arg
                return recv.startswith(arg) if fn.attr == "startswith" else recv.endswith(arg)
        if isinstance(fn, ast.Attribute) and fn.attr in ("isidentifier", "islower", "isupper") and not e.args:
            recv = _fold(fn.value, env)
            if isinstance(recv, str):
                return getattr(recv, fn.attr)()
    raise _Unfoldable(u)

# ---------------------------------------------------------------------------------------------------------------
def _class_of_negated_rule(pattern):
    """for rules of the form  [^...]+  /  ([^...]+): the set of characters NOT matched, else None"""
    p = sre_parse.parse(pattern)
    items = list(p)
    while len(items) == 1 and items[0][0] is sre_c.SUBPATTERN:
        items = list(items[0][1][3])
    if len(items) != 1:
        return None
    op = items[0]
    if op[0] in (sre_c.MAX_REPEAT, sre_c.MIN_REPEAT):
        lo, hi, inner = op[1]
        inner = list(inner)
        if lo < 1 or len(inner) != 1:
            return None
        op = inner[0]
    if op[0] is not sre_c.IN:
        return None
    spec = list(op[1])
    if not spec or spec[0][0] is not sre_c.NEGATE:
        return None
    listed = set()
    for k, v in spec[1:]:
        if k is sre_c.LITERAL:
            listed.add(chr(v))
        elif k is sre_c.RANGE:
            lo, hi = v
            if hi - lo > 200:
                return None
            listed.update(chr(c) for c in range(lo, hi + 1))
        else:
            return None
    return listed


def _first_chars_can_start_with(pattern, prefix_pred):
    """conservative: can `pattern` (used with .match) match a string whose first two characters satisfy prefix_pred(c0,c1)?
    Enumerates the first two positions over a small alphabet."""
    import itertools
    p = sre_parse.parse(pattern)

    probes = "_aA0z9Z-"

    def matches_prefix(s):
        # evaluate the regex AST on a 2-char prefix symbolically: we use a tiny recursive matcher over the parsed ops
        return _prefix_possible(list(p), s)

    for c0, c1 in itertools.product(probes, repeat=2):
        if prefix_pred(c0, c1) and matches_prefix(c0 + c1):
            return True, c0 + c1
    return False, None


def _in_class(spec, ch):
    neg = False
    hit = False
    for k, v in spec:
        if k is sre_c.NEGATE:
            neg = True
        elif k is sre_c.LITERAL:
            hit |= ord(ch) == v
        elif k is sre_c.RANGE:
            hit |= v[0] <= ord(ch) <= v[1]
        elif k is sre_c.CATEGORY:
            if v is sre_c.CATEGORY_DIGIT:
                hit |= ch.isdigit()
            elif v is sre_c.CATEGORY_SPACE:
                hit |= ch.isspace()
            elif v is sre_c.CATEGORY_WORD:
                hit |= ch.isalnum() or ch == "_"
            elif v is sre_c.CATEGORY_NOT_DIGIT:
                hit |= not ch.isdigit()
            elif v is sre_c.CATEGORY_NOT_SPACE:
                hit |= not ch.isspace()
            elif v is sre_c.CATEGORY_NOT_WORD:
                hit |= not (ch.isalnum() or ch == "_")
    return hit != neg


def _prefix_possible(ops, s):
    """can the op sequence match some string that starts with s (or of which s... ) - i.e. is s a viable prefix of a
    match anchored at position 0?  Returns True when the first len(s) characters are consistent with the pattern (or
    the pattern completes within them)."""
    def rec(ops, i, pos):
        # returns True if ops[i:] can match starting at s[pos:], treating exhaustion of s as success
        if pos >= len(s):
            return True
        if i >= len(ops):
            return True  # pattern complete: .match succeeds regardless of the rest
        op, av = ops[i]
        if op is sre_c.AT:
            if av in (sre_c.AT_BEGINNING, sre_c.AT_BEGINNING_STRING):
                return pos == 0 and rec(ops, i + 1, pos)
            if av in (sre_c.AT_END, sre_c.AT_END_STRING):
                return False
            return rec(ops, i + 1, pos)
        if op is sre_c.LITERAL:
            return s[pos] == chr(av) and rec(ops, i + 1, pos + 1)
        if op is sre_c.NOT_LITERAL:
            return s[pos] != chr(av) and rec(ops, i + 1, pos + 1)
        if op is sre_c.ANY:
            return rec(ops, i + 1, pos + 1)
        if op is sre_c.IN:
            return _in_class(av, s[pos]) and rec(ops, i + 1, pos + 1)
        if op is sre_c.CATEGORY:
            return _in_class([(sre_c.CATEGORY, av)], s[pos]) and rec(ops, i + 1, pos + 1)
        if op is sre_c.SUBPATTERN:
            inner = list(av[3])
            return rec(inner + list(ops[i + 1:]), 0, pos)
        if op is sre_c.BRANCH:
            return any(rec(list(a) + list(ops[i + 1:]), 0, pos) for a in av[1])
        if op in (sre_c.MAX_REPEAT, sre_c.MIN_REPEAT):
            lo, hi, inner = av
            inner = list(inner)
            hi = min(int(hi), 3)
            for k in range(lo, max(lo, hi) + 1):
                if rec(inner * k + list(ops[i + 1:]), 0, pos):
                    return True
            return False
        return True  # unknown op: assume possible (conservative towards reporting)

    return rec(ops, 0, 0)


def _concat_parts(e):
    """string-building expression -> list of pieces (constants as repr, others unparsed): f-string, '{}'.format, +"""
    if isinstance(e, ast.JoinedStr):
        out = []
        for v in e.values:
            if isinstance(v, ast.Constant):
                out.append(repr(v.value))
            elif isinstance(v, ast.FormattedValue) and v.conversion == -1 and v.format_spec is None:
                out.extend(_concat_parts(v.value))
            else:
                return [ast.unparse(e)]
        return out
    if isinstance(e, ast.BinOp) and isinstance(e.op, ast.Add):
        return _concat_parts(e.left) + _concat_parts(e.right)
    if isinstance(e, ast.Call) and isinstance(e.func, ast.Attribute) and e.func.attr == "format" and isinstance(e.func.value, ast.Constant) \
            and isinstance(e.func.value.value, str) and not e.keywords:
        segs = e.func.value.value.split("{}")
        if len(segs) == len(e.args) + 1 and not any("{" in x or "}" in x for x in segs):
            out = []
            for i, sg in enumerate(segs):
                if sg:
                    out.append(repr(sg))
                if i < len(e.args):
                    out.extend(_concat_parts(e.args[i]))
            return out
    if isinstance(e, ast.Constant) and isinstance(e.value, str):
        return [repr(e.value)] if e.value else []
    return [ast.unparse(e).replace(" ", "")]


def _pattern_ok(pat_text):
    pat = list(sre_parse.parse(pat_text))
    good = (len(pat) == 3 and pat[0][0] is sre_c.AT and pat[1][0] is sre_c.MAX_REPEAT and pat[1][1][0] == 1 and list(pat[1][1][2]) == [(sre_c.LITERAL, ord("_"))]
            and pat[2][0] is sre_c.SUBPATTERN and pat[2][1][0] == 1)
    if good:
        inner = list(pat[2][1][3])
        good = len(inner) == 1 and inner[0][0] is sre_c.MAX_REPEAT and inner[0][1][0] == 0 and inner[0][1][1] == 1 and \
            list(inner[0][1][2]) == [(sre_c.IN, [(sre_c.RANGE, (ord("A"), ord("Z")))])]
    return good


def _repair_by_slices(fn_node, compiled, subj, on_miss):
    """the same repair written without the capture group: m = <^_+>.match(subj); rest = subj[m.end():]; the first character of rest is
    lower-cased exactly when it is an ASCII capital ('A' <= c <= 'Z'); returns '_' + that character + rest[1:].  -> (ok, why) or None
    when the function is not of this shape at all"""
    import copy
    mvar = None
    for n in ast.walk(fn_node):
        if not (isinstance(n, ast.Assign) and isinstance(n.value, ast.Call) and isinstance(n.targets[0], ast.Name)):
            continue
        c = n.value
        pat = None
        if ast.unparse(c.func) == "re.match" and len(c.args) == 2 and isinstance(c.args[0], ast.Constant) and ast.unparse(c.args[1]) == subj:
            pat = c.args[0].value
        elif isinstance(c.func, ast.Attribute) and c.func.attr == "match" and isinstance(c.func.value, ast.Name) and c.func.value.id in compiled \
                and len(c.args) == 1 and ast.unparse(c.args[0]) == subj:
            pat = compiled[c.func.value.id]
        if pat in ("_+", "^_+", "\\A_+"):
            mvar = n.targets[0].id
    if mvar is None:
        return None

    class B(ast.NodeTransformer):
        def __init__(self, env):
            self.env = env

        def visit_Name(self, node):
            if isinstance(node.ctx, ast.Load) and node.id in self.env:
                return copy.deepcopy(self.env[node.id])
            return node

    rem = f"{subj}[{mvar}.end():]"
    first = f"{rem}[:1]"
    alt_first = (first, f"{rem}[0:1]")
    n_ret = n_miss = 0
    for path in pyfront.enumerate_paths(fn_node.body):
        if path.outcome not in ("return", "raise"):
            continue
        env, terms = {}, []
        conds = [c for c in path.conds if not isinstance(c[0], str)]
        k = 0
        for st in path.stmts:
            if isinstance(st, ast.If):
                if k < len(conds):
                    t_, pol = conds[k]
                    k += 1
                    terms += pyfront.guard_terms([(B(env).visit(copy.deepcopy(t_)), pol)])
            elif isinstance(st, (ast.Assign, ast.AnnAssign)) and getattr(st, "value", None) is not None:
                tg = st.targets[0] if isinstance(st, ast.Assign) else st.target
                if isinstance(tg, ast.Name) and tg.id != mvar:
                    env[tg.id] = B(env).visit(copy.deepcopy(st.value))
        terms = [(e.replace(" ", ""), p_) for e, p_ in terms]
        matched = (mvar, True) in terms or (f"{mvar}isnotNone", True) in terms or (f"{mvar}isNone", False) in terms
        last = path.stmts[-1]
        if path.outcome == "raise":
            n_miss += 1
            if on_miss is None or last.exc is None or ast.unparse(last.exc) != on_miss or matched:
                return False, "raise is not the pending error on the no-match path"
            continue
        is_none = last.value is None or (isinstance(last.value, ast.Constant) and last.value.value is None)
        if is_none:
            if on_miss is not None or matched:
                return False, "returns None where a repaired token or the pending error is due"
            n_miss += 1
            continue
        n_ret += 1
        val = B(env).visit(copy.deepcopy(last.value))
        parts = [x.replace(" ", "") for x in _concat_parts(val)]
        if not matched or len(parts) != 3 or parts[0] != "'_'" or parts[2] != f"{rem}[1:]":
            return False, f"return of {parts} (match known: {matched})"
        capital = None
        for x in alt_first:
            for e, pol in terms:
                if e in (f"'A'<={x}<='Z'", f"'Z'>={x}>='A'", f"{x}instring.ascii_uppercase"):
                    capital = pol
        if parts[1] in [f"{x}.lower()" for x in alt_first]:
            if capital is not True:
                return False, f"`{parts[1]}` on a path that does not establish 'A' <= c <= 'Z' (non-ASCII capitals would be altered, unlike ^_+([A-Z]?))"
        elif parts[1] in alt_first:
            if capital is not False:
                return False, "the character after the underscores is kept as it is on a path where it may be an ASCII capital"
        else:
            return False, f"return of {parts}"
    if not n_ret or not n_miss:
        return False, "no return / no re-raise"
    return True, ""


def _repair_core(fn_node, module_tree, subj, on_miss):
    """the repair `_` + lower-cased first letter + rest computed from a match of ^_+([A-Z]?) on `subj`: returned on every path where the
    match is known; on the other paths the function raises the pending error (on_miss = name of that parameter) or returns None
    (on_miss = None).  -> (ok, why)"""
    compiled = {}
    for st in module_tree.body:
        if isinstance(st, ast.Assign) and isinstance(st.value, ast.Call) and ast.unparse(st.value.func) == "re.compile" and st.value.args \
                and isinstance(st.value.args[0], ast.Constant) and isinstance(st.targets[0], ast.Name):
            compiled[st.targets[0].id] = st.value.args[0].value
    mvar = None
    for n in ast.walk(fn_node):
        if not (isinstance(n, ast.Assign) and isinstance(n.value, ast.Call) and isinstance(n.targets[0], ast.Name)):
            continue
        c = n.value
        pat = None
        if ast.unparse(c.func) == "re.match" and len(c.args) == 2 and isinstance(c.args[0], ast.Constant) and ast.unparse(c.args[1]) == subj:
            pat = c.args[0].value
        elif isinstance(c.func, ast.Attribute) and c.func.attr == "match" and isinstance(c.func.value, ast.Name) and c.func.value.id in compiled \
                and len(c.args) == 1 and ast.unparse(c.args[0]) == subj:
            pat = compiled[c.func.value.id]
        if pat is None:
            continue
        if not _pattern_ok(pat):
            alt = _repair_by_slices(fn_node, compiled, subj, on_miss)
            if alt is not None:
                return alt
            return False, f"pattern {pat!r} is not ^_+([A-Z]?)"
        mvar = n.targets[0].id
    if mvar is None:
        return False, "no re.match(<pattern>, stropped)"
    msub = ast.unparse(pyfront.subst_locals(fn_node, ast.Name(id=mvar, ctx=ast.Load()))).replace(" ", "")
    wants = [["'_'", f"{x}.group(1).lower()", f"{subj}[{x}.end():]"] for x in (mvar, msub)]
    n_ret = n_miss = 0
    for st, gd in pyfront.walk_guarded(fn_node.body):
        terms = pyfront.guard_terms(gd)
        matched = (mvar, True) in terms or (f"{mvar} is not None", True) in terms or (f"{mvar} is None", False) in terms
        if isinstance(st, ast.Return):
            is_none = st.value is None or (isinstance(st.value, ast.Constant) and st.value.value is None)
            if is_none:
                if on_miss is not None or matched:
                    return False, "returns None where a repaired token or the pending error is due"
                n_miss += 1
                continue
            n_ret += 1
            parts = _concat_parts(pyfront.subst_locals(fn_node, st.value))
            if not matched or parts not in wants:
                return False, f"return of {parts} (match known: {matched})"
        elif isinstance(st, ast.Raise):
            n_miss += 1
            if on_miss is None or st.exc is None or ast.unparse(st.exc) != on_miss or matched:
                return False, "raise is not the pending error on the no-match path"
    if not n_ret or not n_miss:
        return False, "no return / no re-raise"
    return True, ""


def _handler_shape(h, px=None):
    """the language failure handler: m = re.match(<^_+([A-Z]?)>, stropped); on a match returns "_" + m.group(1).lower() +
    stropped[m.end():]; otherwise raises the pending error - itself, or through a package function that computes the repair and
    returns None when there is nothing to repair"""
    ps = [a.arg for a in h.node.args.args]
    if len(ps) < 4:
        return False, "unexpected signature"
    subj, pend = ps[-3], ps[-1]
    ok, why = _repair_core(h.node, h.module.tree, subj, pend)
    if ok or px is None or why != "no re.match(<pattern>, stropped)":
        return ok, why
    # delegation:  r = repair(stropped);  if r is None: raise pending_error;  return r
    for n in ast.walk(h.node):
        if isinstance(n, ast.Assign) and isinstance(n.value, ast.Call) and isinstance(n.targets[0], ast.Name) and [ast.unparse(a) for a in n.value.args] == [subj]:
            for g in px.resolve_call(h, n.value, by_name_fallback=False):
                gp = [a.arg for a in g.node.args.args]
                if len(gp) != 1:
                    continue
                okg, whyg = _repair_core(g.node, g.module.tree, gp[0], None)
                if not okg:
                    return False, f"{g.short}: {whyg}"
                r = n.targets[0].id
                n_ret = n_raise = 0
                for st, gd in pyfront.walk_guarded(h.node.body):
                    terms = pyfront.guard_terms(gd)
                    missing = (f"{r} is None", True) in terms or (f"{r} is not None", False) in terms or (r, False) in terms
                    if isinstance(st, ast.Return):
                        n_ret += 1
                        if missing or st.value is None or ast.unparse(st.value) != r:
                            return False, "the handler does not return the repaired token"
                    elif isinstance(st, ast.Raise):
                        n_raise += 1
                        if not missing or st.exc is None or ast.unparse(st.exc) != pend:
                            return False, "raise is not the pending error on the no-repair path"
                return (True, "") if n_ret and n_raise else (False, "no return / no re-raise")
    return False, why


def rule_config(ctx, px, root):
    R = "R-C09-CONFIG"
    ctx.rule(
        R,
        "per built-in language with stropping enabled: the 'all' encoding rules cover every character outside the "
        "identifier alphabet and the leading-digit case; the images of encoding (prefix + upper-case hex, whitespace "
        "character) and the stropping prefix/suffix lie inside the alphabet and do not start with a digit; prefix + "
        "reserved word + suffix is not itself reserved unless a failure handler is installed; the failure handlers' "
        "output language is disjoint from the reserved list and from every 'all' reserved pattern; the reserved lists "
        "contain the ISO C11 / C++20 keyword tables and Python's keyword + builtins construction",
    )
    cfg = yaml.safe_load((root / "src" / "nunavut" / "lang" / "properties.yaml").read_text())
    src = "src/nunavut/lang/properties.yaml"
    n_lang = 0
    for lang in ("c", "cpp", "py"):
        sect = cfg.get(f"nunavut.lang.{lang}") or {}
        if not sect.get("enable_stropping"):
            ctx.ob(R, src, f"{lang}: stropping enabled", False, "built-in language generates identifiers without stropping")
            continue
        n_lang += 1
        rules = (sect.get("token_encoding_rules_by_identifier_type") or {}).get("all") or []
        pats = (sect.get("reserved_token_patterns_by_type") or {})
        all_pats = pats.get("all") or []
        enc = sect.get("encoding_prefix") or ""
        pre = sect.get("stropping_prefix") or ""
        suf = sect.get("stropping_suffix") or ""
        ws = sect.get("whitespace_encoding_char")
        reserved = list(sect.get("reserved_identifiers") or [])
        # (a) alphabet coverage
        unmatched = None
        for r in rules:
            listed = _class_of_negated_rule(r)
            if listed is not None:
                unmatched = listed if unmatched is None else (unmatched & listed)
        ok = unmatched is not None and unmatched <= ALPHABET
        ctx.ob(R, src, f"{lang}: an unanchored encoding rule matches every character outside [A-Za-z0-9_]", ok,
               "" if ok else (f"characters left unencoded: {sorted(unmatched - ALPHABET)}" if unmatched is not None else
                              "no rule of the form [^...]+ : illegal characters can survive encoding"))
        lead_digit = any(_prefix_possible(list(sre_parse.parse(r)), "1") and str(r).lstrip("(").startswith("^") for r in rules) or \
            any(_prefix_possible(list(sre_parse.parse(r)), "1") and str(r).lstrip("(").startswith("^") for r in all_pats)
        ctx.ob(R, src, f"{lang}: a leading digit is encoded or stropped", lead_digit,
               "" if lead_digit else "a token starting with a digit is returned as is (not an identifier)")
        # (b) images
        for label, val in (("encoding_prefix", enc), ("stropping_prefix", pre), ("stropping_suffix", suf), ("whitespace_encoding_char", ws or "")):
            ok = set(val) <= ALPHABET
            ctx.ob(R, src, f"{lang}: {label} {val!r} lies inside the identifier alphabet", ok, "" if ok else "encoded/stropped tokens contain illegal characters")
        ok = ws is None or (isinstance(ws, str) and len(ws) > 0)
        ctx.ob(R, src, f"{lang}: whitespace_encoding_char is absent or non-empty (a whitespace run cannot be encoded to nothing)", ok, "")
        ok = bool(enc) and not enc[0].isdigit()
        ctx.ob(R, src, f"{lang}: encoding_prefix does not start with a digit (encoded leading characters stay legal)", ok,
               "" if ok else f"encoding_prefix {enc!r}: a token whose first character is encoded starts with a digit")
        ok = not (pre and pre[0].isdigit())
        ctx.ob(R, src, f"{lang}: stropping_prefix does not start with a digit", ok, "")
        ok = bool(pre or suf)
        ctx.ob(R, src, f"{lang}: stropping changes the token (prefix or suffix is non-empty)", ok,
               "" if ok else "reserved words are returned unchanged")
        # (c) prefix + w + suffix not reserved
        m = px.module(f"nunavut.lang.{lang}")
        enc_call = None
        for n in ast.walk(m.tree):
            if isinstance(n, ast.Call) and ast.unparse(n.func) == "TokenEncoder":
                enc_call = n
        if enc_call is None:
            raise AnalysisError(f"anchor missing: TokenEncoder(...) construction in nunavut.lang.{lang}")
        kws = {k.arg: ast.unparse(k.value) for k in enc_call.keywords}
        has_strop_handler = "stropping_failure_handler" in kws
        has_enc_handler = "encoding_failure_handler" in kws
        full_reserved = set(reserved)
        if lang == "py":
            full_reserved |= set(map(str, list(keyword.kwlist) + dir(builtins)))
        clashes = [w for w in full_reserved if (pre + w + suf) in full_reserved]
        ok = not clashes or has_strop_handler
        ctx.ob(R, src, f"{lang}: prefix + reserved word + suffix is not itself a reserved word ({len(full_reserved)} words)", ok,
               ("" if not clashes else f"{clashes[:5]} handled by the failure handler") if ok else
               f"{clashes[:5]}: stropping yields another reserved word and strop raises for ordinary DSDL names")
        pat_clashes = []
        for w in sorted(full_reserved):
            t = pre + w + suf
            for p in all_pats:
                if _prefix_possible(list(sre_parse.parse(p)), t[:2]) and __import__("re").match(p, t):
                    pat_clashes.append((w, p))
        ok = not pat_clashes or has_strop_handler
        ctx.ob(R, src, f"{lang}: stropped reserved words do not match an 'all' reserved pattern (or a failure handler exists)", ok,
               f"{len(pat_clashes)} stropped words hit a pattern; handler installed" if pat_clashes and ok else ("" if ok else f"{pat_clashes[:4]}"))
        # (d) failure handler output language:  "_" + non-upper, non-underscore
        if has_strop_handler or has_enc_handler:
            bad_ids = [w for w in full_reserved if len(w) > 1 and w[0] == "_" and not (w[1].isupper() or w[1] == "_")]
            ctx.ob(R, src, f"{lang}: no reserved identifier has the shape of a failure-handler result (`_` + non-upper-case)", not bad_ids,
                   "" if not bad_ids else f"{bad_ids[:5]} can be produced by the handler")
            for p in all_pats:
                can, ex = _first_chars_can_start_with(p, lambda c0, c1: c0 == "_" and not (c1.isupper() or c1 == "_"))
                ctx.ob(R, src, f"{lang}: reserved pattern {p!r} cannot match a failure-handler result", not can,
                       "" if not can else f"e.g. a token starting {ex!r}")
            # handler shape
            hname = (kws.get("stropping_failure_handler") or kws.get("encoding_failure_handler")).split(".")[-1]
            h = None
            for f in px.all_funcs:
                if f.module is m and f.name == hname:
                    h = f
            if h is None:
                raise AnalysisError(f"anchor missing: failure handler {hname} of {lang}")
            ok, why = _handler_shape(h, px)
            ctx.ob(R, m.rel, f"{h.short} :: returns `_` + lower-cased first letter + rest, or re-raises", ok, why, h.node.lineno)
        # (e) keyword tables
        if lang in ("c", "cpp"):
            missing = sorted(set(C11_KEYWORDS + CPP20_KEYWORDS) - set(reserved))
            ctx.ob(R, src, f"{lang}: reserved_identifiers contains the ISO C11 and C++20 keyword tables ({len(set(C11_KEYWORDS + CPP20_KEYWORDS))} words)",
                   not missing, "" if not missing else f"missing keywords: {missing}")
        else:
            cls = m.classes.get("Language")
            expr = None
            for st in cls.node.body:
                if isinstance(st, (ast.Assign, ast.AnnAssign)) and "PYTHON_RESERVED_IDENTIFIERS" in ast.unparse(st.targets[0] if isinstance(st, ast.Assign) else st.target):
                    expr = ast.unparse(st.value)
            folded, why = None, ""
            try:
                folded = set(_fold(ast.parse(expr, mode="eval").body, {})) if expr is not None else None
            except _Unfoldable as ex:
                why = f"cannot fold: {ex}"
            # required: every keyword and every name of the builtins module except the module object's own metadata
            required = set(keyword.kwlist) | (set(dir(builtins)) - _BUILTINS_MODULE_METADATA)
            missing = sorted(required - folded) if folded is not None else []
            ok = folded is not None and not missing
            ctx.ob(R, m.rel, "py: PYTHON_RESERVED_IDENTIFIERS covers keyword.kwlist and the names of the builtins module", ok,
                   f"{len(folded)} names" if ok else (why or f"not reserved any more: {missing[:8]}"))
            ok = kws.get("additional_reserved_identifiers") == "self.PYTHON_RESERVED_IDENTIFIERS"
            ctx.ob(R, m.rel, "py: the encoder receives PYTHON_RESERVED_IDENTIFIERS", ok, str(kws))
    ctx.floor(R + ":languages", n_lang, 3)
    # filter_id of each language routes through strop
    for lang in ("c", "cpp", "py"):
        m = px.module(f"nunavut.lang.{lang}")
        f = m.classes["Language"].methods.get("filter_id") or m.classes["Language"].mro_lookup("filter_id")
        if f is None or not any(isinstance(c_, ast.Call) for c_ in ast.walk(f.node)):
            raise AnalysisError(f"anchor missing: Language.filter_id of {lang}")
        rets = [ast.unparse(r.value) for r in ast.walk(f.node) if isinstance(r, ast.Return)]
        ok = bool(rets) and all(".strop(" in r for r in rets)
        ctx.ob(R, m.rel, f"{lang}: Language.filter_id returns the encoder's strop() result", ok, f"{rets}", f.node.lineno)
        # ... for the category it was asked for: the identifier type travels to strop() as given (the rules of a category the language
        # has no table for are the 'all' rules - TokenEncoder looks the type up and skips what is absent; substituting another
        # category changes which names count as reserved, so valid names of that category come back altered)
        for g, who in ((f, "Language.filter_id"), (m.funcs.get("filter_id"), "filter_id (template filter)")):
            if g is None:
                raise AnalysisError(f"anchor missing: {who} of {lang}")
            ps = [a.arg for a in g.node.args.args]
            cat = ps[-1]
            calls = [c for c in ast.walk(g.node) if isinstance(c, ast.Call) and isinstance(c.func, ast.Attribute) and c.func.attr in ("strop", "filter_id")]
            passed = [ast.unparse(c.args[1]) if len(c.args) > 1 else next((ast.unparse(k.value) for k in c.keywords if k.arg in ("id_type", "token_type")), None) for c in calls]
            rebound = [n for n in ast.walk(g.node) if isinstance(n, ast.Name) and n.id == cat and isinstance(n.ctx, ast.Store)]
            harmless = [a for a in ast.walk(g.node) if isinstance(a, ast.Assign) and len(a.targets) == 1 and isinstance(a.targets[0], ast.Name) and a.targets[0].id == cat
                        and ast.unparse(a.value) in (f"{cat}.lower()", f"str({cat})", f"str({cat}).lower()")]
            if len(harmless) == len(rebound):
                rebound = []      # case folding is what the encoder does with the category anyway
            okc = bool(calls) and all(x == cat for x in passed) and not rebound
            ctx.ob(R, m.rel, f"{lang}: {who} hands its identifier category to the encoder as given", okc,
                   "" if okc else (f"`{cat}` is re-bound before the call" if rebound else f"passes {passed}") +
                   ": names are stropped by the rules of a different category than the one asked for (valid names of that category are altered)", g.node.lineno)


def run(ctx):
    ctx.explanation = (
        "C09 is decided on two levels: (1) the shape of TokenEncoder.strop - every return is dominated by the three "
        "dry-run re-verifications, transformations happen only under a match, the call graph is pure and memoised on "
        "all its inputs; (2) the configuration of each built-in language in properties.yaml, reasoned about through "
        "regex ASTs and tables - alphabet coverage of the encoding rules, images inside the alphabet, stropped reserved "
        "words not reserved, failure-handler results disjoint from everything reserved, keyword tables complete.  The "
        "value-level claim for every unicode string is not enumerated."
    )
    ctx.declined = ["validity of the result for every unicode string as a value-level claim about re.sub compositions",
                    "configuration overrides supplied by users"]
    px = pyfront.PyIndex(ctx.root)
    rule_recheck(ctx, px)
    rule_identity(ctx, px)
    rule_pure(ctx, px)
    rule_config(ctx, px, ctx.root)
