"""
C06 - every valid DSDL input yields code that builds cleanly on its own.
Static: name-resolution exhaustiveness over all template paths, option keys, omit-scope of support symbols, pairing.
"""
import ast
import re

from nvsa import j2front, pyfront, registry
from nvsa.j2front import xs
from nvsa.report import AnalysisError


def _exported_names(ts, t):
    """names a template defines at any level (set / macro / import / for targets): visible to included templates and,
    for the parent of an `extends`, to the child's blocks"""
    N = ts.nodes
    out = set()
    for n in t.ast.find_all((N.Assign, N.AssignBlock)):
        for x in n.target.find_all(N.Name) if not isinstance(n.target, N.Name) else [n.target]:
            out.add(x.name)
    for n in t.ast.find_all(N.Macro):
        out.add(n.name)
    for n in t.ast.find_all(N.FromImport):
        for nm in n.names:
            out.add(nm[1] if isinstance(nm, tuple) else nm)
    for n in t.ast.find_all(N.Import):
        out.add(n.target)
    for n in t.ast.find_all(N.For):
        for x in n.target.find_all(N.Name) if not isinstance(n.target, N.Name) else [n.target]:
            out.add(x.name)
    return out


SCOPE_KINDS = ("macro", "for", "callblock")


def _decl_targets(N, target):
    if isinstance(target, N.Name):
        return [target.name]
    if isinstance(target, N.NSRef):
        return []
    return [x.name for x in target.find_all(N.Name)]


def _scope_chain(t, stack):
    return [id(t)] + [id(g.node) for g in stack if g.kind in SCOPE_KINDS]


def _free_names(ts, t):
    """names loaded somewhere in t that are not declared in any enclosing scope (template / macro / for / call block)"""
    N = ts.nodes
    decls = {}

    def declare(scope, names):
        decls.setdefault(scope, set()).update(names)

    declare(id(t), {"self", "super"})
    for node, stack in j2front.walk(t.ast):
        chain = _scope_chain(t, stack)
        inner = chain[-1]
        if isinstance(node, (N.Assign, N.AssignBlock)):
            declare(inner, _decl_targets(N, node.target))
        elif isinstance(node, N.Macro):
            declare(inner, [node.name])
            declare(id(node), [a.name for a in node.args] + ["caller", "varargs", "kwargs"])
        elif isinstance(node, N.For):
            declare(id(node), _decl_targets(N, node.target) + ["loop"])
        elif isinstance(node, N.CallBlock):
            declare(id(node), [a.name for a in node.args])
        elif isinstance(node, N.FromImport):
            declare(inner, [(nm[1] if isinstance(nm, tuple) else nm) for nm in node.names])
        elif isinstance(node, N.Import):
            declare(inner, [node.target])
    free = set()
    for node, stack in j2front.walk(t.ast):
        if isinstance(node, N.Name) and node.ctx == "load":
            chain = _scope_chain(t, stack)
            if not any(node.name in decls.get(sc, ()) for sc in chain):
                free.add(node.name)
    return free


def _count_name_loads(ts, t):
    N = ts.nodes
    return sum(1 for n in t.ast.find_all(N.Name) if n.ctx == "load")


def rule_resolve(ctx, ts, reg):
    R = "R-C06-RESOLVE"
    ctx.rule(
        R,
        "every filter, test, uses-query, global / free variable, imported macro and include/extends/import target "
        "referenced anywhere in a built-in template (on any path, including those no fixture reaches) resolves in the "
        "environment Nunavut builds for that language; StrictUndefined turns an unresolved name into a generation "
        "failure on exactly the inputs that reach it",
    )
    N = ts.nodes
    meta = ts.b.jinja2.meta if hasattr(ts.b.jinja2, "meta") else __import__("nunavut.jinja.jinja2.meta", fromlist=["meta"])
    n_refs = 0
    for t in ts.templates:
        flt = reg.filters(t.lang, t.kind)
        tst = reg.tests(t.lang, t.kind)
        glb = reg.globals(t.lang, t.kind)
        by_name = {x.name: x for x in ts.templates if x.lang == t.lang and x.kind == t.kind}
        # filters / tests
        for node, stack in j2front.walk(t.ast):
            if isinstance(node, N.Filter):
                n_refs += 1
                if node.name not in flt:
                    ctx.ob(R, t.rel, f"filter `{node.name}` @ {j2front.construct_path(stack)}", False,
                           f"filter `{node.name}` is not registered for language {t.lang} ({t.kind})", node.lineno)
            elif isinstance(node, N.Test):
                n_refs += 1
                if node.name not in tst:
                    ctx.ob(R, t.rel, f"test `{node.name}` @ {j2front.construct_path(stack)}", False,
                           f"test `{node.name}` is not registered for language {t.lang} ({t.kind})", node.lineno)
            elif isinstance(node, N.Call) and isinstance(node.node, N.ExtensionAttribute) and node.node.name in ("_use_query", "_use_nquery"):
                n_refs += 1
                arg = node.args[0] if node.args else None
                if isinstance(arg, N.Const):
                    if arg.value not in reg.uses(t.lang):
                        ctx.ob(R, t.rel, f"ifuses \"{arg.value}\" @ {j2front.construct_path(stack)}", False,
                               f"uses-query `{arg.value}` is not defined by nunavut.lang.{t.lang}", node.lineno)
            elif isinstance(node, (N.Include, N.Extends, N.Import, N.FromImport)):
                n_refs += 1
                if isinstance(node.template, N.Const):
                    tgt = by_name.get(node.template.value)
                    if tgt is None and isinstance(node, N.Include) and (t.path.parent / node.template.value).is_file():
                        continue  # a packaged asset included verbatim
                    if tgt is None:
                        ctx.ob(R, t.rel, f"{type(node).__name__.lower()} '{node.template.value}'", False,
                               "template does not exist in the built-in set of this language", node.lineno)
                    elif isinstance(node, N.FromImport):
                        exported = set(ts.macros(tgt)) | {a.target.name for a in tgt.ast.body if isinstance(a, N.Assign) and isinstance(a.target, N.Name)}
                        # top-level sets inside if-blocks are exported too
                        for a in tgt.ast.find_all(N.Assign):
                            if isinstance(a.target, N.Name):
                                exported.add(a.target.name)
                        for nm in node.names:
                            src = nm[0] if isinstance(nm, tuple) else nm
                            n_refs += 1
                            if src not in exported:
                                ctx.ob(R, t.rel, f"from '{node.template.value}' import {src}", False,
                                       f"`{src}` is not defined by {tgt.rel}", node.lineno)
                else:
                    # dynamic include: must come from type_to_template (resolved per class by the loader)
                    e = xs(node.template)
                    ok = "type_to_template" in e
                    ctx.ob(R, t.rel, f"dynamic {type(node).__name__.lower()} {e}", ok, "" if ok else "target cannot be resolved statically", node.lineno)
        # free variables: scope-aware, flow-insensitive resolution (a name declared on any branch of an enclosing
        # scope counts as declared - correlated branches are common and feasible-path reasoning is out of reach)
        free = _free_names(ts, t) - glb
        n_refs += _count_name_loads(ts, t)
        if free:
            orc_sites = []
            for h in ts.templates:
                if h.lang != t.lang or h.kind != t.kind or h is t:
                    continue
                for n in h.ast.find_all((N.Include, N.Extends)):
                    if isinstance(n.template, N.Const) and n.template.value == t.name:
                        orc_sites.append((h, "pulls"))
                for n in t.ast.find_all(N.Extends):
                    if isinstance(n.template, N.Const) and n.template.value == h.name:
                        orc_sites.append((h, "parent"))
            provided = None
            from_parent = set()
            for h, rel in orc_sites:
                names = _exported_names(ts, h) | reg.globals(h.lang, h.kind)
                for h2 in ts.templates:
                    if h2.lang == h.lang and h2.kind == h.kind:
                        for n in h.ast.find_all(N.Extends):
                            if isinstance(n.template, N.Const) and n.template.value == h2.name:
                                names |= _exported_names(ts, h2)
                        # h itself may be included by h2 (two hops of include-with-context)
                        for n in h2.ast.find_all(N.Include):
                            if isinstance(n.template, N.Const) and n.template.value == h.name:
                                names |= _exported_names(ts, h2)
                if rel == "parent":
                    from_parent |= names  # the parent is there however this template is reached
                else:
                    provided = names if provided is None else (provided & names)
            provided = (provided or set()) | from_parent
            for name in sorted(free):
                ok = name in provided
                where = ", ".join(sorted({h.name for h, _ in orc_sites})) or "-"
                ctx.ob(R, t.rel, f"free variable `{name}`", ok,
                       f"provided by every including/parent template ({where})" if ok else
                       f"`{name}` is neither a global of language {t.lang}, nor declared in an enclosing scope of its use, nor "
                       f"defined by every template that includes/parents this one ({where})")
    ctx.unit("template_references_resolved", n_refs)
    ctx.ob(R, "src/nunavut/lang", f"{n_refs} references in {len(ts.templates)} templates examined", True, "all unresolved ones are listed individually")
    ctx.floor(R + ":refs", n_refs, 700)


def rule_options(ctx, ts, reg):
    R = "R-C06-OPTIONS"
    ctx.rule(R, "every options.<key> read by a template of language L is defined for L in properties.yaml (or set by the language's option validation); "
             "Python code asks option keys through get_option and section-level keys through get_config_value*, never the other way round")
    N = ts.nodes
    n = 0
    for t in ts.templates:
        keys = reg.option_keys(t.lang)
        for node, stack in j2front.walk(t.ast):
            k = None
            if isinstance(node, N.Getattr) and isinstance(node.node, N.Name) and node.node.name == "options":
                k = node.attr
            elif isinstance(node, N.Getitem) and isinstance(node.node, N.Name) and node.node.name == "options" and isinstance(node.arg, N.Const):
                k = node.arg.value
            if k is None or k in ("items", "keys", "values", "update"):
                continue
            n += 1
            ok = k in keys
            ctx.ob(R, t.rel, f"options.{k} @ {j2front.construct_path(stack)}", ok,
                   "" if ok else f"option `{k}` is not defined for language {t.lang}: StrictUndefined aborts generation on this path", node.lineno)
    ctx.floor(R, n, 8)
    # the Python side reads the same configuration through two accessors: get_option(<key>) looks under `options`, get_config_value*(<key>)
    # at the language section itself.  The two key sets of properties.yaml are disjoint, so a key asked at the wrong level silently
    # yields the caller's default (a configured `prefer_system_includes: true` asked as an option is always False).
    import yaml
    cfg = yaml.safe_load((ts.root / "src" / "nunavut" / "lang" / "properties.yaml").read_text())
    opt_keys, sect_keys = set(), set()
    for body in cfg.values():
        for k_, v_ in (body or {}).items():
            if k_ == "options":
                opt_keys |= set((v_ or {}).keys())
            else:
                sect_keys.add(k_)
        for grp in ((body or {}).get("defaults") or {}).values():
            opt_keys |= set((grp or {}).keys())
    px = reg.px if hasattr(reg, "px") else None
    m = 0
    if px is not None:
        consts = {}
        lang_cls = px.cls("nunavut.lang._language", "Language")
        for st_ in lang_cls.node.body:
            if isinstance(st_, ast.Assign) and isinstance(st_.targets[0], ast.Name) and isinstance(st_.value, ast.Constant) and isinstance(st_.value.value, str):
                consts[st_.targets[0].id] = st_.value.value
        for f in px.all_funcs:
            if f.outer is not None:
                continue
            for c in ast.walk(f.node):
                if not (isinstance(c, ast.Call) and isinstance(c.func, ast.Attribute) and c.args):
                    continue
                a0 = c.args[0]
                key = a0.value if isinstance(a0, ast.Constant) and isinstance(a0.value, str) else (
                    consts.get(a0.attr) if isinstance(a0, ast.Attribute) and a0.attr.startswith("WKCV_") else None)
                if key is None:
                    continue
                if c.func.attr == "get_option":
                    m += 1
                    ok = key in opt_keys
                    ctx.ob(R, f.module.rel, f"{f.short} :: get_option('{key}') names a language option", ok,
                           "" if ok else (f"`{key}` is a section-level setting of properties.yaml, not an entry of `options`: the lookup always returns the default, "
                                          "whatever is configured" if key in sect_keys else f"`{key}` is defined nowhere in properties.yaml"), c.lineno)
                elif c.func.attr in ("get_config_value", "get_config_value_as_bool", "get_config_value_as_list", "get_config_value_as_dict") and len(c.args) <= 2 \
                        and not (isinstance(c.func.value, ast.Attribute) and c.func.value.attr == "_config"):
                    m += 1
                    ok = key in sect_keys
                    ctx.ob(R, f.module.rel, f"{f.short} :: {c.func.attr}('{key}') names a section-level setting", ok,
                           "" if ok else (f"`{key}` is a language option (under `options`): asked at the section level it is never found" if key in opt_keys
                                          else f"`{key}` is defined nowhere in properties.yaml"), c.lineno)
        ctx.floor(R + ":python-keys", m, 20)


C_SUPPORT_ONLY = re.compile(r"\b(NUNAVUT_[A-Z0-9_]+|nunavut[A-Z][A-Za-z0-9_]*)\b")
CPP_SUPPORT_ONLY = re.compile(r"\bnunavut::support\b")


def _not_omit(facts):
    return ("nunavut.support.omit", False) in facts


def rule_omit_scope(ctx, ts, px):
    R = "R-C06-OMIT-SCOPE"
    ctx.rule(
        R,
        "every symbol that only the serialization support header provides (C: NUNAVUT_* / nunavut*; C++: "
        "nunavut::support::*; C static_assert via <assert.h>) is referenced by a type template only where "
        "`not nunavut.support.omit` holds on every path to it (lexically, at every call site of the enclosing macro, "
        "or at every import site of the template) - or the type header includes the providing standard header itself "
        "when support is omitted",
    )
    N = ts.nodes
    n = 0
    for lang, rx in (("c", C_SUPPORT_ONLY), ("cpp", CPP_SUPPORT_ONLY)):
        orc = j2front.GuardOracle(ts, lang)
        for t in ts.of_lang(lang, "templates"):
            for node, stack in j2front.walk(t.ast):
                if not isinstance(node, N.Output):
                    continue
                syms = sorted(set(m.group(0) for m in rx.finditer(_strip_comments(_output_text(N, node), lang))))
                for s in syms:
                    if s.endswith("_INCLUDED_") or s.endswith("_HPP_INCLUDED"):
                        continue
                    n += 1
                    ok = orc.guarded(t, stack, _not_omit)
                    ctx.ob(R, t.rel, f"{s} @ {j2front.construct_path(stack)}", ok,
                           "" if ok else f"`{s}` is defined only by the serialization support header, which is not included with "
                           "--omit-serialization-support: the generated header does not compile on its own", node.lineno)
    ctx.floor(R, n, 30)
    # C: static_assert needs <assert.h>
    orc = j2front.GuardOracle(ts, "c")
    base = ts.get("c", "base.j2")
    inc_under_omit = False
    for node, stack in j2front.walk(base.ast):
        if isinstance(node, N.TemplateData) and re.search(r"#\s*include\s*<assert\.h>", node.data):
            f = j2front.facts(stack)
            if f == [("nunavut.support.omit", True)] or f == []:
                inc_under_omit = True
    k = 0
    for t in ts.of_lang("c", "templates"):
        for node, stack in j2front.walk(t.ast):
            if isinstance(node, N.Output) and re.search(r"\bstatic_assert\s*\(", _strip_comments(_output_text(N, node), "c")):
                k += 1
                ok = orc.guarded(t, stack, _not_omit) or inc_under_omit
                ctx.ob(R, t.rel, f"static_assert @ {j2front.construct_path(stack)}", ok,
                       "" if ok else "static_assert is a macro of <assert.h>, reachable only through the support header; with "
                       "--omit-serialization-support nothing includes it", node.lineno)
    ctx.floor(R + ":static_assert", k, 1)


def _output_text(N, outp):
    """static text of one Output node with every expression replaced by a placeholder identifier"""
    return "".join(n.data if isinstance(n, N.TemplateData) else "\u00a7" for n in outp.nodes)


def _strip_comments(text, lang):
    # drop // comments and /* */ so that prose mentioning a symbol is not taken for a use
    text = re.sub(r"/\*.*?\*/", " ", text, flags=re.S)
    text = re.sub(r"//[^\n]*", " ", text)
    return text


def _include_table(f):
    """[(header expression text, [(condition text, polarity)], line)] for every header Language.get_includes can add: statements that
    append / add / extend the include container, elements of its initial literal, and rows of a (header, condition) table that a
    comprehension filters by the condition.  Conditions held in locals are spelled as their expressions."""
    def spelled(e):
        try:
            return ast.unparse(pyfront.subst_locals(f.node, ast.parse(e, mode="eval").body))
        except SyntaxError:
            return e
    rows = []
    for st, gd in pyfront.walk_guarded(f.node.body):
        terms = [(spelled(e), p) for e, p in pyfront.guard_terms(gd)]
        if isinstance(st, ast.Expr) and isinstance(st.value, ast.Call) and isinstance(st.value.func, ast.Attribute) \
                and st.value.func.attr in ("append", "extend", "insert", "add", "update") and "include" in ast.unparse(st.value.func.value):
            rows.append((ast.unparse(st.value.args[-1]) if st.value.args else "?", terms, st.lineno))
        elif isinstance(st, (ast.Assign, ast.AnnAssign)) and st.value is not None and isinstance(st.value, (ast.List, ast.Set, ast.Tuple)) \
                and "include" in ast.unparse(st.targets[0] if isinstance(st, ast.Assign) else st.target):
            rows += [(ast.unparse(e), terms, st.lineno) for e in st.value.elts]
        elif isinstance(st, (ast.Assign, ast.AnnAssign)) and isinstance(st.value, ast.Dict) and st.value.keys and \
                all(isinstance(k_, ast.Constant) and isinstance(k_.value, str) for k_ in st.value.keys):
            # a `header -> needed?` map that a comprehension filters by its values
            dname = ast.unparse(st.targets[0] if isinstance(st, ast.Assign) else st.target)
            uses = [c_ for c_ in ast.walk(f.node) if isinstance(c_, (ast.ListComp, ast.GeneratorExp, ast.SetComp)) and len(c_.generators) == 1 and len(c_.generators[0].ifs) == 1]
            filtered = False
            for c_ in uses:
                g_ = c_.generators[0]
                it_ = ast.unparse(g_.iter).replace(" ", "")
                cond_ = ast.unparse(g_.ifs[0]).replace(" ", "")
                if isinstance(g_.target, ast.Name) and it_ in (dname, f"sorted({dname})", f"{dname}.keys()", f"sorted({dname}.keys())") and cond_ == f"{dname}[{g_.target.id}]":
                    filtered = True
                if isinstance(g_.target, ast.Tuple) and len(g_.target.elts) == 2 and it_ in (f"{dname}.items()", f"sorted({dname}.items())") \
                        and cond_ == ast.unparse(g_.target.elts[1]):
                    filtered = True
            if filtered:
                for k_, v_ in zip(st.value.keys, st.value.values):
                    extra = [] if (isinstance(v_, ast.Constant) and v_.value is True) else list(pyfront.guard_terms([(pyfront.subst_locals(f.node, v_), True)]))
                    rows.append((repr(k_.value), terms + [(spelled(e), p) for e, p in extra], st.lineno))
        elif isinstance(st, ast.Return) and st.value is not None:
            for comp in [c for c in ast.walk(pyfront.subst_locals(f.node, st.value)) if isinstance(c, (ast.ListComp, ast.GeneratorExp, ast.SetComp))]:
                if len(comp.generators) != 1:
                    continue
                g = comp.generators[0]
                tbl = pyfront.subst_locals(f.node, g.iter)
                if isinstance(g.target, ast.Tuple) and len(g.target.elts) == 2 and all(isinstance(x, ast.Name) for x in g.target.elts) \
                        and isinstance(tbl, (ast.Tuple, ast.List)) and all(isinstance(r, ast.Tuple) and len(r.elts) == 2 for r in tbl.elts):
                    hv, cv = g.target.elts[0].id, g.target.elts[1].id
                    filt = [ast.unparse(i) for i in g.ifs]
                    for r in tbl.elts:
                        h_, c_ = r.elts
                        if isinstance(h_, ast.Constant) and isinstance(c_, ast.Constant) and not isinstance(h_.value, str):
                            h_, c_ = c_, h_
                        extra = []
                        if filt == [cv]:
                            if not (isinstance(c_, ast.Constant) and c_.value is True):
                                extra = list(pyfront.guard_terms([(pyfront.subst_locals(f.node, c_), True)]))
                        elif filt:
                            extra = [(f"<{' and '.join(filt)}>", True)]
                        rows.append((ast.unparse(h_), terms + [(spelled(e), p) for e, p in extra], st.lineno))
    return rows


def rule_std_includes(ctx, px):
    R = "R-C06-STD-INCLUDES"
    ctx.rule(
        R,
        "C: <stdint.h> is included whenever the type templates can emit a fixed-width integer type: for integer fields, "
        "for unions (tag) and for arrays of booleans (bit-packed uint8_t storage)",
    )
    f = px.func("nunavut.lang.c", "Language.get_includes")
    cond = None
    for hdr, terms, _ln in _include_table(f):
        if "stdint.h" in hdr:
            cond = terms
    if cond is None:
        raise AnalysisError("anchor missing: stdint.h in C get_includes")
    txt = " ".join(e for e, p in cond if p)
    for flag, why in (("uses_integer", "integer fields and union tags"),
                      ("uses_boolean_static_array", "bool[N] is stored bit-packed in uint8_t"),
                      ("uses_variable_length_array", "bool[<=N] is stored bit-packed in uint8_t")):
        ok = f"dep_types.{flag}" in txt
        ctx.ob(R, f.module.rel, f"{f.short} :: stdint.h for {why.split(' is ')[0] if ' is ' in why else flag}", ok,
               "" if ok else f"<stdint.h> is not included when only dep_types.{flag} is set ({why}): unknown type name 'uint8_t' "
               "in headers generated without serialization support", f.node.lineno)
    # the dependency builder sets uses_integer for unions
    b = px.func("nunavut._dependencies", "DependencyBuilder._build_dependency_list")
    ok = False
    for st, gd in pyfront.walk_guarded(b.node.body):
        if isinstance(st, ast.Assign) and any(isinstance(t, ast.Attribute) and t.attr == "uses_integer" for t in st.targets) \
                and isinstance(st.value, ast.Constant) and st.value.value is True:
            def about_unions(e, depth=0, seen=()):
                """the condition tests for a union, directly or through the private helpers it calls"""
                if "UnionType" in e:
                    return True
                if depth > 3 or b.cls is None:
                    return False
                try:
                    node_ = ast.parse(e, mode="eval").body
                except SyntaxError:
                    return False
                for c_ in ast.walk(node_):
                    if isinstance(c_, ast.Call) and isinstance(c_.func, ast.Attribute) and isinstance(c_.func.value, ast.Name) and c_.func.value.id in ("cls", "self") \
                            and c_.func.attr in b.cls.methods and c_.func.attr not in seen:
                        if about_unions(ast.unparse(b.cls.methods[c_.func.attr].node), depth + 1, seen + (c_.func.attr,)):
                            return True
                return False
            if any(about_unions(e) and pos for e, pos in pyfront.guard_terms(gd)):
                ok = True
    ctx.ob(R, b.module.rel, f"{b.short} :: unions count as integer users (tag field)", ok, "", b.node.lineno)


def rule_omit_std_types(ctx, ts):
    R = "R-C06-OMIT-STD-TYPES"
    ctx.rule(
        R,
        "C type templates use bool / uintN_t typedefs outside the `not nunavut.support.omit` guard (union accessors, "
        "bit-packed storage, the placeholder member of empty types) under conditions that the dependency flags do not "
        "cover; the type header must therefore include <stdbool.h> and <stdint.h> itself when the support header is "
        "omitted (or unconditionally)",
    )
    N = ts.nodes
    base = ts.get("c", "base.j2")
    have = {}
    for node, stack in j2front.walk(base.ast):
        if isinstance(node, N.TemplateData):
            for m in re.finditer(r"#\s*include\s*<(stdbool|stdint)\.h>", node.data):
                f = j2front.facts(stack)
                if f in ([], [("nunavut.support.omit", True)]):
                    have[m.group(1)] = True
    orc = j2front.GuardOracle(ts, "c")
    uses = {"stdbool": [], "stdint": []}
    for t in ts.of_lang("c", "templates"):
        for node, stack in j2front.walk(t.ast):
            hdr = None
            if isinstance(node, N.Name) and node.ctx == "load" and node.name == "typename_boolean":
                hdr = "stdbool"
            elif isinstance(node, N.Name) and node.ctx == "load" and node.name == "typename_byte":
                hdr = "stdint"
            if hdr and not orc.guarded(t, stack, _not_omit):
                uses[hdr].append((t, node, stack))
    n = 0
    for hdr, sites in uses.items():
        for t, node, stack in sites:
            n += 1
            ok = have.get(hdr, False)
            ctx.ob(R, t.rel, f"{node.name} @ {j2front.construct_path(stack)}", ok,
                   f"<{hdr}.h> is included by base.j2 when support is omitted" if ok else
                   f"emitted without serialization support as well, but nothing guarantees <{hdr}.h> then (the include list adds it only "
                   "for matching field kinds): e.g. an empty type or a float-only union does not compile with --omit-serialization-support",
                   getattr(node, "lineno", None))
    ctx.floor(R, n, 2)


CPP_STD_HEADER = {
    "size_t": "cstddef", "ptrdiff_t": "cstddef", "uint8_t": "cstdint", "uint16_t": "cstdint", "uint32_t": "cstdint", "uint64_t": "cstdint",
    "int8_t": "cstdint", "int16_t": "cstdint", "int32_t": "cstdint", "int64_t": "cstdint",
    "aligned_storage": "type_traits", "add_pointer": "type_traits", "add_lvalue_reference": "type_traits", "add_const_t": "type_traits",
    "forward": "utility", "move": "utility", "addressof": "memory", "numeric_limits": "limits",
}


def rule_cpp_omit_std(ctx, ts, root, px=None):
    R = "R-C06-OMIT-STD-TYPES"
    N = ts.nodes
    base = ts.get("cpp", "base.j2")
    have = set()
    for node, stack in j2front.walk(base.ast):
        if isinstance(node, N.TemplateData):
            for m in re.finditer(r"#\s*include\s*<(\w+)>", node.data):
                if j2front.facts(stack) in ([], [("nunavut.support.omit", True)]):
                    have.add(m.group(1))
    # headers the include list adds unconditionally (Language.get_includes of C++)
    src = (root / "src" / "nunavut" / "lang" / "cpp" / "__init__.py").read_text()
    tree = ast.parse(src)
    for f in ast.walk(tree):
        if isinstance(f, ast.FunctionDef) and f.name == "get_includes":
            for st, gd in pyfront.walk_guarded(f.body):
                if isinstance(st, ast.Expr) and isinstance(st.value, ast.Call) and getattr(st.value.func, "attr", "") in ("append", "extend") and not gd:
                    for c in ast.walk(st.value):
                        if isinstance(c, ast.Constant) and isinstance(c.value, str) and c.value.isidentifier():
                            have.add(c.value)
    # ... in whatever form the include table is written (appends, literal, filtered (header, condition) rows, header -> needed? map)
    if px is not None:
        for hdr_, terms_, _ln in _include_table(px.func("nunavut.lang.cpp", "Language.get_includes")):
            if not terms_:
                m_ = re.fullmatch(r"[\"']<?(\w+)>?[\"']", hdr_.strip())
                if m_:
                    have.add(m_.group(1))
    orc = j2front.GuardOracle(ts, "cpp")
    uses = {}
    for t in ts.of_lang("cpp", "templates"):
        for node, stack in j2front.walk(t.ast):
            if isinstance(node, N.TemplateData):
                text = re.sub(r"//[^\n]*", " ", node.data)
                for m in re.finditer(r"\bstd::(\w+)", text):
                    if m.group(1) in CPP_STD_HEADER and not orc.guarded(t, stack, _not_omit):
                        uses.setdefault((m.group(1), CPP_STD_HEADER[m.group(1)]), (t, node, stack))
    import yaml
    cfg = yaml.safe_load((root / "src" / "nunavut" / "lang" / "properties.yaml").read_text())
    for k, v in (cfg.get("nunavut.lang.cpp", {}).get("named_types") or {}).items():
        m = re.match(r"^std::(\w+)$", str(v))
        if m and m.group(1) in CPP_STD_HEADER:
            uses.setdefault((m.group(1), CPP_STD_HEADER[m.group(1)]), (base, None, ()))
    n = 0
    for (name, hdr), (t, node, stack) in sorted(uses.items()):
        n += 1
        ok = hdr in have
        ctx.ob(R, t.rel, f"cpp: std::{name} is usable without the support header (<{hdr}>)", ok,
               f"<{hdr}> is included by the type header itself" if ok else
               f"std::{name} is emitted with --omit-serialization-support as well, but <{hdr}> then reaches the header only through includes that depend on the "
               "field kinds: e.g. a service of padding only (port-ID traits) or a C++14 union does not compile in that mode",
               getattr(node, "lineno", None))
    ctx.floor(R + ":cpp", n, 6)


def rule_unused_param(ctx, ts):
    R = "R-C06-UNUSED-PARAM"
    ctx.rule(
        R,
        "C++: the bodies emitted by _serialize_impl / _deserialize_impl refer to `obj` only through their fields; for a type "
        "whose fields are all padding nothing does, so the macro emits `(void)(obj)` unconditionally or under a test on "
        "fields_except_padding (otherwise -Wunused-parameter under -Werror rejects e.g. `void8 @sealed`)",
    )
    N = ts.nodes
    n = 0
    for fname, mname in (("serialization.j2", "_serialize_impl"), ("deserialization.j2", "_deserialize_impl")):
        t = ts.get("cpp", fname)
        m = ts.macro(t, mname)
        ok = False
        for node, stack in j2front.walk(m):
            if isinstance(node, N.TemplateData) and re.search(r"\(void\) ?\(? ?obj ?\)?;|static_cast<void>\(obj\)", node.data):
                f = [(e, p) for e, p in j2front.facts(stack)]
                if not f or all("fields_except_padding" in e or "fields" in e for e, p in f):
                    ok = True
        n += 1
        ctx.ob(R, t.rel, f"cpp: {mname}: `obj` is marked unused when no field refers to it", ok,
               "" if ok else "a type that consists of padding only gets a body that never mentions `obj`: unused-parameter diagnostic under the strict warning set", m.lineno)
    ctx.floor(R, n, 2)


def rule_member_strop(ctx, ts):
    R = "R-C06-MEMBER-STROP"
    ctx.rule(
        R,
        "identifiers derived from a DSDL name plus a fixed suffix are formed as id(name) + suffix wherever they are "
        "declared, because that is how the (de)serialization templates refer to them; the `id` filter is never applied "
        "to a concatenation of a name and a suffix (stropping does not commute with concatenation)",
    )
    N = ts.nodes
    n = 0
    for lang in ("c", "cpp"):
        orc = j2front.GuardOracle(ts, lang)
        for t in ts.of_lang(lang, "templates"):
            macros = ts.macros(t)
            for mname, m in list(macros.items()) + [("<top>", t.ast)]:
                params = [a.name for a in m.args] if mname != "<top>" else []
                for f in m.find_all(N.Filter):
                    if f.name != "id" or f.node is None:
                        continue
                    n += 1
                    exprs = [f.node]
                    if isinstance(f.node, N.Name) and f.node.name in params:
                        idx = params.index(f.node.name)
                        hosts = {id(h): h for h, _ in orc.call_sites.get((t.name, mname), [])}
                        for host in hosts.values():
                            for c in host.ast.find_all(N.Call):
                                nm = c.node.name if isinstance(c.node, N.Name) else None
                                if nm == mname and idx < len(c.args):
                                    exprs.append(c.args[idx])
                    for e in exprs:
                        concat = isinstance(e, (N.Add, N.Concat)) or (isinstance(e, N.Filter) and e.name == "format")
                        if concat:
                            parts = [e.left, e.right] if isinstance(e, N.Add) else (list(e.nodes) if isinstance(e, N.Concat) else [e.node] + list(e.args))
                            has_const = any(isinstance(x, N.Const) and isinstance(x.value, str) for x in parts)
                            has_var = any(not isinstance(x, N.Const) for x in parts)
                            if has_const and has_var:
                                ctx.ob(R, t.rel, f"`{xs(e)} | id` in {mname}", False,
                                       "the declared identifier is id(name + suffix) while uses append the suffix to id(name): for every name "
                                       "that stropping changes (keywords such as `register`) the member does not exist and the header does not compile",
                                       f.lineno)
    ctx.ob(R, "src/nunavut/lang", f"{n} uses of the id filter in C/C++ templates examined", True, "")
    ctx.floor(R + ":id-uses", n, 20)


def rule_name_agree(ctx, ts):
    R = "R-C06-NAME-AGREE"
    ctx.rule(
        R,
        "C: a preprocessor identifier that embeds a DSDL field name (<T>_<field>_ARRAY_CAPACITY_, ...) is formed from the same "
        "name expression where it is #defined and where it is used - resolved through macro parameters (call-site arguments) "
        "and through re-bindings of a parameter inside the macro; a use built from id(name) while the definition uses the raw "
        "name names a macro that does not exist for every field whose name is stropped.  Python: the keyword parameters __init__ "
        "declares and the keyword arguments the generated deserializer passes enumerate the same unfiltered fields_except_padding",
    )
    from nvsa import j2text
    N = ts.nodes
    lang = "c"
    occ = []   # (suffix, name-expression string, is_definition, template, macro name, lineno)
    all_macros = {}
    for t in ts.of_lang(lang, "templates"):
        for mname, m in ts.macros(t).items():
            all_macros.setdefault(mname, []).append((t, m))

    def callsite_args(mname, idx):
        out = []
        for t in ts.of_lang(lang, "templates"):
            for c in t.ast.find_all(N.Call):
                if isinstance(c.node, N.Name) and c.node.name == mname and idx < len(c.args):
                    out.append(c.args[idx])
        return out

    def resolve(e, mname, m, depth=0):
        """name expressions a use can stand for: parameters are replaced by what call sites pass (string literals and
        pass-through of the same parameter are skipped), after applying a re-binding `{% set p = g(p) %}` of the parameter"""
        params = [a.name for a in m.args] if m is not None else []
        if isinstance(e, N.Name) and e.name in params and depth < 3:
            rebind = [a.node for a in m.find_all(N.Assign) if isinstance(a.target, N.Name) and a.target.name == e.name]
            outs = []
            for a in callsite_args(mname, params.index(e.name)):
                if isinstance(a, N.Const) or (isinstance(a, N.Name) and a.name == e.name):
                    continue
                base = xs(a)
                if rebind:
                    with j2front.xs_with({e.name: a}):
                        base = xs(rebind[-1])
                outs.append(base)
            return outs
        return [xs(e)]

    for t in ts.of_lang(lang, "templates"):
        for mname, m in list(ts.macros(t).items()):
            streams = []
            for o in m.find_all(N.Output):
                pieces = []
                for d in o.nodes:
                    if isinstance(d, N.TemplateData):
                        pieces.append(d.data)
                    else:
                        pieces.extend(j2text._expand(N, d, j2text.TPath()))
                        # text built inside the arguments of a macro call (e.g. an array bound handed to a nested macro)
                        for sub in d.find_all((N.Filter, N.Add, N.Mod, N.Concat)):
                            if j2text._string_building(N, sub, j2text.TPath()):
                                ex = j2text._expand(N, sub, j2text.TPath())
                                if any(isinstance(x, str) for x in ex) and len(ex) > 1:
                                    streams.append((o, [" "] + ex + [" "]))
                streams.append((o, pieces))
            for o, pieces in streams:
                # <expr> '_' <expr> '_SUFFIX_'
                for i in range(len(pieces) - 3):
                    a, sep, b, suf = pieces[i:i + 4]
                    if isinstance(a, str) or isinstance(b, str) or not isinstance(sep, str) or not isinstance(suf, str):
                        continue
                    ms = re.match(r"^(_[A-Z][A-Z0-9_]*_)(?![A-Za-z0-9_])", suf)
                    if sep != "_" or ms is None:
                        continue
                    before = "".join(x for x in pieces[:i] if isinstance(x, str))
                    line = before[before.rfind("\n") + 1:]
                    is_def = re.search(r"#\s*define\s+$", line) is not None
                    for name_expr in resolve(b, mname, m):
                        occ.append((ms.group(1), re.sub(r"(?<![\w.])[a-z_]\w*(?=\.)", "<v>", name_expr, count=1), is_def, t, mname, o.lineno))
    defs = {}
    for suf, ne, is_def, t, mname, ln in occ:
        if is_def:
            defs.setdefault(suf, set()).add(ne)
    n = 0
    for suf, ne, is_def, t, mname, ln in occ:
        if is_def or suf not in defs:
            continue
        n += 1
        ok = ne in defs[suf]
        ctx.ob(R, t.rel, f"c: use of <T>_<{ne}>{suf} in {mname} names a defined macro", ok,
               "" if ok else f"the macro is #defined with the name expression {sorted(defs[suf])} but used with `{ne}`: for a field whose name is changed "
               "by stropping (e.g. `return`, `register`) the use refers to an identifier that is never defined and the header does not compile", ln)
    ctx.floor(R, n, 1)


def rule_union_dep(ctx, px):
    R = "R-C06-UNION-DEP"
    ctx.rule(
        R,
        "the dependency builder recognises a union wherever a header defines one: behind a delimited wrapper "
        "(inner_type) and inside a service (request_type / response_type) - the same case split that "
        "_extract_data_types applies to services",
    )
    f = px.func("nunavut._dependencies", "DependencyBuilder._build_dependency_list")
    # the statement that sets uses_union and its condition
    cond = None
    for st, gd in pyfront.walk_guarded(f.node.body):
        if isinstance(st, ast.Assign) and ast.unparse(st.targets[0]).endswith(".uses_union"):
            cond = [e for e, p in pyfront.guard_terms(gd) if p]
    if cond is None:
        raise AnalysisError("anchor missing: uses_union assignment in _build_dependency_list")
    text = " ".join(cond)
    # follow one helper call
    for c in ast.walk(ast.parse(text, mode="eval")) if text else []:
        if isinstance(c, ast.Call) and isinstance(c.func, ast.Attribute):
            h = f.cls.methods.get(c.func.attr) if f.cls else None
            if h is not None:
                text += " " + ast.unparse(h.node)
    for what, why in (("inner_type", "a non-sealed union is a DelimitedType wrapping the union"),
                      ("ServiceType", "a service header defines its request and response types")):
        ok = what in text
        ctx.ob(R, f.module.rel, f"{f.short} :: union detection looks at {what}", ok,
               "" if ok else f"{why}; without this the C++17 header lacks <variant> (and C may lack <stdint.h> for the tag)", f.node.lineno)


def rule_deprecated_self_use(ctx, ts):
    R = "R-C06-DEPRECATED-SELF"
    ctx.rule(
        R,
        "a C++ template that marks the generated struct [[deprecated]] must not use that struct in the same header "
        "outside the struct without suppressing -Wdeprecated-declarations (the header would warn about itself under "
        "the project's strict warning set)",
    )
    N = ts.nodes
    t = ts.get("cpp", "_composite_type.j2")
    marks = False
    for node, stack in j2front.walk(t.ast):
        if isinstance(node, N.TemplateData) and "[[deprecated" in node.data:
            marks = True
    if not marks:
        ctx.ob(R, t.rel, "struct is not marked [[deprecated]]", True, "")
        return
    text = "".join(n.data for n in t.ast.find_all(N.TemplateData))
    uses_outside = re.search(r"(inline|static)[^;{]*\b(serialize|deserialize)\s*\(", text) is not None
    suppressed = "diagnostic ignored \"-Wdeprecated-declarations\"" in text or "-Wdeprecated-declarations" in text
    ok = (not uses_outside) or suppressed
    ctx.ob(R, t.rel, "free serialize()/deserialize() of a [[deprecated]] struct", ok,
           "" if ok else "the header defines serialize(const T&, ...) / deserialize(T&, ...) for the struct it has just marked [[deprecated]] with no "
           "diagnostic suppression: `@deprecated uint8 x` fails with -Werror=deprecated-declarations against itself")


def rule_include_monotone(ctx, px):
    R = "R-C06-INCLUDE-MONOTONE"
    ctx.rule(
        R,
        "in get_includes of C and C++ the decision to add a standard header depends on the dependency flags only "
        "positively: a header needed for one feature of a type is never dropped because the type also uses another "
        "feature (no `elif` / negated dep_types.* flag on the path to an append)",
    )
    n = 0
    for modname in ("nunavut.lang.c", "nunavut.lang.cpp"):
        f = px.func(modname, "Language.get_includes")
        for what, terms, ln in _include_table(f):
            n += 1
            neg = [e for e, p in terms if not p and "dep_types." in e]
            ctx.ob(R, f.module.rel, f"{f.short} :: include {what}", not neg,
                   "" if not neg else f"added only when NOT ({' / '.join(neg)}): a type that uses both features loses {what} and its header "
                   "does not compile on its own", ln)
    ctx.floor(R, n, 8)


RV_FORMAT = re.compile(r"^\s*[-+(]*\s*(%[0-9]*[dioxXufeEgG]|[0-9])")


def _lvalue_class(N, e, env, depth=0):
    """'lv' | 'rv' | '?' for a Jinja expression used as a C operand"""
    if depth > 6:
        return "?"
    if isinstance(e, N.Const):
        if isinstance(e.value, (int, float)):
            return "rv"
        if isinstance(e.value, str):
            if RV_FORMAT.match(e.value):
                return "rv"
            if re.match(r"^[A-Za-z_]", e.value):
                return "lv"
        return "?"
    if isinstance(e, N.Filter):
        if e.name == "to_template_unique_name":
            return "lv"
        if e.name == "format" and e.node is not None:
            c = _lvalue_class(N, e.node, env, depth + 1)
            if c == "lv" and isinstance(e.node, N.Const) and e.node.value.startswith("%s") and e.args:
                return _lvalue_class(N, e.args[0], env, depth + 1)
            return c
        if e.name in ("literal", "int", "string", "abs", "length", "bits2bytes_ceil", "constant_value"):
            return "rv"
        if e.name in ("trim", "id") and e.node is not None:
            return _lvalue_class(N, e.node, env, depth + 1) if e.name == "trim" else "lv"
        return "?"
    if isinstance(e, (N.Add, N.Concat)):
        first = e.left if isinstance(e, N.Add) else e.nodes[0]
        return _lvalue_class(N, first, env, depth + 1)
    if isinstance(e, N.Name):
        vals = env.get(e.name)
        if not vals:
            return "?"
        cs = {_lvalue_class(N, v, env, depth + 1) for v in vals}
        if cs == {"lv"}:
            return "lv"
        if "rv" in cs:
            return "rv"
        return "?"
    if isinstance(e, N.CondExpr):
        cs = {_lvalue_class(N, e.expr1, env, depth + 1), _lvalue_class(N, e.expr2, env, depth + 1) if e.expr2 is not None else "?"}
        return "rv" if "rv" in cs else ("lv" if cs == {"lv"} else "?")
    return "?"


def rule_address_of(ctx, ts):
    R = "R-C06-ADDRESS-OF"
    ctx.rule(
        R,
        "where a C/C++ template takes the address of a macro parameter (`&{{ p }}` on some path, e.g. the memmove fast "
        "paths), every call site passes something lvalue-shaped for it (a variable name / member reference), never a "
        "literal such as '%dUL'|format(n)",
    )
    N = ts.nodes
    n = 0
    for lang in ("c", "cpp"):
        orc = j2front.GuardOracle(ts, lang)
        for t in ts.of_lang(lang, "templates"):
            for mname, m in ts.macros(t).items():
                params = [a.name for a in m.args]
                # parameters (or locals aliasing them via {% set v = p %}) whose address is taken
                alias = {p: {p} for p in params}
                for a in m.find_all(N.Assign):
                    if isinstance(a.target, N.Name) and isinstance(a.node, N.Name) and a.node.name in params:
                        alias[a.node.name].add(a.target.name)
                addr = set()
                for o in m.find_all(N.Output):
                    for i, e in enumerate(o.nodes):
                        if i > 0 and isinstance(o.nodes[i - 1], N.TemplateData) and re.search(r"(^|[\s(,])&$", o.nodes[i - 1].data) and isinstance(e, N.Name):
                            for p, al in alias.items():
                                if e.name in al:
                                    addr.add(p)
                for p in sorted(addr):
                    idx = params.index(p)
                    hosts = {id(h): h for h, _ in orc.call_sites.get((t.name, mname), [])}
                    for host in hosts.values():
                        for c in host.ast.find_all(N.Call):
                            nm = c.node.name if isinstance(c.node, N.Name) else (c.node.attr if isinstance(c.node, N.Getattr) else None)
                            if nm != mname or idx >= len(c.args):
                                continue
                            arg = c.args[idx]
                            # environment: {% set %} bindings of the enclosing macro in the host template
                            env = {}
                            for hm in ts.macros(host).values():
                                if any(x is c for x in hm.find_all(N.Call)):
                                    for a in hm.find_all(N.Assign):
                                        if isinstance(a.target, N.Name):
                                            env.setdefault(a.target.name, []).append(a.node)
                            cls = _lvalue_class(N, arg, env)
                            n += 1
                            ctx.ob(R, host.rel, f"{mname}(.. {p}={xs(arg)[:60]} ..)", cls != "rv",
                                   ("lvalue-shaped" if cls == "lv" else "not a literal") if cls != "rv" else
                                   f"`{mname}` takes the address of `{p}` on one of its paths (e.g. the little-endian memmove fast path) but this "
                                   "call passes a literal: the generated code contains `&<literal>` and does not compile under that option", c.lineno)
    ctx.floor(R, n, 6)


BOL, NOTBOL, UNK = "bol", "notbol", "unknown"
DIRECTIVE = re.compile(r"#[ \t]*(ifdef|ifndef|if|elif|else|endif|define|undef|include|error|pragma)\b")


def _text_effect(states, text, report):
    """advance the line-start state over a static text chunk; report(directive, pos_state) for each directive"""
    for m in DIRECTIVE.finditer(text):
        before = text[:m.start()]
        if "\n" in before:
            line = before.rsplit("\n", 1)[1]
            if line.strip(" \t") != "":
                # something precedes the '#' on its line inside this very chunk: token pasting / stringification use '#'
                # inside macro bodies, so only flag when the preceding char is a closing brace or semicolon
                if line.rstrip()[-1:] in ("}", ";", ")"):
                    report(m.group(0), {NOTBOL}, m.start())
            continue
        if before.strip(" \t") != "":
            if before.rstrip()[-1:] in ("}", ";", ")"):
                report(m.group(0), {NOTBOL}, m.start())
            continue
        report(m.group(0), set(states), m.start())
    if "\n" in text:
        tail = text.rsplit("\n", 1)[1]
        return {BOL} if tail.strip(" \t") == "" else {NOTBOL}
    if text.strip(" \t") == "":
        return set(states)
    return {NOTBOL}


def _flow(N, body, states, report):
    for node in body:
        if isinstance(node, N.Output):
            for e in node.nodes:
                if isinstance(e, N.TemplateData):
                    states = _text_effect(states, e.data, report)
                else:
                    states = {UNK}
        elif isinstance(node, N.If):
            outs = set()
            outs |= _flow(N, node.body, set(states), report)
            for el in node.elif_:
                outs |= _flow(N, el.body, set(states), report)
            if node.else_:
                outs |= _flow(N, node.else_, set(states), report)
            else:
                outs |= set(states)
            states = outs
        elif isinstance(node, N.For):
            s1 = _flow(N, node.body, set(states), lambda *a: None)
            s2 = _flow(N, node.body, set(states) | s1, report)
            states = set(states) | s1 | s2
            if node.else_:
                states |= _flow(N, node.else_, set(states), report)
        elif isinstance(node, N.Macro):
            _flow(N, node.body, {UNK}, report)
        elif isinstance(node, (N.AssignBlock,)):
            _flow(N, node.body, {UNK}, report)
        elif isinstance(node, (N.CallBlock, N.FilterBlock)):
            _flow(N, node.body, {UNK}, report)
            states = {UNK}
        elif isinstance(node, N.Block):
            states = _flow(N, node.body, states, report)
            if not node.body:
                states = {UNK}  # filled in by a child template
        elif isinstance(node, (N.Include,)):
            states = {UNK}
        # Assign / Import / FromImport / ExprStmt / Extends emit nothing
    return states


def rule_directive_bol(ctx, ts):
    R = "R-C06-DIRECTIVE-BOL"
    ctx.rule(
        R,
        "every C/C++ preprocessor directive a template emits starts its line on every template path: following the "
        "text the lexer leaves after whitespace control (`-%}` / `{%-`), no path may reach a `#directive` directly "
        "after non-blank static text (e.g. `}#ifdef`)",
    )
    N = ts.nodes
    n = 0
    for lang in ("c", "cpp"):
        for t in ts.of_lang(lang):
            found = []

            def report(d, st, pos, _f=found):
                _f.append((d, st))

            _flow(N, t.ast.body, {BOL}, report)
            for i, (d, st) in enumerate(found):
                n += 1
                ok = NOTBOL not in st
                if not ok:
                    ctx.ob(R, t.rel, f"directive `{d}` (#{i + 1} in template order)", False,
                           "on some template path this directive is glued to the preceding token (whitespace control stripped the newline "
                           "and the block in between can be empty): the generated header does not compile")
            ok_all = all(NOTBOL not in st for _, st in found)
            if found and ok_all:
                ctx.ob(R, t.rel, f"{len(found)} chunk-leading directives start their line on every path", True, "")
    ctx.floor(R, n, 8)


def rule_pairing(ctx, ts):
    R = "R-C06-PAIRING"
    ctx.rule(
        R,
        "include guard #ifndef / #define / #endif use one expression; extern \"C\" { ... } and open_namespace / "
        "close_namespace are paired with the same argument and sit at the same guard depth",
    )
    N = ts.nodes
    for lang in ("c", "cpp"):
        base = ts.get(lang, "base.j2")
        seq = []  # (kind, expr-string, facts)
        for node, stack in j2front.walk(base.ast):
            if isinstance(node, N.Output):
                parts = node.nodes
                for i, p in enumerate(parts):
                    if isinstance(p, N.TemplateData):
                        for m in re.finditer(r"#(ifndef|define|endif)\b([^\n]*)$", p.data, flags=re.M):
                            tail = m.group(2).strip()
                            # expression(s) following on the same line (until next newline in later data)
                            expr = []
                            if m.end() == len(p.data) or p.data[m.end():].strip() == "":
                                j = i + 1
                                while j < len(parts):
                                    q = parts[j]
                                    if isinstance(q, N.TemplateData):
                                        if "\n" in q.data:
                                            expr.append(q.data.split("\n")[0])
                                            break
                                        expr.append(q.data)
                                    else:
                                        expr.append("{" + xs(q) + "}")
                                    j += 1
                            seq.append((m.group(1), (tail + "".join(expr)).replace("//", "").strip(), tuple(j2front.facts(stack))))
        guards = [s for s in seq if s[0] in ("ifndef", "define") and ("INCLUDED" in s[1] or "include_guard" in s[1])]
        ends = [s for s in seq if s[0] == "endif" and ("INCLUDED" in s[1] or "include_guard" in s[1])]
        ok = len(guards) == 2 and len(ends) == 1 and guards[0][1] == guards[1][1] and ends[0][1].strip() == guards[0][1] \
            and guards[0][2] == guards[1][2] == ends[0][2] == ()
        ctx.ob(R, base.rel, f"{lang}: include guard uses one expression, unconditionally", ok,
               "" if ok else f"guard lines: {[(k, e) for k, e, _ in guards + ends]}")
    # extern "C"
    cb = ts.get("c", "base.j2")
    text = "".join(n.data for n in cb.ast.find_all(N.TemplateData))
    opens = len(re.findall(r'extern\s+"C"\s*\{', text))
    closes = len(re.findall(r"#ifdef __cplusplus\s*\n\}\s*\n#endif", text))
    ctx.ob(R, cb.rel, 'c: extern "C" { is closed under the same #ifdef __cplusplus', opens == 1 and closes == 1, f"opens={opens} closes={closes}")
    # block position: contents between open and close
    order = [m.start() for m in re.finditer(r'extern\s+"C"\s*\{', text)] + [m.start() for m in re.finditer(r"#ifdef __cplusplus\s*\n\}", text)]
    blk = [n for n in cb.ast.find_all(N.Block) if n.name == "contents"]
    ctx.ob(R, cb.rel, "c: the contents block exists exactly once", len(blk) == 1, "")
    # namespaces (C++)
    pb = ts.get("cpp", "base.j2")
    opens = [(xs(n.node), tuple(j2front.facts(s))) for n, s in j2front.walk(pb.ast) if isinstance(n, N.Filter) and n.name == "open_namespace"]
    closes = [(xs(n.node), tuple(j2front.facts(s))) for n, s in j2front.walk(pb.ast) if isinstance(n, N.Filter) and n.name == "close_namespace"]
    ok = len(opens) == 1 and opens == closes
    ctx.ob(R, pb.rel, "cpp: open_namespace / close_namespace applied to the same expression under the same guards", ok,
           "" if ok else f"open={opens} close={closes}")


def rule_partial_filters(ctx, ts, px):
    R = "R-C06-PARTIAL"
    ctx.rule(
        R,
        "a filter that fails on an empty sequence (its body takes max()/min() of the input without a default) is evaluated by the "
        "built-in templates only where the sequence is known to be non-empty: inside a loop over that sequence (or over a part of "
        "it), or under a test of it - an empty message, an empty service request or a padding-only type must still generate; "
        "assignments are evaluated where they stand, not where their variable is used",
    )
    N = ts.nodes
    # partial filters, found from their bodies
    partial = {}
    for m in px.modules.values():
        if not m.name.startswith("nunavut.lang.") and m.name != "nunavut.jinja":
            continue
        for name, f in m.funcs.items():
            if not name.startswith("filter_"):
                continue
            params = [a.arg for a in f.node.args.args]
            pm = pyfront.parent_map(f.node)

            def per_element(n_):
                """inside a comprehension / loop: evaluated once per element of something, not on the bare input"""
                cur = n_
                while id(cur) in pm:
                    par = pm[id(cur)]
                    if isinstance(par, (ast.ListComp, ast.SetComp, ast.DictComp, ast.GeneratorExp)) and cur is not par.generators[0].iter:
                        return True
                    if isinstance(par, (ast.For, ast.While)) and cur is not getattr(par, "iter", None):
                        return True
                    cur = par
                return False

            for c in ast.walk(f.node):
                if isinstance(c, ast.Call) and isinstance(c.func, ast.Name) and c.func.id in ("max", "min") and len(c.args) == 1 \
                        and not any(k.arg == "default" for k in c.keywords) and not per_element(c):
                    a = c.args[0]
                    if isinstance(a, (ast.GeneratorExp, ast.ListComp, ast.Call, ast.Name)) and any(isinstance(x, ast.Name) and x.id in params for x in ast.walk(a)):
                        seq_params = {x.id for x in ast.walk(a) if isinstance(x, ast.Name) and x.id in params}
                        guarded = [e for e, _p in pyfront.guard_terms(pyfront.guards_of(f.node, c) or ()) if any(re.search(rf"\b{sp}\b", e) for sp in seq_params)]
                        if not guarded:
                            partial[name[len("filter_"):]] = (m, f)
    ctx.unit("filters_failing_on_empty_input", sorted(partial))
    n = 0
    for t in ts.templates:
        for node, stack in j2front.walk(t.ast):
            if not (isinstance(node, N.Filter) and node.name in partial and node.node is not None):
                continue
            n += 1
            inner = node.node
            while isinstance(inner, N.Filter) and inner.node is not None:
                inner = inner.node          # x | map('first') | f : the sequence is x
            operand = xs(inner)

            def nonempty_here(operand, stack):
                base = operand.rsplit(".", 1)[0] if "." in operand else operand
                for g in stack:
                    if g.kind == "for":
                        it = xs(g.node.iter)
                        # a loop over the sequence itself or over a part of it (fields_except_padding of the same object) runs only if it is non-empty
                        if it == operand or (it.startswith(base + ".") and "fields" in it and "fields" in operand):
                            return True
                    elif g.kind in ("if", "condexpr") and g.pol is not False:
                        if operand in xs(g.node):
                            return True
                return False
            ok = nonempty_here(operand, stack)
            mac = j2front.enclosing_macro(stack)
            if not ok and mac is not None and isinstance(inner, N.Name) and inner.name in [a_.name for a_ in mac.args]:
                # the sequence is a parameter of a helper macro: judged at every call of the macro, for the argument it is given
                k_ = [a_.name for a_ in mac.args].index(inner.name)
                sites = []
                for t2 in ts.of_lang(t.lang, t.kind):
                    for n2, st2 in j2front.walk(t2.ast):
                        if isinstance(n2, N.Call) and isinstance(n2.node, N.Name) and n2.node.name == mac.name and len(n2.args) > k_:
                            sites.append((xs(n2.args[k_]), st2))
                ok = bool(sites) and all(nonempty_here(a_, st2) for a_, st2 in sites)
            ctx.ob(R, t.rel, f"{operand} | {node.name} @ {j2front.construct_path(stack)}", ok,
                   "" if ok else f"`{node.name}` raises on an empty sequence and `{operand}` can be empty here (a type without fields): generation fails for a valid definition",
                   getattr(node, "lineno", None))
    if partial:
        ctx.floor(R, n, 1)


def rule_allocator_kinds(ctx, px):
    R = "R-C06-ALLOCATOR"
    ctx.rule(
        R,
        "C++: the member kinds that are handed an allocator in constructor initializers are exactly the kinds whose declared type "
        "takes one - variable-length arrays and composites; a fixed-length array is declared std::array / std::bitset and a primitive "
        "is a scalar: `member{allocator}` does not compile for them (decided against the installed pydsdl class hierarchy)",
    )
    import pydsdl
    m = px.module("nunavut.lang.cpp")
    f = m.funcs.get("needs_allocator")
    if f is None:
        raise AnalysisError("anchor missing: nunavut.lang.cpp.needs_allocator")
    names = set()
    for c in ast.walk(f.node):
        if isinstance(c, ast.Call) and isinstance(c.func, ast.Name) and c.func.id == "isinstance" and len(c.args) == 2:
            k = c.args[1]
            if isinstance(k, ast.Name):
                for st in m.tree.body:      # a module-level tuple of classes
                    if isinstance(st, (ast.Assign, ast.AnnAssign)) and st.value is not None and \
                            any(isinstance(t_, ast.Name) and t_.id == k.id for t_ in (st.targets if isinstance(st, ast.Assign) else [st.target])):
                        k = st.value
            for e in (k.elts if isinstance(k, ast.Tuple) else [k]):
                names.add(ast.unparse(e).split(".")[-1])
    classes = {nm: getattr(pydsdl, nm, None) for nm in names}
    unknown = [nm for nm, c_ in classes.items() if c_ is None]
    no_alloc = [pydsdl.FixedLengthArrayType, pydsdl.PrimitiveType]
    bad = sorted(nm for nm, c_ in classes.items() if c_ is not None and any(issubclass(k, c_) for k in no_alloc))
    ok = bool(names) and not bad and not unknown
    ctx.ob(R, m.rel, f"{f.short} :: admits no kind that is declared as std::array / std::bitset / scalar", ok,
           "" if ok else f"admits {bad or unknown}: fixed-length array members are initialised as `member{{allocator}}`, which std::array and std::bitset do not accept "
           "(allocator-aware constructor conventions: c++17-pmr, cetl++14-17)", f.node.lineno)
    need = [pydsdl.VariableLengthArrayType, pydsdl.CompositeType]
    missing = [k.__name__ for k in need if not any(c_ is not None and issubclass(k, c_) for c_ in classes.values())]
    ctx.ob(R, m.rel, f"{f.short} :: admits variable-length arrays and composites", not missing, "" if not missing else f"{missing} members get no allocator", f.node.lineno)
    g = m.funcs.get("needs_vla_init_args")
    if g is not None:
        src = ast.unparse(g.node)
        ok = "VariableLengthArrayType" in src and "FixedLengthArrayType" not in src and "pydsdl.ArrayType" not in src
        ctx.ob(R, m.rel, f"{g.short} :: capacity arguments only for variable-length arrays", ok, "", g.node.lineno)


def rule_py_imports(ctx, px):
    R = "R-C06-PY-IMPORTS"
    ctx.rule(
        R,
        "Python: the import list of a generated module covers every composite the class body names by full reference - the data type of "
        "each composite attribute and the element type of each array of composites, over the attributes of the type itself or, for a "
        "service, of its request and of its response; every namespace found is imported (no filter but de-duplication)",
    )
    m = px.module("nunavut.lang.py")
    f = m.funcs.get("filter_imports")
    if f is None:
        raise AnalysisError("anchor missing: nunavut.lang.py.filter_imports")
    tparam = f.node.args.args[1].arg
    src = ast.unparse(f.node)
    # the work may be split over private module-level helpers (one that picks the attributes, a generator of the dependencies): all of
    # them are read
    unit = [f]
    for g_ in unit:
        for c_ in ast.walk(g_.node):
            if isinstance(c_, ast.Call) and isinstance(c_.func, ast.Name) and c_.func.id in m.funcs and c_.func.id.startswith("_") and m.funcs[c_.func.id] not in unit and len(unit) < 6:
                unit.append(m.funcs[c_.func.id])
    # (a) the attribute list
    svc = None
    for g_ in unit:
        for p_ in [a_.arg for a_ in g_.node.args.args]:
            for st, gd in pyfront.walk_guarded(g_.node.body):
                if isinstance(st, (ast.Assign, ast.Return)) and st.value is not None and any(e == f"isinstance({p_}, pydsdl.ServiceType)" and pl for e, pl in pyfront.guard_terms(gd)):
                    svc = re.sub(rf"\b{re.escape(p_)}\b", tparam, ast.unparse(st.value)).replace(" ", "")
            if svc is None:
                # ... or as a conditional expression
                for n_ in ast.walk(g_.node):
                    if isinstance(n_, ast.IfExp) and ast.unparse(n_.test) == f"isinstance({p_}, pydsdl.ServiceType)":
                        svc = re.sub(rf"\b{re.escape(p_)}\b", tparam, ast.unparse(n_.body)).replace(" ", "")
                    elif isinstance(n_, ast.IfExp) and ast.unparse(n_.test) == f"not isinstance({p_}, pydsdl.ServiceType)":
                        svc = re.sub(rf"\b{re.escape(p_)}\b", tparam, ast.unparse(n_.orelse)).replace(" ", "")
    ok = svc is not None and f"{tparam}.request_type.attributes" in svc and f"{tparam}.response_type.attributes" in svc and "+" in svc
    ctx.ob(R, m.rel, f"{f.short} :: a service contributes the attributes of its request and of its response", ok, f"{svc}", f.node.lineno)
    # (b) (c) the two extractions
    direct = elems = False
    for g_ in unit:
        helpers = {n.name: n for n in ast.walk(g_.node) if isinstance(n, ast.FunctionDef) and n is not g_.node}
        for n in ast.walk(g_.node):
            if isinstance(n, (ast.ListComp, ast.GeneratorExp, ast.SetComp)) and len(n.generators) == 1 and isinstance(n.generators[0].target, ast.Name):
                v = n.generators[0].target.id
                elt = ast.unparse(n.elt)
                conds = " and ".join(ast.unparse(c) for c in n.generators[0].ifs)
                # a loop over the attributes' data types (`for dt in [x.data_type for x in attributes]`): dt stands for x.data_type
                src_it = pyfront.subst_locals(g_.node, n.generators[0].iter)
                if isinstance(src_it, (ast.ListComp, ast.GeneratorExp)) and len(src_it.generators) == 1 and isinstance(src_it.generators[0].target, ast.Name) \
                        and not src_it.generators[0].ifs and ast.unparse(src_it.elt) == f"{src_it.generators[0].target.id}.data_type":
                    elt = re.sub(rf"\b{re.escape(v)}\b", f"{v}.data_type", elt)
                    conds = re.sub(rf"\b{re.escape(v)}\b", f"{v}.data_type", conds)
                for hn, h in helpers.items():     # a local predicate spelled out
                    if f"{hn}({v}.data_type)" in conds and h.args.args:
                        hp = h.args.args[0].arg
                        body = " ".join(ast.unparse(r.value) for r in ast.walk(h) if isinstance(r, ast.Return) and r.value is not None)
                        conds = conds.replace(f"{hn}({v}.data_type)", "(" + body.replace(hp, f"{v}.data_type") + ")")
                if elt == f"{v}.data_type" and f"isinstance({v}.data_type, pydsdl.CompositeType)" in conds:
                    direct = True
                if elt == f"{v}.data_type.element_type" and f"isinstance({v}.data_type, pydsdl.ArrayType)" in conds and \
                        f"isinstance({v}.data_type.element_type, pydsdl.CompositeType)" in conds:
                    elems = True
    ctx.ob(R, m.rel, f"{f.short} :: the data type of every composite attribute is a dependency", direct, "", f.node.lineno)
    ctx.ob(R, m.rel, f"{f.short} :: the element type of every array of composites is a dependency", elems,
           "" if elems else "a module that has a field `Foo.1.0[<=N] x` of another namespace refers to `ns.Foo_1_0` without importing `ns`", f.node.lineno)
    # (d) nothing is dropped on the way to the result
    loops = [n for n in ast.walk(f.node) if isinstance(n, ast.For)]
    skips = [x for lp in loops for x in ast.walk(lp) if isinstance(x, (ast.Continue, ast.Break))]
    appends = []
    for lp in loops:
        if not isinstance(lp.target, ast.Name):
            continue
        lv = lp.target.id
        for c in ast.walk(lp):
            if isinstance(c, ast.Call) and isinstance(c.func, ast.Attribute) and c.func.attr in ("append", "add") and len(c.args) == 1:
                a = ast.unparse(pyfront.subst_locals(f.node, c.args[0]))
                if a == f"{lv}.full_namespace":
                    appends.append(pyfront.guard_terms(pyfront.guards_of(f.node, c) or ()))
    # ... or de-duplicated in one step: list(dict.fromkeys(<every dependency's full_namespace>))
    for c in ast.walk(f.node):
        if isinstance(c, ast.Call) and ast.unparse(c.func) == "dict.fromkeys" and len(c.args) == 1 and isinstance(c.args[0], (ast.GeneratorExp, ast.ListComp)) \
                and len(c.args[0].generators) == 1 and not c.args[0].generators[0].ifs and isinstance(c.args[0].generators[0].target, ast.Name) \
                and ast.unparse(c.args[0].elt) == f"{c.args[0].generators[0].target.id}.full_namespace":
            appends.append([])
    only_dedup = all(all((" not in " in e and p) or (" in " in e and not p) for e, p in t) for t in appends)
    ctx.ob(R, m.rel, f"{f.short} :: every namespace found is listed (de-duplication is the only filter)", bool(appends) and only_dedup and not skips,
           "" if bool(appends) and only_dedup and not skips else f"append guards {appends}, skips {len(skips)}", f.node.lineno)


C_KEYWORDS = set("if else for while do return break continue sizeof const static volatile unsigned signed struct union enum typedef void goto switch case "
                 "default inline extern register auto restrict".split())
C_TYPE_WORD = re.compile(r"^(?:Pz\d+z|\w+_t|bool|int|char|float|double|long|short|unsigned|signed|size_t)$")
C_DECL = re.compile(r"^(?:(?:const|static|volatile)\s+)*((?:Pz\d+z|\w+_t|bool|int|char|float|double|size_t|unsigned(?:\s+\w+)?))"
                    r"(?:\s*\*+\s*(?:const\s+)?|\s+(?:const\s+)?)([A-Za-z_]\w*)\s*(=[^=].*|\[.*)?$", re.S)


def _c_undeclared(text, params):
    """identifiers of a rendered C function body that are used before (or without) a declaration on this path.  Statement-level scan:
    comments, string literals and preprocessor lines are dropped; a statement `<type> [*] name [= ...]` declares; member names, called
    names, macros in capitals, type words, placeholders of template expressions and the support library's names are not locals."""
    text = re.sub(r"(?m)^\s*#.*$", "", text)
    text = re.sub(r"//[^\n]*", "", text)
    text = re.sub(r"/\*.*?\*/", "", text, flags=re.S)
    text = re.sub(r'"(?:\\.|[^"\\])*"', '""', text)
    text = re.sub(r"%%|%[-+ #0]*\d*[a-zA-Z]", " ", text)
    declared, out = set(), []
    for m in re.finditer(r"[^;{}]+", text):
        st = m.group(0)
        d = C_DECL.match(st.strip())
        declname = d.group(2) if d else None
        for u in re.finditer(r"(?<![\w.])([A-Za-z_]\w*)\b(?!\s*\()", st):
            name = u.group(1)
            pre = st[:u.start()].rstrip()
            if name in C_KEYWORDS or C_TYPE_WORD.match(name) or re.match(r"^[A-Z][A-Z0-9_]*$", name) or name.startswith("nunavut") or re.match(r"^Pz\d+z", name) \
                    or name in ("true", "false", "NULL", "U", "UL", "ULL", "L", "LL", "F", "f") or pre.endswith(".") or pre.endswith("->"):
                continue
            if name == declname and not re.search(rf"\b{re.escape(name)}\b", pre):
                continue      # the declarator itself
            if name in params or name in declared:
                continue
            out.append(name)
        if declname:
            declared.add(declname)
    return out


def rule_c_scope(ctx, ts):
    R = "R-C06-C-SCOPE"
    ctx.rule(
        R,
        "C: inside the generated <T>_serialize_ / <T>_deserialize_ bodies every local the emitted statements (including asserted "
        "expressions) refer to is declared earlier on the same rendered path: a statement that relies on a local declared in a branch "
        "other paths do not take (the shortcut for empty types, an option switched off) is a header that does not compile for exactly "
        "those inputs",
    )
    from nvsa import j2text
    N = ts.nodes
    defs = ts.get("c", "definitions.j2")
    deftext = "".join(d.data for d in defs.ast.find_all(N.TemplateData))
    n = 0
    for which, top, fn in (("serialization.j2", "serialize", "_serialize_"), ("deserialization.j2", "deserialize", "_deserialize_")):
        t = ts.get("c", which)
        mac = ts.macro(t, top)
        # parameter names of the function this body is placed in (from the signature in definitions.j2)
        sig = re.search(re.escape(fn) + r"\(\s*(.*?)\)\s*\{", deftext, re.S)
        if sig is None:
            raise AnalysisError(f"anchor missing: signature of <T>{fn} in c/templates/definitions.j2")
        params = {re.findall(r"[A-Za-z_]\w*", a)[-1] for a in sig.group(1).split(",") if re.findall(r"[A-Za-z_]\w*", a)}
        for p in j2text.render_paths(N, mac.body, limit=20000, macros=ts.macros(t)):
            n += 1
            text = p.text
            for name, key in p.ph:
                key = key if isinstance(key, str) else xs(key)
                if key.startswith("assert("):
                    text = text.replace(name, "(" + " ".join(re.findall(r"'([^']*)'", key)) + ")")
            und = sorted(set(_c_undeclared(text, params)))
            label = " & ".join(("" if pol else "not ") + c for c, pol in p.conds if "for " not in c)[-110:] or "always"
            ctx.ob(R, t.rel, f"c: {top} [{label}]: every local used is declared on this path", not und,
                   "" if not und else f"{und} used without a declaration on this path (declared only inside a branch this path does not take): the header does not "
                   "compile for the inputs that take it", mac.lineno)
    ctx.floor(R, n, 12)


def rule_py_ctor_agree(ctx, ts):
    R = "R-C06-NAME-AGREE"
    # Python sibling of the rule: the generated class declares one keyword parameter per field of `fields_except_padding` (base.j2) and the
    # generated deserializer calls the constructor with keyword arguments; both enumerations must be the same unfiltered field list and
    # both must spell the keyword `<field> | id` - a padding field has an empty name, so an argument built from any wider list renders
    # `=<value>`, a syntax error in every module whose type has a void field.
    N = ts.nodes
    base = ts.get("py", "base.j2")
    ds = ts.macro(base, "data_schema")
    decl = None
    seen_init = False
    for node in ds.find_all((N.TemplateData, N.For)):
        if isinstance(node, N.TemplateData) and "def __init__(self" in node.data:
            seen_init = True
        elif isinstance(node, N.For) and seen_init and decl is None:
            decl = node
    if decl is None:
        raise AnalysisError("anchor missing: the parameter loop of __init__ in py/templates/base.j2")
    ok = xs(decl.iter).endswith(".fields_except_padding") and decl.test is None
    ctx.ob(R, base.rel, "py: __init__ declares one keyword parameter per field of fields_except_padding", ok, xs(decl.iter), decl.lineno)
    des = ts.get("py", "deserialization.j2")
    dm = ts.macro(des, "deserialize")
    n = 0
    for lp in dm.find_all(N.For):
        outs = [o for o in lp.body if isinstance(o, N.Output)]
        kw = None
        for o in outs:
            for i, e in enumerate(o.nodes[:-1]):
                nxt = o.nodes[i + 1]
                if isinstance(e, N.Filter) and e.name == "id" and isinstance(nxt, N.TemplateData) and nxt.data.startswith("=") and not nxt.data.startswith("=="):
                    kw = e
        if kw is None or any("self = " in d.data for d in lp.find_all(N.TemplateData)):
            continue      # not a keyword-argument list (the union branch builds one call per alternative inside its loop)
        n += 1
        it = xs(lp.iter)
        tv = xs(lp.target)
        ok = it.endswith(".fields_except_padding") and lp.test is None and xs(kw.node) == tv
        ctx.ob(R, des.rel, "py: deserialize passes one keyword argument per field of fields_except_padding (the parameters __init__ declares)", ok,
               "" if ok else f"the argument list is enumerated from `{it}`" + (f" if {xs(lp.test)}" if lp.test is not None else "") + f" with keyword `{xs(kw)}`: "
               "an entry for a padding field renders `=<value>` (its name is empty) and the generated module does not parse; a missing one leaves a required "
               "parameter out", lp.lineno)
    ctx.floor(R + ":py-ctor", n, 1)


def rule_variant_by_index(ctx, ts):
    """DSDL unions may list the same type for several options (`uint8 a` / `uint8 b`).  std::variant's type-indexed interface
    (holds_alternative<T>, get<T>, get_if<T>, emplace<T>) is ill-formed when T occurs more than once, so the generated accessors must
    select alternatives by index - VariantType::IndexOf::<field> / a size_t template parameter - everywhere."""
    R = "R-C06-VARIANT-INDEX"
    ctx.rule(
        R,
        "C++ union templates select alternatives of VariantType by index only: no std::holds_alternative, and the first template "
        "argument of get / get_if / emplace / in_place_index / alternative is an IndexOf:: constant, a literal or a size_t parameter",
    )
    N = ts.nodes
    n = 0
    for t in ts.of_lang("cpp", "templates"):
        if t.name not in ("_composite_type.j2", "_fields_as_variant.j2", "_fields_as_union.j2", "serialization.j2", "deserialization.j2"):
            continue
        # printed expressions are spelled out (a hoisted `{% set index = 'VariantType::IndexOf::' ~ name %}` printed as the argument reads as that)
        binds = {}
        for a_ in t.ast.find_all(N.Assign):
            if isinstance(a_.target, N.Name):
                binds.setdefault(a_.target.name, []).append(a_.node)

        def spell(d):
            if isinstance(d, N.Name) and len(binds.get(d.name, [])) == 1:
                return xs(binds[d.name][0])
            return xs(d)
        text = "".join(d.data if isinstance(d, N.TemplateData) else "{" + spell(d).replace("<", "(").replace(">", ")") + "}" for o in t.ast.find_all(N.Output) for d in o.nodes)
        for m in re.finditer(r"\bholds_alternative\s*<", text):
            n += 1
            ctx.ob(R, t.rel, f"cpp: {t.name}: no type-indexed std::holds_alternative<T>", False,
                   "std::holds_alternative<T> does not compile for a union with two options of the same type (T must occur exactly once); compare index() with IndexOf",
                   None)
        for m in re.finditer(r"\b(?:std::|VariantType::)?(get_if|get|emplace|in_place_index_t|in_place_index)\s*<\s*([^>,]*)", text):
            arg = m.group(2).strip()
            if m.group(1) == "get" and not re.search(r"(std::|VariantType::)get\s*<", m.group(0)):
                continue
            n += 1
            ok = "IndexOf::" in arg or re.fullmatch(r"[A-Z]|\d+U?|Is?|Index|Idx", arg) is not None
            ctx.ob(R, t.rel, f"cpp: {t.name}: {m.group(1)}<{arg[:40]}> selects the alternative by index", ok,
                   "" if ok else "selected by type: ill-formed for a union with two options of the same type", None)
    ctx.floor(R, n, 4)


def run(ctx):
    ctx.explanation = (
        "C06 is decided as exhaustiveness over template paths: every name a built-in template can reference on any "
        "path (filters, tests, uses-queries, free variables via Jinja's own undeclared-variable analysis, imports, "
        "includes, option keys) is resolved against a static model of the environment Nunavut builds for that "
        "language; support-header symbols in type templates must be reachable only under `not nunavut.support.omit` "
        "(interprocedurally over macro call sites and template import sites); guards/namespaces must pair.  Whether "
        "the generated text compiles is a compiler outcome and is not observed."
    )
    ctx.declined = ["'compiles without diagnostics for all inputs' (compiler run per header)",
                    "sufficiency of transitive standard includes beyond the <assert.h>/<stdint.h> obligations listed",
                    "attribute names read from pydsdl objects (T.x): not type-resolved"]
    ts = j2front.TemplateSet(ctx.root)
    px = pyfront.PyIndex(ctx.root)
    reg = registry.Registry(ctx.root, px)
    ctx.unit("templates", len(ts.templates))
    ctx.unit("languages", reg.languages)
    rule_resolve(ctx, ts, reg)
    rule_options(ctx, ts, reg)
    rule_omit_scope(ctx, ts, px)
    rule_variant_by_index(ctx, ts)
    from checks import _lines
    _lines.rule_comment_eol(ctx, ts, "R-C06-COMMENT-EOL", floor=10)
    rule_std_includes(ctx, px)
    rule_omit_std_types(ctx, ts)
    rule_cpp_omit_std(ctx, ts, ctx.root, px)
    rule_unused_param(ctx, ts)
    rule_member_strop(ctx, ts)
    rule_name_agree(ctx, ts)
    from checks import _codec
    _codec.rule_top_empty(ctx, _codec.Codec(ts), "R-C06-EMPTY-TYPE")
    rule_union_dep(ctx, px)
    rule_deprecated_self_use(ctx, ts)
    rule_include_monotone(ctx, px)
    rule_address_of(ctx, ts)
    rule_directive_bol(ctx, ts)
    rule_pairing(ctx, ts)
    rule_partial_filters(ctx, ts, px)
    rule_allocator_kinds(ctx, px)
    rule_py_imports(ctx, px)
    rule_c_scope(ctx, ts)
    rule_py_ctor_agree(ctx, ts)
