"""
C05 - exported size bounds and type metadata are correct for every type.
Static: units (bits vs bytes) of every byte-named quantity, model source of every exported constant with
cross-language agreement, definition/use agreement of metadata identifiers, buffer-too-small refusal.
"""
import re

from checks import _codec
from checks._codec import Codec, squash
from nvsa import j2front, pyfront
from nvsa.j2front import xs
from nvsa.report import AnalysisError

BIT_ATTRS = {"extent", "bit_length", "alignment_requirement"}
BITSET_ATTRS = {"max", "min"}


def unit(N, e, env=None, depth=0):
    """'bits' | 'bytes' | 'count' | '?' for a Jinja expression, from the pydsdl axioms: extent / bit_length /
    bit_length_set.{max,min} are bit counts; capacity is an element count"""
    env = env or {}
    if depth > 8:
        return "?"
    if isinstance(e, N.Getattr):
        if e.attr in BIT_ATTRS:
            return "bits"
        if e.attr in BITSET_ATTRS and isinstance(e.node, N.Getattr) and e.node.attr == "bit_length_set":
            return "bits"
        if e.attr == "capacity":
            return "count"
        return "?"
    if isinstance(e, N.Filter):
        if e.name == "bits2bytes_ceil":
            inner = unit(N, e.node, env, depth + 1)
            return "bytes" if inner in ("bits", "?") else "bytes-of-" + inner
        if e.name in ("int", "abs", "string"):
            return unit(N, e.node, env, depth + 1)
        return "?"
    if isinstance(e, (N.FloorDiv, N.Div)):
        l = unit(N, e.left, env, depth + 1)
        if isinstance(e.right, N.Const) and e.right.value == 8:
            return "bytes" if l == "bits" else ("?" if l == "?" else f"{l}/8")
        return "?"
    if isinstance(e, N.Mul):
        l, r = e.left, e.right
        if isinstance(r, N.Const) and r.value == 8:
            u = unit(N, l, env, depth + 1)
            return "bits" if u == "bytes" else ("?" if u == "?" else f"{u}*8")
        if isinstance(l, N.Const) and l.value == 8:
            u = unit(N, r, env, depth + 1)
            return "bits" if u == "bytes" else ("?" if u == "?" else f"{u}*8")
        return "?"
    if isinstance(e, (N.Add, N.Sub)):
        a, b = unit(N, e.left, env, depth + 1), unit(N, e.right, env, depth + 1)
        if a == b:
            return a
        if "?" in (a, b):
            return a if b == "?" else b
        return f"{a}+{b}"
    if isinstance(e, N.Name):
        if e.name in env:
            return unit(N, env[e.name], env, depth + 1)
        return "?"
    if isinstance(e, N.Const):
        return "?"
    return "?"


def rule_units(ctx, cd):
    R = "R-C05-UNITS"
    ctx.rule(
        R,
        "each exported or internal quantity whose name carries a unit (…_BYTES_, …Bytes, size_bytes, capacity_bytes, "
        "…_bits) receives an expression whose unit - derived from the pydsdl axioms (extent, bit_length, "
        "bit_length_set.max/min are bits; capacity is a count) and the arithmetic (// 8, bits2bytes_ceil, * 8) - matches "
        "the name; bits are never stored under a byte name or vice versa",
    )
    N = cd.N
    n = 0
    for t in cd.ts.templates:
        if t.lang not in ("c", "cpp", "py") or t.kind != "templates":
            continue
        # (1) text `NAME <sep> {{ expr }}` where NAME says bytes/bits
        for o in t.ast.find_all(N.Output):
            parts = o.nodes
            for i, e in enumerate(parts):
                if isinstance(e, N.TemplateData) or i == 0 or not isinstance(parts[i - 1], N.TemplateData):
                    continue
                before = parts[i - 1].data
                m = re.search(r"(\w*(?:BYTES|Bytes|_bytes|BITS|Bits|_bits)\w*)\s*(?:=|\s)\s*(?:\{#.*?#\})?\s*$", before)
                if not m:
                    continue
                name = m.group(1)
                if name in ("offset_bits", "capacity_bits") or name.startswith("typename"):
                    continue
                want = "bytes" if re.search(r"BYTES|Bytes|_bytes", name) else "bits"
                got = unit(N, e)
                if got == "?":
                    continue
                n += 1
                ok = got == want
                ctx.ob(R, t.rel, f"{name} <- {xs(e)}", ok, f"{got}" if ok else
                       f"`{name}` is a {want} quantity but receives {got}: the exported bound is off by a factor of eight", o.lineno)
        # (2) {% set x_bytes = expr %}
        for a in t.ast.find_all(N.Assign):
            if isinstance(a.target, N.Name) and re.search(r"bytes|bits", a.target.name) and not a.target.name.startswith("ref_"):
                got = unit(N, a.node)
                if got == "?":
                    continue
                n += 1
                want = "bytes" if "bytes" in a.target.name else "bits"
                ok = got == want
                ctx.ob(R, t.rel, f"set {a.target.name} = {xs(a.node)}", ok, got if ok else f"{want} name, {got} value", a.lineno)
        # (3) memmove/memset byte counts: last argument
        for o in t.ast.find_all(N.Output):
            exprs = [e for e in o.nodes if not isinstance(e, N.TemplateData)]
            txt = ""
            k = 0
            for e in o.nodes:
                if isinstance(e, N.TemplateData):
                    txt += e.data
                else:
                    txt += f"\x01{k}\x02"
                    k += 1
            for m in re.finditer(r"\b(memmove|memset|memcpy)\(([^;]*)\);", txt):
                last = m.group(2).rsplit(",", 1)[-1]
                mm = re.search(r"\x01(\d+)\x02", last)
                if not mm:
                    continue
                e = exprs[int(mm.group(1))]
                got = unit(N, e)
                n += 1
                ok = got == "bytes"
                ctx.ob(R, t.rel, f"{m.group(1)} byte count <- {xs(e)}", ok, got if ok else f"a byte count receives {got}", o.lineno)
    ctx.floor(R, n, 8)


def rule_source(ctx, cd):
    R = "R-C05-SOURCE"
    ctx.rule(
        R,
        "every exported constant is taken from the model attribute that defines it, in all three languages: extent <- "
        "<T>.extent // 8, buffer size <- <T>.inner_type.extent // 8, fixed port-ID <- T.fixed_port_id under "
        "T.has_fixed_port_id, full name/version <- full_name / version.major.minor, array capacity <- "
        "<field>.data_type.capacity, union option count <- fields|length, constants <- constant|constant_value",
    )
    N = cd.N

    def following_expr(t, rx):
        """expressions that follow a text match, found on the *rendered* template paths (template variables, string building
        and helper macros expanded) - falls back to the raw output nodes when a body has too many paths to enumerate"""
        from nvsa import j2text
        out = []
        bodies = [m.body for m in cd.ts.macros(t).values()] + [[n for n in t.ast.body if not isinstance(n, N.Macro)]]
        rxp = re.compile(rx.replace(r"\s+$", r"\s+").replace(r"\s*$", r"\s*").replace(" $", " ").rstrip("$") + r"(Pz\d+z)")
        try:
            for body in bodies:
                for p_ in j2text.render_paths(N, body, limit=2048, macros=_codec.macros_visible(cd.ts, t)):
                    for m in rxp.finditer(p_.text):
                        e = p_.xs_of(m.group(1))
                        item = (e, [(c, pol) for c, pol in p_.conds], None)
                        if e is not None and item not in out:
                            out.append(item)
            if out:
                return out
        except AnalysisError:
            out = []
        for node, stack in j2front.walk(t.ast):
            if isinstance(node, N.Output):
                parts = node.nodes
                for i, e in enumerate(parts):
                    if isinstance(e, N.TemplateData) and re.search(rx, e.data):
                        # first expression after the match within this output
                        m = list(re.finditer(rx, e.data))[-1]
                        if e.data[m.end():].strip() in ("", "=", "= ") or True:
                            for q in parts[i + 1:]:
                                if not isinstance(q, N.TemplateData):
                                    out.append((xs(q), j2front.facts(stack), node.lineno))
                                    break
        return out

    def loopvar_norm(t, s):
        """replace the loop variables of a template by <each:last attribute of what they iterate> (names are not significant)"""
        for f in t.ast.find_all(N.For):
            it = xs(f.iter)
            tag = "<each:" + re.sub(r"\(.*$", "", it).split(".")[-1].strip("() ") + ">"
            for x in ([f.target] if isinstance(f.target, N.Name) else list(f.target.find_all(N.Name))):
                s = re.sub(rf"(?<![\w.]){re.escape(x.name)}(?![\w])", tag, s)
        return s

    def root_norm(s):
        return re.sub(r"\b(composite_type|type|t|T)\b", "<T>", s)

    table = {
        "extent": {"c": ("definitions.j2", r"_EXTENT_BYTES_\s+$"), "cpp": ("_composite_type.j2", r"ExtentBytes\s*=\s*$"), "py": ("base.j2", r"_EXTENT_BYTES_ = $")},
        "buffer size": {"c": ("definitions.j2", r"_SERIALIZATION_BUFFER_SIZE_BYTES_ $"), "cpp": ("_composite_type.j2", r"SerializationBufferSizeBytes = \s*$")},
        "fixed port-ID": {"c": ("base.j2", r"_FIXED_PORT_ID_\s+$"), "cpp": ("_composite_type.j2", r"FixedPortId = $"), "py": ("base.j2", r"_FIXED_PORT_ID_ = $")},
    }
    want = {"extent": "(<T>.extent // 8)", "buffer size": "(<T>.inner_type.extent // 8)", "fixed port-ID": "<T>.fixed_port_id"}
    for what, per in table.items():
        for lang, (fname, rx) in per.items():
            t = cd.ts.get(lang, fname)
            found = following_expr(t, rx)
            if not found:
                raise AnalysisError(f"anchor missing: {what} definition in {t.rel}")
            e, facts, ln = found[0]
            got = root_norm(e).replace("(<T>.fixed_port_id | int)", "<T>.fixed_port_id")
            ok = got == want[what]
            ctx.ob(R, t.rel, f"{lang}: {what} <- {e}", ok, "" if ok else f"expected {want[what]}: the exported value is not the model's", ln)
            if what == "fixed port-ID":
                okg = ("T.has_fixed_port_id", True) in facts
                ctx.ob(R, t.rel, f"{lang}: fixed port-ID only under T.has_fixed_port_id", okg, f"{facts}", ln)
    # names / versions
    for lang, fname in (("c", "definitions.j2"),):
        t = cd.ts.get(lang, fname)
        m = cd.ts.macro(t, "generate_metadata")
        from nvsa import j2text
        from checks._codec import unplaceholder
        ok = False
        for p_ in j2text.render_paths(N, m.body, macros=cd.ts.macros(t)):
            txt = unplaceholder(p_, p_.text)
            if re.search(r'_FULL_NAME_ "\{t\.full_name\}"', txt) and re.search(r'_FULL_NAME_AND_VERSION_ "\{t\.full_name\}\.\{t\.version\.major\}\.\{t\.version\.minor\}"', txt):
                ok = True
        ctx.ob(R, t.rel, "c: _FULL_NAME_ / _FULL_NAME_AND_VERSION_ <- t.full_name, t.version.major.minor", ok, "", m.lineno)
    # array capacity and union option count (C)
    t = cd.ts.get("c", "definitions.j2")
    g = cd.ts.macro(t, "generate_composite")
    caps = following_expr(t, r"_ARRAY_CAPACITY_\s+$")
    capn = [loopvar_norm(t, e) for e, _, _ in caps]
    ok = bool(caps) and all(re.fullmatch(r"<each:\w*fields\w*>\.data_type\.capacity", e) for e in capn if "ARRAY" not in e) \
        and any(re.fullmatch(r"<each:\w*fields\w*>\.data_type\.capacity", e) for e in capn)
    ctx.ob(R, t.rel, "c: <T>_<f>_ARRAY_CAPACITY_ <- f.data_type.capacity", ok, f"{[e for e, _, _ in caps]}"[:120])
    cnt = following_expr(t, r"_UNION_OPTION_COUNT_ $")
    ok = bool(cnt) and cnt[0][0] == "(t.fields | length)"
    ctx.ob(R, t.rel, "c: _UNION_OPTION_COUNT_ <- t.fields | length", ok, f"{[e for e, _, _ in cnt]}")
    # C++: both union flavours export the option count as VariantType::MAX_INDEX
    for fname in ("_fields_as_union.j2", "_fields_as_variant.j2"):
        t = cd.ts.get("cpp", fname)
        found = []
        for nodes, mapping in _codec.bodies_in_caller_terms(cd.ts, t):
            for top in nodes:
                for o in ([top] if isinstance(top, N.Output) else []) + list(top.find_all(N.Output)):
                    for i, e in enumerate(o.nodes):
                        if isinstance(e, N.TemplateData) and re.search(r"\bMAX_INDEX\s*=\s*$", e.data) and i + 1 < len(o.nodes):
                            nxt = o.nodes[i + 2].data if i + 2 < len(o.nodes) and isinstance(o.nodes[i + 2], N.TemplateData) else ""
                            with j2front.xs_with(mapping or None):
                                found.append((xs(o.nodes[i + 1]), nxt.lstrip()[:2], o.lineno))
                        elif isinstance(e, N.TemplateData) and re.search(r"\bMAX_INDEX\s*=\s*[^;\s]", e.data):
                            found.append((re.search(r"\bMAX_INDEX\s*=\s*([^;]*)", e.data).group(1), "", o.lineno))
        ok = bool(found) and all(e in ("(composite_type.fields_except_padding | length)", "(composite_type.fields | length)") and re.match(r"U?;", tail) for e, tail, _ in found)
        ctx.ob(R, t.rel, f"cpp: {fname}: VariantType::MAX_INDEX <- the number of options", ok,
               f"MAX_INDEX = {[e + tail for e, tail, _ in found]}: the exported option count differs from the DSDL count (and from what C and the other flavour export)" if found else
               "anchor: no `MAX_INDEX = ` found", found[0][2] if found else None)
    # constants
    for lang, fname in (("c", "definitions.j2"), ("cpp", "_composite_type.j2")):
        t = cd.ts.get(lang, fname)
        consts = [xs(f) for f in t.ast.find_all(N.Filter) if f.name == "constant_value"]
        ok = consts and all(loopvar_norm(t, c) == "(<each:constants> | constant_value)" for c in consts)
        ctx.ob(R, t.rel, f"{lang}: constants rendered through constant | constant_value", bool(ok), f"{consts}")
        loops = [f for f in t.ast.find_all(N.For) if xs(f.iter).endswith(".constants")]
        ok = bool(loops) and all(l.test is None for l in loops)
        ctx.ob(R, t.rel, f"{lang}: every constant is exported (unfiltered loop)", ok, "")
        _constants_unconditional(ctx, R, cd, t, lang, loops)
    t = cd.ts.get("py", "base.j2")
    m = cd.ts.macro(t, "data_schema")
    loops = [f for f in m.find_all(N.For) if xs(f.iter) == "type.constants"]
    ok = len(loops) == 1 and loops[0].test is None
    ctx.ob(R, t.rel, "py: every constant is exported (unfiltered loop)", ok, "")
    _constants_unconditional(ctx, R, cd, t, "py", loops)
    # what the loop prints for a constant, helper macros that are handed the constant included (their text in the caller's terms)
    spelled, called = [], []
    if loops:
        spelled = [xs(g2) for g2 in loops[0].find_all(N.Getattr)]
        called = [xs(c) for c in loops[0].find_all(N.Call)]
        vis = _codec.macros_visible(cd.ts, t)
        for c in loops[0].find_all(N.Call):
            if isinstance(c.node, N.Name) and c.node.name in vis:
                mac = vis[c.node.name]
                mapping = {a_.name: c.args[i_] for i_, a_ in enumerate(mac.args) if i_ < len(c.args)}
                with j2front.xs_with(mapping or None):
                    for b_ in mac.body:
                        spelled += [xs(g2) for g2 in b_.find_all(N.Getattr)]
                        called += [xs(c2) for c2 in b_.find_all(N.Call)]
    srcs = {loopvar_norm(t, x_) for x_ in spelled if loopvar_norm(t, x_).startswith("<each:constants>.value")}
    ok = srcs >= {"<each:constants>.value.native_value", "<each:constants>.value.native_value.numerator", "<each:constants>.value.native_value.denominator"} \
        and any("as_native_integer" in x_ for x_ in called)
    ctx.ob(R, t.rel, "py: constants come from c.value (bool: native_value, int: as_native_integer(), float: exact numerator/denominator)", ok, f"{sorted(srcs)}")


def _constants_unconditional(ctx, R, cd, t, lang, loops):
    """the loop that exports the constants of a type runs for every type: the only conditions it may sit under are tests of the
    iterated collection itself (`{% if x.constants %}` around a banner).  A test of another object's constants - the top-level
    `T` inside a macro that also renders a service's request and response - silently drops them for the types where the two differ"""
    for node, stack in j2front.walk(t.ast):
        if not any(node is l for l in loops):
            continue
        it = xs(node.iter)
        own = {it, f"({it} | length)", f"(({it} | length) > 0)", f"({it} | length > 0)", f"({it} is defined)"}
        foreign = [(e, p) for e, p in j2front.facts(stack) if e not in own and not (e.startswith("(") and e.strip("()").split(" ")[0] == it)]
        ctx.ob(R, t.rel, f"{lang}: the constants of `{it.rsplit('.', 1)[0]}` are exported whatever else holds", not foreign,
               "" if not foreign else f"the loop over {it} runs only under {foreign}: where that differs from `{it}` itself (a service's request / response "
               "against the service, a nested type against the top-level one) the type loses its constants", node.lineno)


def rule_defuse(ctx, cd):
    R = "R-C05-DEFUSE"
    ctx.rule(
        R,
        "C: every metadata identifier a template uses (<T>…_EXTENT_BYTES_, …_ARRAY_CAPACITY_, …_UNION_OPTION_COUNT_, "
        "…_serialize_, …_deserialize_, …_initialize_, …) is defined by a template with the same suffix; nothing refers to "
        "a macro or function that no template emits",
    )
    N = cd.N
    defined, used = {}, {}
    for t in cd.ts.of_lang("c", "templates"):
        for o in t.ast.find_all(N.Output):
            from nvsa import j2text
            pieces = []
            for d in o.nodes:
                if isinstance(d, N.TemplateData):
                    pieces.append(d.data)
                else:   # identifier text built by an expression ('%s_%s_X_' | format(..), a ~ '_X_') counts as template text
                    pieces.extend(x if isinstance(x, str) else "\x01" for x in j2text._expand(N, d, j2text.TPath()))
            s = "".join(pieces)
            s = re.sub(r"//[^\n]*", " ", s)
            for m in re.finditer(r"\x01((?:_\x01)?_[A-Za-z][A-Za-z0-9_]*_)\b", s):
                suf = m.group(1).replace("\x01", "<f>")
                line_start = s.rfind("\n", 0, m.start()) + 1
                line = s[line_start:m.start()]
                after = s[m.end():m.end() + 2]
                is_def = re.match(r"\s*#\s*define\s+$", line) is not None or re.match(r"\s*#\s*ifndef\s+$", line) is not None or \
                    (re.search(r"(static inline|inline)\s+\S+\s+$", squash(s[max(0, m.start() - 120):m.start()]) + " ") is not None and after.lstrip().startswith("("))
                (defined if is_def else used).setdefault(suf, []).append((t.rel, o.lineno))
    ctx.unit("c_metadata_suffixes_defined", sorted(defined))
    n = 0
    for suf, sites in sorted(used.items()):
        core = suf.replace("_<f>", "")
        if not (re.match(r"^_[A-Z][A-Z0-9_]*_$", core) or core in ("_serialize_", "_deserialize_", "_initialize_")) or "INCLUDED" in core:
            continue
        n += 1
        ok = suf in defined
        ctx.ob(R, sites[0][0], f"c: identifier suffix `<T>{suf}` used", ok, f"defined in {defined[suf][0][0]}" if ok else
               "no template defines an identifier with this suffix: generated code refers to something that does not exist", sites[0][1])
    ctx.floor(R, n, 5)


def rule_refuse(ctx, cd):
    R = "R-C05-REFUSE"
    ctx.rule(R, "a buffer smaller than the maximum serialized size is refused: on every path of _serialize_impl (C, C++) the supplied "
                "capacity is compared with <T>.inner_type.bit_length_set.max and the buffer-too-small error is returned before any field is written")
    for lang, rx in (("c", r"if \(\(8U \* \(Pz\d+z\) capacity_bytes\) < (Pz\d+z)UL\) \{ return -NUNAVUT_ERROR_SERIALIZATION_BUFFER_TOO_SMALL; \}"),
                     ("cpp", r"if \(\(static_cast<Pz\d+z>\(capacity_bits\)\) < (Pz\d+z)UL\) \{ return -nunavut::support::Error::SerializationBufferTooSmall; \}")):
        t = cd.tmpl(lang, "ser")
        n = 0
        bad = 0
        for p in cd.paths(lang, "ser", "_serialize_impl"):
            n += 1
            text = cd.text(lang, p)
            m = re.search(rx, text)
            ok = m is not None and p.xs_of(m.group(1)) == "t.inner_type.bit_length_set.max"
            first = _codec.events(text, lang, _codec.macro_placeholders(p))
            first = [e for e in first if e[1] in ("macro", "rawwrite", "call") and not (e[1] == "macro" and e[2] == "assert")]
            ok = ok and (not first or m.start() < first[0][0])
            if not ok:
                bad += 1
        ctx.ob(R, t.rel, f"{lang}: buffer-too-small refusal on all {n} paths of _serialize_impl", bad == 0, "" if bad == 0 else f"{bad} paths write without the refusal")
    # C compiles the refusal out under <T>_DISABLE_SERIALIZATION_BUFFER_CHECK_.  The generated header may define that macro itself
    # only where the user has pre-defined a (smaller) array capacity: in a later branch of the `#ifndef <T>_<f>_ARRAY_CAPACITY_`
    # group.  Decided on the preprocessor structure of every rendered path of the definitions template.
    from nvsa import j2text
    t = cd.ts.get("c", "definitions.j2")
    N = cd.N
    n_def, bad_sites = 0, []
    for mname, mac in cd.ts.macros(t).items():
        try:
            paths = j2text.render_paths(N, mac.body, limit=4096, macros=cd.ts.macros(t))
        except AnalysisError:
            raise AnalysisError(f"{t.rel}:{mname}: too many static text paths to decide the preprocessor structure")
        seen = set()
        for p in paths:
            stack = []
            for ln in p.text.splitlines():
                m = re.match(r"^\s*#\s*(ifndef|ifdef|if|elif|else|endif|define)\b\s*(.*)$", ln)
                if not m:
                    continue
                kind, arg = m.group(1), m.group(2).strip()
                if kind in ("ifndef", "ifdef", "if"):
                    stack.append([kind, arg, 0])
                elif kind in ("elif", "else"):
                    if stack:
                        stack[-1][2] += 1
                elif kind == "endif":
                    if stack:
                        stack.pop()
                elif kind == "define" and re.match(r"^\S*_DISABLE_SERIALIZATION_BUFFER_CHECK_\b", arg):
                    ok = any(k_ == "ifndef" and a_.endswith("_ARRAY_CAPACITY_") and b_ >= 1 for k_, a_, b_ in stack)
                    key = (mname, tuple((k, re.sub(r"Pz\d+z", "<x>", a), b) for k, a, b in stack))
                    if key in seen:
                        continue
                    seen.add(key)
                    n_def += 1
                    where = " > ".join(f"#{k} {re.sub('Pz[0-9]+z', '<x>', a)} [branch {b}]" for k, a, b in stack) or "no conditional"
                    ctx.ob(R, t.rel, f"c: {mname}: the header switches the refusal off only where the user pre-defined the array capacity ({where})", ok,
                           "" if ok else "<T>_DISABLE_SERIALIZATION_BUFFER_CHECK_ is defined outside the `#ifndef <T>_<f>_ARRAY_CAPACITY_ ... #elif` branch: with the "
                           "default capacity the up-front buffer check of <T>_serialize_ is compiled out and an undersized buffer is overrun", mac.lineno)
    ctx.unit("c_refusal_disable_sites", n_def)
    # the C <T>_SERIALIZATION_BUFFER_SIZE_BYTES_ >= bit_length_set.max/8 relation is numerical (pydsdl: inner extent >= max bit length): declined


def _is_min_term(e: str, pol: bool, val: str, ty: str) -> bool:
    """does the branch condition (e, pol) say that `val` is the most negative 64-bit integer?"""
    import ast
    try:
        n = ast.parse(e, mode="eval").body
    except SyntaxError:
        return False
    if not (isinstance(n, ast.Compare) and len(n.ops) == 1):
        return False
    sides = {ast.unparse(n.left).replace(" ", ""), ast.unparse(n.comparators[0]).replace(" ", "")}
    mins = {"-2**63", "-(2**63)", "-9223372036854775808", f"{ty}.inclusive_value_range.min"}
    if val not in sides or not (sides - {val}) & mins:
        return False
    op = n.ops[0]
    if isinstance(op, ast.Eq):
        return pol
    if isinstance(op, ast.NotEq):
        return not pol
    left_is_val = ast.unparse(n.left).replace(" ", "") == val
    if isinstance(op, ast.LtE):
        return pol if left_is_val else False          # val <= min
    if isinstance(op, ast.GtE):
        return pol if not left_is_val else False      # min >= val
    if isinstance(op, ast.Gt):
        return (not pol) if left_is_val else False    # not (val > min)
    if isinstance(op, ast.Lt):
        return (not pol) if not left_is_val else False
    return False


def _through_helper(px, f, call, depth=2):
    """[(call expression, guard terms)]: a call of a private module-level helper with a straight-line / if-only body is replaced by
    what the helper returns (its locals inlined, its parameters bound to the arguments), one entry per return"""
    import ast
    import copy

    from nvsa import pyfront, symstr
    if not (isinstance(call, ast.Call) and isinstance(call.func, ast.Name) and depth > 0):
        return [(call, ())]
    callees = [g for g in px.resolve_call(f, call, by_name_fallback=False) if g.cls is None and g.outer is None and g.module is f.module]
    if len(callees) != 1 or callees[0].node is f.node:
        return [(call, ())]
    g = callees[0]
    body = symstr._simple_body(g)
    params = [a.arg for a in g.node.args.args]
    if body is None or g.node.args.vararg or g.node.args.kwarg or any(isinstance(a, ast.Starred) for a in call.args):
        return [(call, ())]
    env = {}
    dfl = g.node.args.defaults
    for i, dv in enumerate(dfl):
        env[params[len(params) - len(dfl) + i]] = dv
    for name, a in list(zip(params, call.args)) + [(k.arg, k.value) for k in call.keywords if k.arg]:
        env[name] = a
    if not all(p_ in env for p_ in params):
        return [(call, ())]
    out = []
    for st, gd in pyfront.walk_guarded(body):
        if isinstance(st, ast.Return) and st.value is not None:
            conds = []
            for t, pol in gd:
                tb = symstr._Bind(env).visit(copy.deepcopy(pyfront.subst_locals(g.node, t)))
                conds += pyfront.guard_terms([(ast.fix_missing_locations(tb), pol)])
            v = symstr._Bind(env).visit(copy.deepcopy(pyfront.subst_locals(g.node, st.value)))
            ast.fix_missing_locations(v)
            for c2, t2 in _through_helper(px, g, v, depth - 1):
                out.append((c2, tuple(conds) + tuple(t2)))
    return out or [(call, ())]


def rule_literal(ctx, px):
    R = "R-C05-LITERAL"
    ctx.rule(
        R,
        "the literal a DSDL constant is rendered as keeps its value and type in C and C++: booleans by truth value; integers as the "
        "decimal value with U exactly for unsigned types and one L above 16 and a second above 32 bits; the most negative 64-bit value "
        "(whose magnitude fits no signed literal) as (min + 1) - 1; floats as the exact numerator / denominator of the rational, cast "
        "to the storage type; any other type fails; the C++ filters and both constant_value filters delegate to this one with the "
        "constant's own native value and data type",
    )
    import ast

    from nvsa import pyfront, symstr
    cm = px.module("nunavut.lang.c")
    f = cm.funcs.get("filter_literal")
    if f is None:
        raise AnalysisError("anchor missing: nunavut.lang.c.filter_literal")
    params = [a.arg for a in f.node.args.args]
    val, ty = params[1], params[2]
    rets = []
    for path in pyfront.enumerate_paths(f.node.body):
        if path.outcome != "return":
            continue
        r = path.stmts[-1]
        terms = pyfront.guard_terms([(pyfront.subst_locals(f.node, t_) if not isinstance(t_, str) else t_, p_) for t_, p_ in path.conds])
        if any((e == "False" and pol) or (e == "True" and not pol) for e, pol in terms):
            continue      # a branch that is switched off
        kind = next((k for k in ("BooleanType", "IntegerType", "FloatType") if any(e == f"isinstance({ty}, pydsdl.{k})" and pol for e, pol in terms)), None)
        # assignments on the path (the last one wins) resolve locals that are assigned on several branches
        env = {}
        for st in path.stmts:
            if isinstance(st, ast.Assign) and len(st.targets) == 1 and isinstance(st.targets[0], ast.Name):
                env[st.targets[0].id] = symstr._Bind({k: v for k, v in env.items() if k not in params}).visit(__import__("copy").deepcopy(st.value))
            elif isinstance(st, ast.Assign) and len(st.targets) == 1 and isinstance(st.targets[0], ast.Tuple) and isinstance(st.value, ast.Tuple) \
                    and len(st.targets[0].elts) == len(st.value.elts):
                for t_, v_ in zip(st.targets[0].elts, st.value.elts):
                    if isinstance(t_, ast.Name):
                        env[t_.id] = v_
            elif isinstance(st, ast.AugAssign) and isinstance(st.target, ast.Name) and isinstance(st.op, ast.Add) and st.target.id in env:
                env[st.target.id] = ast.BinOp(left=env[st.target.id], op=ast.Add(), right=st.value)     # s += x  on this path
        alts = symstr.sym(px, f, r.value, _bound={k: v for k, v in env.items() if k not in params})
        alts = [(c, p_) for c, p_ in alts if not any((e == "False" and pol) or (e == "True" and not pol) for e, pol in c)]
        rets.append((kind, terms, [symstr.render(p_) for _c, p_ in alts], [c for c, _p in alts], r))
        rets[-1] = rets[-1] + ({k: v for k, v in env.items() if k not in params},)
    kinds = {x[0] for x in rets}
    ok = {"BooleanType", "IntegerType", "FloatType"} <= kinds
    ctx.ob(R, cm.rel, f"{f.short} :: boolean, integer and float types are rendered", ok, f"{sorted(k for k in kinds if k)}", f.node.lineno)
    closed = isinstance(f.node.body[-1], ast.If) and any(isinstance(x, ast.Raise) for x in ast.walk(f.node.body[-1])) or isinstance(f.node.body[-1], ast.Raise)
    ctx.ob(R, cm.rel, f"{f.short} :: any other type fails generation", closed, "", f.node.lineno)
    SUFFIX = f"{{'U' * isinstance({ty}, pydsdl.UnsignedIntegerType)}}{{'L' * ({ty}.bit_length > 16)}}{{'L' * ({ty}.bit_length > 32)}}"
    n_min = 0
    bare_min = []
    for kind, terms, shown, conds, r, env_r in rets:
        if kind == "BooleanType":
            ok = sorted(shown) == sorted(["{language.valuetoken_true}", "{language.valuetoken_false}"]) or \
                shown == [f"{{language.valuetoken_true if {val} else language.valuetoken_false}}"]
            ctx.ob(R, cm.rel, f"{f.short} [bool] :: true / false token by truth value", ok, f"{shown}", r.lineno)
        elif kind == "IntegerType":
            groups = {True: [], False: []}
            for sh, ac in zip(shown, conds):
                groups[any(_is_min_term(e, pol, val, ty) for e, pol in terms + list(ac))].append((sh, ac))
            for is_min in (True, False):
                if not groups[is_min]:
                    continue
                if is_min:
                    n_min += 1
                good, why = True, ""
                for sh, ac in groups[is_min]:
                    facts = terms + list(ac)
                    m = re.fullmatch(r"\(\{" + re.escape(val) + r" \+ 1\}(?P<a>.*) - 1(?P<b>.*)\)", sh) if is_min else re.fullmatch(r"\{" + re.escape(val) + r"\}(?P<a>.*)", sh)
                    if is_min and m is None:
                        # the same spelling without its own parentheses: a binary expression - fine wherever it is printed as a whole
                        # operand (initializer, comparison, assignment), not as the body of an object-like macro (judged below)
                        m = re.fullmatch(r"\{" + re.escape(val) + r" \+ 1\}(?P<a>.*) - 1(?P<b>.*)", sh)
                        if m is not None and m.group("a") != m.group("b"):
                            m = None
                        if m is not None:
                            bare_min.append(r.lineno)
                    if m is None or (is_min and m.group("a") != m.group("b")):
                        good, why = False, f"rendered as {sh}"
                        break
                    sfx = m.group("a")
                    if sfx == SUFFIX:
                        continue
                    if not re.fullmatch(r"[UL]*", sfx):
                        good, why = False, f"suffix `{sfx}` is neither the symbolic table nor a literal"
                        break
                    uns = next((pol for e, pol in facts if e == f"isinstance({ty}, pydsdl.UnsignedIntegerType)"), None)
                    if uns is None:
                        uns = next((not pol for e, pol in facts if e == f"isinstance({ty}, pydsdl.SignedIntegerType)"), None)
                    lo, hi = 0, 10 ** 9        # bit_length in (lo, hi]
                    for e, pol in facts:
                        try:
                            node = ast.parse(e, mode="eval").body
                        except SyntaxError:
                            continue
                        if isinstance(node, ast.Compare) and len(node.ops) == 1:
                            l_, r_ = ast.unparse(node.left), ast.unparse(node.comparators[0])
                            op = type(node.ops[0])
                            if r_ == f"{ty}.bit_length" and l_.isdigit():
                                l_, r_ = r_, l_
                                op = {ast.Lt: ast.Gt, ast.Gt: ast.Lt, ast.LtE: ast.GtE, ast.GtE: ast.LtE}.get(op, op)
                            if l_ == f"{ty}.bit_length" and r_.isdigit():
                                k = int(r_)
                                says = {ast.Gt: ("gt", k), ast.GtE: ("gt", k - 1), ast.LtE: ("le", k), ast.Lt: ("le", k - 1)}.get(op)
                                if says:
                                    if not pol:
                                        says = ("le", says[1]) if says[0] == "gt" else ("gt", says[1])
                                    if says[0] == "gt":
                                        lo = max(lo, says[1])
                                    else:
                                        hi = min(hi, says[1])
                    width = "LL" if lo >= 32 else ("L" if lo >= 16 and hi <= 32 else ("" if hi <= 16 else None))
                    if is_min and width is None and lo < 32:
                        width = None
                    if uns is None or width is None:
                        good, why = False, f"literal suffix `{sfx}` on a path that does not fix signedness / width class ({facts})"
                        break
                    want = ("U" if uns else "") + width
                    if sfx != want:
                        good, why = False, f"suffix `{sfx}` where the type needs `{want}`"
                        break
                label = "[int, most negative 64-bit value] :: spelled (value + 1) - 1 with the type's suffix on both literals" if is_min else \
                    "[int] :: decimal value, U exactly for unsigned, L above 16 bits, LL above 32 bits"
                ctx.ob(R, cm.rel, f"{f.short} {label}", good and bool(groups[is_min]),
                    "" if good else why + ": the literal's type is narrower than the constant, or signedness is lost", r.lineno)
        elif kind == "FloatType":
            # the value handed to the cast: "<numerator>.0" for integral rationals, "(<numerator>.0 / <denominator>.0)" otherwise
            call0 = symstr._Bind(env_r).visit(__import__("copy").deepcopy(r.value)) if env_r else r.value
            good, why = False, f"{shown}"
            expansions = _through_helper(px, f, call0)
            for call, extra_terms in expansions:
              kws = {k.arg: k.value for k in call.keywords} if isinstance(call, ast.Call) else {}
              if not (isinstance(call, ast.Call) and isinstance(call.func, ast.Attribute) and call.func.attr == "format" and "value" in kws and "type" in kws):
                good, why = False, f"{shown}"
                break
              if True:
                ty_ok = ast.unparse(kws["type"]).replace(" ", "") == f"filter_type_from_primitive(language,{ty})"
                exprs = symstr.sym(px, f, kws["value"], _bound=env_r)
                good = ty_ok and bool(exprs)
                for c_, p_ in exprs:
                    sh = symstr.render(p_)
                    facts = terms + list(extra_terms) + list(c_)
                    den1 = (f"{val}.denominator==1", f"1=={val}.denominator")
                    den_not1 = (f"{val}.denominator!=1", f"1!={val}.denominator")
                    whole = any((e.replace(" ", "") in den1 and pol) or (e.replace(" ", "") in den_not1 and not pol) for e, pol in facts)
                    frac = any((e.replace(" ", "") in den1 and not pol) or (e.replace(" ", "") in den_not1 and pol) for e, pol in facts)
                    if whole and sh == f"{{{val}.numerator}}.0":
                        continue
                    if frac and sh == f"({{{val}.numerator}}.0 / {{{val}.denominator}}.0)":
                        continue
                    good, why = False, f"the cast operand is `{sh}` under {facts}"
                    break
                if not ty_ok:
                    why = f"cast to `{ast.unparse(kws['type'])}`"
                if not good:
                    break
            ctx.ob(R, cm.rel, f"{f.short} [float] :: exact numerator (/ denominator) of the rational as double literals, cast to the storage type `{r.lineno}`".replace(f" `{r.lineno}`", ""),
                   good, "" if good else why, r.lineno)
    ctx.ob(R, cm.rel, f"{f.short} [int] :: -2**63 has its own spelling (its magnitude fits no signed literal: the compiler would make it unsigned and positive)", n_min >= 1,
           "" if n_min else "`-9223372036854775808LL` is read as the negation of an unsigned literal: the constant is positive and every use is diagnosed", f.node.lineno)
    # an object-like macro is pasted into arbitrary expressions: its body is one primary expression - the literal's own parentheses or
    # the macro's
    if bare_min:
        from nvsa import j2front as _jf
        ts_ = _jf.TemplateSet(ctx.root)
        N_ = ts_.nodes
        t_ = ts_.get("c", "definitions.j2")
        sites = []
        for o in t_.ast.find_all(N_.Output):
            for i_, e_ in enumerate(o.nodes):
                if isinstance(e_, N_.Filter) and e_.name == "constant_value":
                    before = "".join(x_.data if isinstance(x_, N_.TemplateData) else "\x00" for x_ in o.nodes[:i_])
                    after = o.nodes[i_ + 1].data if i_ + 1 < len(o.nodes) and isinstance(o.nodes[i_ + 1], N_.TemplateData) else ""
                    line = before.rsplit("\n", 1)[-1]
                    if "#define" in line or "# define" in line:
                        sites.append((o.lineno, line.rstrip().endswith("(") and after.lstrip().startswith(")")))
        ok = bool(sites) and all(p_ for _l, p_ in sites)
        ctx.ob(R, t_.rel, "c: the constant's macro body is parenthesised (the literal of the most negative value is a bare `a - b`)", ok,
               "" if ok else "`#define X -9223372036854775807LL - 1LL`: `X / 2`, `-1 - X`, `X * y` bind to the wrong operand", sites[0][0] if sites else None)
    # delegation
    for modname, fname, want in (("nunavut.lang.c", "filter_constant_value", "filter_literal"), ("nunavut.lang.cpp", "filter_constant_value", "c_filter_literal"),
                                 ("nunavut.lang.cpp", "filter_literal", "c_filter_literal")):
        m = px.module(modname)
        g = m.funcs.get(fname)
        if g is None:
            raise AnalysisError(f"anchor missing: {fname} in {modname}")
        gp = [a.arg for a in g.node.args.args]
        rets_g = [r.value for r in ast.walk(g.node) if isinstance(r, ast.Return) and r.value is not None]
        ok = len(rets_g) == 1 and isinstance(rets_g[0], ast.Call) and ast.unparse(rets_g[0].func) == want
        if ok:
            args = [ast.unparse(a) for a in rets_g[0].args]
            if fname == "filter_constant_value":
                c = gp[1]
                ok = args[:3] == [gp[0], f"{c}.value.native_value", f"{c}.data_type"]
            else:
                ok = args[:3] == gp[:3]
        ctx.ob(R, m.rel, f"{g.short} :: delegates to the C literal filter with the constant's own value and type", ok, "", g.node.lineno)


def run(ctx):
    ctx.explanation = (
        "C05 is decided for: the unit (bits/bytes) of every byte- or bit-named quantity in the type templates, inferred "
        "from the pydsdl axioms and the arithmetic of the expression; the model attribute each exported constant is "
        "taken from, with agreement across C, C++ and Python; definition/use agreement of the C metadata identifiers; "
        "the buffer-too-small refusal on every serializer path.  Sufficiency of the bounds for all values and the "
        "rendering of constants of extreme magnitude are value-level and are not decided."
    )
    ctx.declined = ["sufficiency of the advertised buffer size for all values; constant values 'within one ulp' as a numerical claim (the literal's construction is decided)"]
    ts = j2front.TemplateSet(ctx.root)
    cd = Codec(ts)
    rule_units(ctx, cd)
    rule_source(ctx, cd)
    rule_defuse(ctx, cd)
    rule_refuse(ctx, cd)
    rule_literal(ctx, pyfront.PyIndex(ctx.root))
