"""
C11 - types map one-to-one onto files in the output tree; namespace model is a tree.
Static: who-may-construct (a type's relative path), argument provenance at the consumers, who-may-write (tree links,
type->path map), read-through factory, join discipline.  All matching is on AST structure and parameter positions,
never on variable names or source text.
"""
import ast
import typing

from nvsa import pyfront
from nvsa.report import AnalysisError

NS = "nunavut._namespace"
COMMON = "nunavut.lang._common"
LANG = "nunavut.lang._language"


# ---- small structural helpers ----------------------------------------------------------------------------------------
def _params(f) -> typing.List[str]:
    a = f.node.args
    names = [x.arg for x in a.posonlyargs + a.args]
    return [n for n in names if n not in ("self", "cls")]


def _names(e) -> typing.Set[str]:
    return {n.id for n in ast.walk(e) if isinstance(n, ast.Name)}


def _attrs(e) -> typing.Set[str]:
    return {n.attr for n in ast.walk(e) if isinstance(n, ast.Attribute)}


def _calls(node, name: str) -> typing.List[ast.Call]:
    out = []
    for c in ast.walk(node):
        if isinstance(c, ast.Call):
            f = c.func
            if (isinstance(f, ast.Attribute) and f.attr == name) or (isinstance(f, ast.Name) and f.id == name):
                out.append(c)
    return out


def _arg(c: ast.Call, pos: int, kw: str):
    if len(c.args) > pos:
        return c.args[pos]
    for k in c.keywords:
        if k.arg == kw:
            return k.value
    return None


def _is_path_flavour(c: ast.Call) -> bool:
    vals = list(c.args) + [k.value for k in c.keywords]
    return any(isinstance(v, ast.Constant) and v.value == "path" for v in vals)


def _assignments(fnode) -> typing.Dict[str, typing.List[ast.AST]]:
    out: typing.Dict[str, typing.List[ast.AST]] = {}
    for n in ast.walk(fnode):
        if isinstance(n, ast.Assign):
            for t in n.targets:
                for x in ast.walk(t):
                    if isinstance(x, ast.Name):
                        out.setdefault(x.id, []).append(n.value)
        elif isinstance(n, (ast.AnnAssign, ast.AugAssign)) and n.value is not None and isinstance(n.target, ast.Name):
            out.setdefault(n.target.id, []).append(n.value)
        elif isinstance(n, (ast.For, ast.comprehension)):
            for x in ast.walk(n.target):
                if isinstance(x, ast.Name):
                    out.setdefault(x.id, []).append(n.iter)
    return out


def _closure(fnode, exprs: typing.Iterable[ast.AST]) -> typing.List[ast.AST]:
    """the expressions a value is computed from, through local assignments (flow-insensitive)"""
    asg = _assignments(fnode)
    seen: typing.Set[str] = set()
    out: typing.List[ast.AST] = []
    work = list(exprs)
    while work:
        e = work.pop()
        out.append(e)
        for n in _names(e):
            if n not in seen:
                seen.add(n)
                work.extend(asg.get(n, []))
    return out


def _returns(fnode) -> typing.List[ast.AST]:
    return [r.value for r in ast.walk(fnode) if isinstance(r, ast.Return) and r.value is not None]


def _fstring_chain(e) -> typing.Optional[typing.List[str]]:
    """f'{x.a}_{x.b.c}' -> ['a', '_', 'b.c'] (attribute chains without the root name)"""
    if not isinstance(e, ast.JoinedStr):
        return None
    out = []
    for v in e.values:
        if isinstance(v, ast.Constant):
            out.append(str(v.value))
        elif isinstance(v, ast.FormattedValue):
            chain = []
            x = v.value
            while isinstance(x, ast.Attribute):
                chain.append(x.attr)
                x = x.value
            out.append(".".join(reversed(chain)))
    return out


STEM_FORMAT = ["short_name", "_", "version.major", "_", "version.minor"]


def _unwrap_cast(e):
    while isinstance(e, ast.Call) and isinstance(e.func, (ast.Attribute, ast.Name)) and \
            (getattr(e.func, "attr", None) == "cast" or getattr(e.func, "id", None) in ("cast", "list", "tuple")) and e.args:
        e = e.args[-1]
    return e


def _is_ns_split(e, dt: str) -> bool:
    e = _unwrap_cast(e)
    return isinstance(e, ast.Call) and isinstance(e.func, ast.Attribute) and e.func.attr == "split" and \
        isinstance(e.func.value, ast.Attribute) and e.func.value.attr == "full_namespace" and dt in _names(e.func.value) and \
        len(e.args) == 1 and isinstance(e.args[0], ast.Constant) and e.args[0].value == "."


# ---- rules -------------------------------------------------------------------------------------------------------------
def rule_one_path(ctx, px):
    R = "R-C11-ONE-PATH"
    ctx.rule(
        R,
        "the relative path of a type is built in exactly one function (IncludeGenerator.make_path) from the stropped "
        "namespace components, the stropped <ShortName>_<major>_<minor> stem and the extension it is given; the output "
        "map, the include lists and find_output_path_for_type obtain it from there, passing the type and an extension "
        "that resolves to the same configuration key; lookups answer from the stored map or raise",
    )
    mp = px.func(COMMON, "IncludeGenerator.make_path")
    # 1. the 'path' flavour of identifiers is requested only by the path constructors
    users = []
    for f in px.all_funcs:
        for name in ("filter_short_reference_name", "filter_id", "filter_id_for_target"):
            for c in _calls(f.node, name):
                if _is_path_flavour(c):
                    users.append((f, c))
    allowed = {"IncludeGenerator.make_path", "IncludeGenerator._make_ns_list", "Namespace.__init__"}
    for f, c in users:
        ok = f.short in allowed
        ctx.ob(R, f.module.rel, f"{f.short} :: builds a path component via {getattr(c.func, 'attr', getattr(c.func, 'id', '?'))}(.., 'path')", ok,
               "" if ok else "a second place constructs path components of types: generated file and include path can diverge", c.lineno)
    ctx.floor(R + ":path-users", len(users), 3)

    # 2. make_path: the returned path is computed from ns-list(dt), short-reference-name(dt, 'path') and with_suffix(extension)
    ps = _params(mp)
    if len(ps) < 3:
        raise AnalysisError("anchor changed: IncludeGenerator.make_path(dt, language, output_extension)")
    dt, lang, ext = ps[0], ps[1], ps[2]
    cl = _closure(mp.node, _returns(mp.node))
    cl = cl + [pyfront.subst_locals(mp.node, r) for r in _returns(mp.node)]    # hoisted locals are the same expressions
    ns_calls = [c for e in cl for c in _calls(e, "_make_ns_list")]
    ok = bool(ns_calls) and all(dt in set().union(*[_names(a) for a in c.args] or [set()]) and lang in set().union(*[_names(a) for a in c.args] or [set()]) for c in ns_calls)
    ctx.ob(R, mp.module.rel, f"{mp.short} :: directories = _make_ns_list(language, <the type>)", ok,
           "" if ok else "the returned path is not built from the namespace list of the type it was asked about", mp.node.lineno)
    sr = [c for e in cl for c in _calls(e, "filter_short_reference_name")]
    ok = bool(sr) and all(_is_path_flavour(c) and c.args and isinstance(c.args[0], ast.Name) and c.args[0].id == dt for c in sr)
    ctx.ob(R, mp.module.rel, f"{mp.short} :: file stem = language.filter_short_reference_name(<the type>, 'path')", ok,
           "" if ok else "the stem is not the path-stropped short reference name of the type", mp.node.lineno)
    ws = [c for e in cl for c in _calls(e, "with_suffix")]
    ext_sources = _closure(mp.node, [c.args[0] for c in ws if c.args])
    ok = bool(ws) and all(c.args and ext in _names(c.args[0]) for c in ws) and \
        all(isinstance(e, (ast.Name, ast.Constant, ast.IfExp, ast.Attribute)) or _names(e) <= {ext, lang} for e in ext_sources)
    ctx.ob(R, mp.module.rel, f"{mp.short} :: suffix = the extension argument (language default only when none is given)", ok,
           "" if ok else "the suffix does not come from the extension the caller passed", mp.node.lineno)
    # ns list and stem are joined, stem last
    joins = [e for e in cl if isinstance(e, ast.BinOp) and isinstance(e.op, ast.Div)]
    ok = any(_calls(j.left, "_make_ns_list") and _calls(j.right, "with_suffix") for j in joins)
    ctx.ob(R, mp.module.rel, f"{mp.short} :: <namespace components> / <stem>.with_suffix(extension)", ok, "", mp.node.lineno)
    fallback = [_fstring_chain(e) for e in cl if isinstance(e, ast.JoinedStr)]
    for fs in fallback:
        ctx.ob(R, mp.module.rel, f"{mp.short} :: language-less stem is <ShortName>_<major>_<minor>", fs == STEM_FORMAT, f"{fs}", mp.node.lineno)

    nl = px.func(COMMON, "IncludeGenerator._make_ns_list")
    nps = _params(nl)
    ndt = nps[1] if len(nps) > 1 else "dt"
    rets = _returns(nl.node)
    okr = []
    for r in rets:
        r = _unwrap_cast(pyfront.subst_locals(nl.node, r))
        if _is_ns_split(r, ndt):
            okr.append(True)
        elif isinstance(r, (ast.ListComp, ast.GeneratorExp)) and len(r.generators) == 1 and _is_ns_split(r.generators[0].iter, ndt) and not r.generators[0].ifs:
            var = r.generators[0].target
            elt = r.elt
            okr.append(isinstance(elt, ast.Call) and isinstance(elt.func, ast.Attribute) and elt.func.attr == "filter_id" and _is_path_flavour(elt)
                       and isinstance(var, ast.Name) and elt.args and isinstance(elt.args[0], ast.Name) and elt.args[0].id == var.id)
        else:
            okr.append(False)
    ok = bool(rets) and all(okr)
    ctx.ob(R, nl.module.rel, f"{nl.short} :: one entry per component of the type's full namespace, each stropped as a path (or verbatim without stropping)", ok,
           "" if ok else "components are dropped, filtered or not stropped with the 'path' flavour", nl.node.lineno)

    sfn = px.func(LANG, "Language.filter_short_reference_name")
    fss = [_fstring_chain(e) for e in ast.walk(sfn.node) if isinstance(e, ast.JoinedStr)]
    fss = [f for f in fss if f and "short_name" in f]
    ok = bool(fss) and all(f == STEM_FORMAT for f in fss)
    ctx.ob(R, sfn.module.rel, f"{sfn.short} :: <ShortName>_<major>_<minor>", ok, f"{fss}", sfn.node.lineno)

    # 3. consumers
    add = px.func(NS, "Namespace._add_data_type")
    aps = _params(add)
    if len(aps) < 2:
        raise AnalysisError("anchor changed: Namespace._add_data_type(type, extension)")
    stores = [n for n in ast.walk(add.node) if isinstance(n, ast.Assign) and any(isinstance(t, ast.Subscript) and "_data_type_to_outputs" in _attrs(t.value) | ({t.value.attr} if isinstance(t.value, ast.Attribute) else set()) for t in n.targets)]
    ok = len(stores) == 1
    detail = "" if ok else f"{len(stores)} stores into the type->path map"
    if ok:
        st = stores[0]
        key = st.targets[0].slice
        v = pyfront.subst_locals(add.node, st.value)
        mk = _calls(v, "make_path")
        ok = isinstance(key, ast.Name) and key.id == aps[0] and isinstance(v, ast.BinOp) and isinstance(v.op, ast.Div) and \
            "_base_output_path" in _attrs(v.left) and len(mk) == 1 and bool(_calls(v.right, "make_path"))
        detail = "" if ok else f"stored value is `{ast.unparse(v)[:120]}`"
        ctx.ob(R, add.module.rel, f"{add.short} :: map[<the type>] = base_output_path / make_path(...)", ok, detail, add.node.lineno)
        if mk:
            a = mk[0].args
            ok = len(a) == 3 and isinstance(a[0], ast.Name) and a[0].id == aps[0] and bool(_calls(a[1], "get_target_language")) and isinstance(a[2], ast.Name) and a[2].id == aps[1]
            ctx.ob(R, add.module.rel, f"{add.short} :: make_path receives the type, the target language and the extension unmodified", ok,
                   f"{[ast.unparse(x) for x in a]}", mk[0].lineno)
    else:
        ctx.ob(R, add.module.rel, f"{add.short} :: map[<the type>] = base_output_path / make_path(...)", False, detail, add.node.lineno)

    gi = px.func(COMMON, "IncludeGenerator.generate_include_filepart_list")
    if gi.cls is not None:
        import copy as _copy
        gi_ = _copy.copy(gi)
        gi_.node = pyfront.inline_value_calls(gi.node, {k_: m_.node for k_, m_ in gi.cls.methods.items()})
        gi = gi_
    gps = _params(gi)
    calls = _calls(gi.node, "make_path")
    ok = len(calls) == 1
    detail = f"{len(calls)} make_path calls"
    if ok:
        c = calls[0]
        pm = pyfront.parent_map(gi.node)
        comp = pm.get(id(c))
        while comp is not None and not isinstance(comp, (ast.ListComp, ast.GeneratorExp, ast.SetComp, ast.For)):
            comp = pm.get(id(comp))
        loop_var, it = None, None
        if isinstance(comp, ast.For):
            loop_var, it = comp.target, comp.iter
        elif comp is not None:
            loop_var, it = comp.generators[0].target, comp.generators[0].iter
        ok = len(c.args) == 3 and isinstance(loop_var, ast.Name) and isinstance(c.args[0], ast.Name) and c.args[0].id == loop_var.id and \
            it is not None and "composite_types" in _attrs(it) | ({it.attr} if isinstance(it, ast.Attribute) else set()) and \
            isinstance(c.args[1], ast.Attribute) and c.args[1].attr == "_language" and isinstance(c.args[2], ast.Name) and c.args[2].id == gps[0]
        detail = f"make_path({', '.join(ast.unparse(x) for x in c.args)}) over `{ast.unparse(it) if it is not None else '?'}`"
    ctx.ob(R, gi.module.rel, f"{gi.short} :: include path of each dependency = make_path(dependency, own language, extension argument)", ok,
           "" if ok else detail, gi.node.lineno)
    fstr = [n for n in ast.walk(gi.node) if isinstance(n, ast.JoinedStr) and any(a in ("short_name", "full_namespace", "full_name") for a in _attrs(n))]
    ctx.ob(R, gi.module.rel, f"{gi.short} :: no ad-hoc formatting of a type's path", not fstr, "", gi.node.lineno)

    # 4. the extension on both sides is the same configuration key
    bt = px.func(NS, "build_namespace_tree")
    adds = _calls(bt.node, "_add_data_type")
    ok = len(adds) == 1 and len(adds[0].args) == 2
    if ok:
        src = _closure(bt.node, [adds[0].args[1]])
        gcv = [c for e in src for c in _calls(e, "get_config_value")]
        ok = bool(gcv) and all("WKCV_DEFINITION_FILE_EXTENSION" in _attrs(c) for c in gcv) and any(_calls(e, "get_target_language") for e in src)
    ctx.ob(R, bt.module.rel, f"{bt.short} :: output extension = target language's WKCV_DEFINITION_FILE_EXTENSION", ok, "", bt.node.lineno)
    ext_prop = px.cls(LANG, "Language").methods["extension"]
    gcv = [c for r in _returns(ext_prop.node) for c in _calls(r, "get_config_value")]
    ok = bool(gcv) and all("WKCV_DEFINITION_FILE_EXTENSION" in _attrs(c) and "_section" in _attrs(c) for c in gcv)
    ctx.ob(R, ext_prop.module.rel, "Language.extension :: WKCV_DEFINITION_FILE_EXTENSION of the language's own section", ok, "", ext_prop.node.lineno)
    for modname in ("nunavut.lang.c", "nunavut.lang.cpp"):
        fi = px.module(modname).funcs["filter_includes"]
        calls = _calls(fi.node, "generate_include_filepart_list")
        ok = len(calls) >= 1 and all(c.args and isinstance(c.args[0], ast.Attribute) and c.args[0].attr == "extension" for c in calls)
        ctx.ob(R, fi.module.rel, f"{fi.short} :: include lists use <language>.extension", ok, "", fi.node.lineno)

    # 5. lookup returns what the map holds
    fo = px.func(NS, "Namespace.find_output_path_for_type")
    p0 = _params(fo)[0]
    bad = []
    kinds = set()
    for r in _returns(fo.node):
        r = pyfront.subst_locals(fo.node, r)      # `own = self._map.get(t); if own is not None: return own`
        if isinstance(r, ast.Attribute) and r.attr == "_output_path" and isinstance(r.value, ast.Name) and r.value.id == p0:
            kinds.add("namespace")
        elif isinstance(r, ast.Call) and isinstance(r.func, ast.Attribute) and r.func.attr == "get" and isinstance(r.func.value, ast.Attribute) \
                and r.func.value.attr == "_data_type_to_outputs" and len(r.args) == 1 and isinstance(r.args[0], ast.Name) and r.args[0].id == p0:
            kinds.add("own-map")
        elif isinstance(r, ast.Subscript) and isinstance(r.value, ast.Attribute) and r.value.attr == "_data_type_to_outputs" and isinstance(r.slice, ast.Name) and r.slice.id == p0:
            kinds.add("own-map")
        elif isinstance(r, ast.Call) and isinstance(r.func, ast.Attribute) and r.func.attr == "_bfs_search_for_output_path" and r.args and \
                isinstance(r.args[0], ast.Name) and r.args[0].id == p0 and bool(_calls(r.func.value, "get_root_namespace")):
            kinds.add("tree")
        else:
            bad.append(ast.unparse(r))
    ok = not bad and {"own-map", "tree"} <= kinds
    ctx.ob(R, fo.module.rel, f"{fo.short} :: answers from the type->path map (own namespace, then the whole tree from the root)", ok,
           f"other answers: {bad}; kinds {sorted(kinds)}", fo.node.lineno)
    bfs = px.func(NS, "Namespace._bfs_search_for_output_path")
    b0 = _params(bfs)[0]
    rets = [pyfront.subst_locals(bfs.node, r) for r in _returns(bfs.node)]      # `p = ns._map.get(t); if p is not None: return p`

    def _stored(r):
        if isinstance(r, ast.Subscript) and isinstance(r.value, ast.Attribute) and r.value.attr == "_data_type_to_outputs" and isinstance(r.slice, ast.Name) and r.slice.id == b0:
            return True
        return isinstance(r, ast.Call) and isinstance(r.func, ast.Attribute) and r.func.attr == "get" and isinstance(r.func.value, ast.Attribute) \
            and r.func.value.attr == "_data_type_to_outputs" and len(r.args) == 1 and isinstance(r.args[0], ast.Name) and r.args[0].id == b0
    ok = bool(rets) and all(_stored(r) for r in rets)
    last = bfs.node.body[-1]
    ok = ok and isinstance(last, ast.Raise)
    ctx.ob(R, bfs.module.rel, f"{bfs.short} :: returns the stored path of the requested type or raises (total or loud)", ok, "", bfs.node.lineno)
    loops = [n for n in ast.walk(bfs.node) if isinstance(n, ast.For) and ("_nested_namespaces" in _attrs(n.iter) or _calls(n.iter, "get_nested_namespaces"))]
    ok = bool(loops)
    if ok:
        lp = loops[0]
        var = lp.target.id if isinstance(lp.target, ast.Name) else None
        enq = [c for c in ast.walk(lp) if isinstance(c, ast.Call) and isinstance(c.func, ast.Attribute) and c.func.attr in ("append", "appendleft")
               and c.args and isinstance(c.args[0], ast.Name) and c.args[0].id == var]
        ok = bool(enq) and not any(isinstance(x, (ast.If, ast.Continue, ast.Break)) for x in ast.walk(lp))
    else:
        ext_calls = [c for c in ast.walk(bfs.node) if isinstance(c, ast.Call) and isinstance(c.func, ast.Attribute) and c.func.attr in ("extend", "extendleft")
                     and c.args and "_nested_namespaces" in _attrs(c.args[0])]
        ok = bool(ext_calls)
        loops = ext_calls
    ctx.ob(R, bfs.module.rel, f"{bfs.short} :: every nested namespace is enqueued", ok, "", bfs.node.lineno)
    if loops:
        g = pyfront.guards_of(bfs.node, loops[0].iter if isinstance(loops[0], ast.For) else loops[0])
        terms = pyfront.guard_terms(g or ())
        skip = _params(bfs)[1] if len(_params(bfs)) > 1 else "skip_namespace"
        def atomic(e):
            try:
                return not isinstance(ast.parse(e, mode="eval").body, ast.BoolOp)
            except SyntaxError:
                return True
        # only a condition that is *implied* on the way to the enqueue counts: `not (a and b)` after an early return implies neither
        ok = not any(skip in e and atomic(e) for e, p in terms)
        ctx.ob(R, bfs.module.rel, f"{bfs.short} :: children of a skipped namespace are still searched", ok, f"{terms}", loops[0].lineno)


def rule_links(ctx, px):
    R = "R-C11-LINKS"
    ctx.rule(
        R,
        "_nested_namespaces and _parent are written only in _add_nested_namespace, together; _data_type_to_outputs only "
        "in _add_data_type; namespaces are created through the read-through factory only (one object per full name); "
        "every ancestor namespace of a type is indexed and linked to its parent; output paths are formed by joining "
        "onto the base output path, with no absolute or '..' literal component",
    )
    m = px.module(NS)
    writers = {"_nested_namespaces": set(), "_parent": set(), "_data_type_to_outputs": set()}
    for f in px.all_funcs:
        for n in ast.walk(f.node):
            tg = []
            if isinstance(n, ast.Assign):
                tg = n.targets
            elif isinstance(n, (ast.AugAssign, ast.AnnAssign)):
                tg = [n.target]
            elif isinstance(n, ast.Delete):
                tg = n.targets
            for t in tg:
                base = t.value if isinstance(t, ast.Subscript) else t
                if isinstance(base, ast.Attribute) and base.attr in writers:
                    writers[base.attr].add(f.short)
            if isinstance(n, ast.Call) and isinstance(n.func, ast.Attribute) and n.func.attr in ("add", "update", "remove", "discard", "clear", "pop", "append", "setdefault", "popitem") \
                    and isinstance(n.func.value, ast.Attribute) and n.func.value.attr in writers:
                writers[n.func.value.attr].add(f.short)
            if isinstance(n, ast.Call) and isinstance(n.func, ast.Name) and n.func.id == "setattr" and len(n.args) >= 2 and isinstance(n.args[1], ast.Constant) and n.args[1].value in writers:
                writers[n.args[1].value].add(f.short)
    exp = {"_nested_namespaces": {"Namespace.__init__", "Namespace._add_nested_namespace"},
           "_parent": {"Namespace.__init__", "Namespace._add_nested_namespace"},
           "_data_type_to_outputs": {"Namespace.__init__", "Namespace._add_data_type"}}
    for attr, ws in writers.items():
        ok = ws <= exp[attr] and (exp[attr] - {"Namespace.__init__"}) <= ws
        ctx.ob(R, m.rel, f"Namespace.{attr} is written only by its owner(s)", ok,
               "" if ok else f"written by {sorted(ws)}, expected {sorted(exp[attr])}: the tree / map can be altered behind the builder's back")
    an = px.func(NS, "Namespace._add_nested_namespace")
    p = _params(an)[0]
    adds = [c for c in ast.walk(an.node) if isinstance(c, ast.Call) and isinstance(c.func, ast.Attribute) and c.func.attr == "add" and
            isinstance(c.func.value, ast.Attribute) and c.func.value.attr == "_nested_namespaces" and c.args and isinstance(c.args[0], ast.Name) and c.args[0].id == p]
    sets = [n for n in ast.walk(an.node) if isinstance(n, ast.Assign) and any(isinstance(t, ast.Attribute) and t.attr == "_parent" and isinstance(t.value, ast.Name) and t.value.id == p for t in n.targets)
            and isinstance(n.value, ast.Name) and n.value.id == "self"]
    cond = [x for x in ast.walk(an.node) if isinstance(x, (ast.If, ast.Return, ast.Try, ast.While)) and x is not an.node]
    ok = len(adds) == 1 and len(sets) == 1 and not cond
    ctx.ob(R, m.rel, f"{an.short} :: child link and parent link are set together, unconditionally", ok, "", an.node.lineno)
    # the factory's table is keyed by raw DSDL namespace names; a Namespace object reports its *stropped* name (full_namespace,
    # short name), so a key taken from a Namespace object misses the entry for every namespace whose name needs stropping and the
    # factory silently makes a second, unlinked object for it
    mod = px.module(NS)
    nsobj_sources = ("get_or_make_namespace", "get_root_namespace", "get_root_namesapce", "get_empty_namespace", "get_parent", "Namespace")
    k_sites = 0
    for fn in [f_ for f_ in px.all_funcs if f_.module is mod and f_.outer is None]:
        ns_vars = set()     # locals holding Namespace objects: results of the factory / of tree navigation, elements of the table
        for n_ in ast.walk(fn.node):
            tgt_val = []
            if isinstance(n_, ast.Assign):
                tgt_val = [(t_, n_.value) for t_ in n_.targets]
            elif isinstance(n_, (ast.For, ast.comprehension)):
                tgt_val = [(n_.target, n_.iter)]
            for t_, v_ in tgt_val:
                vt = ast.unparse(v_)
                from_table = "_namespaces" in vt and (".values()" in vt or "_namespaces[" in vt or ".items()" in vt)
                from_factory = any(isinstance(c_, ast.Call) and (getattr(c_.func, "attr", None) or getattr(c_.func, "id", None)) in nsobj_sources for c_ in ast.walk(v_))
                if from_table or from_factory:
                    for x_ in ast.walk(t_):
                        if isinstance(x_, ast.Name):
                            ns_vars.add(x_.id)
        for c_ in ast.walk(fn.node):
            key = None
            if isinstance(c_, ast.Call) and isinstance(c_.func, ast.Attribute) and c_.func.attr == "get_or_make_namespace" and c_.args:
                key = c_.args[0]
            if key is None:
                continue
            k_sites += 1
            kv = pyfront.subst_locals(fn.node, key)
            bad = [ast.unparse(a_) for a_ in ast.walk(kv) if isinstance(a_, ast.Attribute) and isinstance(a_.value, ast.Name) and a_.value.id in ns_vars
                   and a_.attr in ("full_namespace", "full_name", "short_name", "_full_namespace", "_short_name", "_namespace_components_stropped", "namespace_components")]
            # ... or directly off a call that returns a Namespace
            bad += [ast.unparse(a_) for a_ in ast.walk(kv) if isinstance(a_, ast.Attribute) and a_.attr in ("full_namespace", "full_name", "short_name")
                    and any(isinstance(c2, ast.Call) and (getattr(c2.func, "attr", None) in nsobj_sources) for c2 in ast.walk(a_.value))]
            ctx.ob(R, m.rel, f"{fn.short} :: the namespace table is asked with a raw DSDL name (`{ast.unparse(key)[:50]}`)", not bad,
                   "" if not bad else f"the key is built from {bad}, the stropped name of a Namespace object: for a namespace whose name is reserved in the target language "
                   "(`register` -> `_register`) the lookup misses and a fresh, empty, unlinked namespace is returned - no type is generated, no error raised", c_.lineno)
    ctx.floor(R + ":table-keys", k_sites, 3)
    # factory: read-through cache
    gm = px.func(NS, "_NamespaceFactory.get_or_make_namespace")
    ctor_calls = [c for c in ast.walk(gm.node) if isinstance(c, ast.Call) and isinstance(c.func, ast.Name) and c.func.id == "Namespace"]
    reads = [n for n in ast.walk(gm.node) if isinstance(n, ast.Subscript) and isinstance(n.ctx, ast.Load) and isinstance(n.value, ast.Attribute) and n.value.attr == "_namespaces"]
    gets = [c for c in ast.walk(gm.node) if isinstance(c, ast.Call) and isinstance(c.func, ast.Attribute) and c.func.attr in ("get", "setdefault") and
            isinstance(c.func.value, ast.Attribute) and c.func.value.attr == "_namespaces"]
    stores = [n for n in ast.walk(gm.node) if isinstance(n, ast.Assign) and any(isinstance(t, ast.Subscript) and isinstance(t.value, ast.Attribute) and t.value.attr == "_namespaces" for t in n.targets)]
    ok = len(ctor_calls) == 1 and bool(reads or gets) and (bool(stores) or any(c.func.attr == "setdefault" for c in gets))
    detail = "lookup/store around construction not found"
    if ok and stores and reads:
        k_read = ast.dump(reads[0].slice)
        k_store = ast.dump(stores[0].targets[0].slice)
        ok = k_read == k_store and min(r.lineno for r in reads) < ctor_calls[0].lineno <= stores[0].lineno
        detail = "the cache is read and written under different keys, or not read before construction"
        if ok:
            # the stored object is the constructed one
            sv = stores[0].value
            asg = _assignments(gm.node)
            ok = (isinstance(sv, ast.Call) and sv is ctor_calls[0]) or (isinstance(sv, ast.Name) and any(v is ctor_calls[0] for v in asg.get(sv.id, [])))
            detail = "the object stored in the cache is not the one constructed"
    ctx.ob(R, m.rel, f"{gm.short} :: one Namespace object per full name (lookup before construction, the constructed object stored under the same key)", ok,
           "" if ok else detail, gm.node.lineno)
    ctors = []
    for f in px.all_funcs:
        for c in ast.walk(f.node):
            if isinstance(c, ast.Call) and ((isinstance(c.func, ast.Name) and c.func.id == "Namespace") or
                                            (isinstance(c.func, ast.Attribute) and c.func.attr == "Namespace" and "nunavut" in _names(c.func))):
                ctors.append(f.short)
    ok = set(ctors) <= {"_NamespaceFactory.get_or_make_namespace"} and bool(ctors)
    ctx.ob(R, m.rel, "Namespace(...) constructed only by the factory", ok, f"{sorted(set(ctors))}")
    # build_namespace_tree: every ancestor is indexed and linked to its parent
    bt = px.func(NS, "build_namespace_tree")
    # steps of the builder that were moved into private module-level procedures are judged where they are called
    import copy as _copy
    bt_ = _copy.copy(bt)
    bt_.node = pyfront.inline_procedures(bt.node, {k: v.node for k, v in m.funcs.items()})
    bt = bt_
    _ancestors(ctx, R, m, bt, px)
    _linking(ctx, R, m, bt)
    # join discipline
    init = px.func(NS, "Namespace.__init__")
    ips = _params(init)
    of = [n for n in ast.walk(init.node) if isinstance(n, ast.Assign) and any(isinstance(t, ast.Attribute) and t.attr == "_output_folder" for t in n.targets)]
    ok = len(of) == 1
    if ok:
        divs = [b for b in ast.walk(of[0].value) if isinstance(b, ast.BinOp) and isinstance(b.op, ast.Div)]
        left = divs[0].left if divs else None
        # the base is the constructor's base_output_path parameter, directly or through the attribute it was stored in
        stored = {t.attr for n in ast.walk(init.node) if isinstance(n, ast.Assign) and isinstance(n.value, ast.Name) and n.value.id == ips[2]
                  for t in n.targets if isinstance(t, ast.Attribute) and isinstance(t.value, ast.Name) and t.value.id == "self"}
        base_ok = (isinstance(left, ast.Name) and left.id == ips[2]) or \
            (isinstance(left, ast.Attribute) and isinstance(left.value, ast.Name) and left.value.id == "self" and left.attr in stored)
        ok = len(divs) == 1 and base_ok and "_namespace_components_stropped" in _attrs(divs[0].right)
    ctx.ob(R, m.rel, f"{init.short} :: output folder = base_output_path / stropped namespace components", ok, "", init.node.lineno)
    app = [c for c in ast.walk(init.node) if isinstance(c, ast.Call) and isinstance(c.func, ast.Attribute) and c.func.attr == "append" and
           isinstance(c.func.value, ast.Attribute) and c.func.value.attr == "_namespace_components_stropped"]
    lc = [n.value for n in ast.walk(init.node) if isinstance(n, ast.Assign) and any(isinstance(t, ast.Attribute) and t.attr == "_namespace_components_stropped" for t in n.targets)
          and isinstance(n.value, ast.ListComp)]
    vals = [c.args[0] for c in app if c.args] + [x.elt for x in lc]
    ok = bool(vals) and all(isinstance(v, ast.Call) and isinstance(v.func, ast.Attribute) and v.func.attr in ("filter_id_for_target", "filter_id") and _is_path_flavour(v) for v in vals)
    ctx.ob(R, m.rel, f"{init.short} :: namespace components are stropped as path components", ok, "", init.node.lineno)
    bad = []
    for modname in (NS, COMMON):
        mod = px.module(modname)
        for f in px.all_funcs:
            if f.module is not mod or f.name not in ("make_path", "_make_ns_list", "__init__", "_add_data_type", "build_namespace_tree", "get_or_make_namespace"):
                continue
            doc = ast.get_docstring(f.node, clean=False)
            for n in ast.walk(f.node):
                if isinstance(n, ast.Constant) and isinstance(n.value, str) and n.value != doc:
                    v = n.value
                    if v in ("..", "../", "/..") or (v.startswith("/") and len(v) < 40 and "\n" not in v):
                        bad.append((f.short, v))
    ctx.ob(R, m.rel, "no '..' or absolute literal component in path construction", not bad, "" if not bad else f"{bad}")
    # support files go under the base output path as well
    sg = px.func("nunavut.jinja", "SupportGenerator.generate_all")
    ws = [c for c in _calls(sg.node, "with_suffix") if isinstance(c.func, ast.Attribute)]
    ok2 = bool(ws) and all(isinstance(c.func.value, ast.BinOp) and isinstance(c.func.value.op, ast.Div) and isinstance(c.func.value.right, ast.Attribute)
                           and c.func.value.right.attr == "name" for c in ws)
    roots = _closure(sg.node, [c.func.value.left for c in ws if isinstance(c.func.value, ast.BinOp)])
    ok = any(_calls(r, "get_support_output_folder") for r in roots)
    ctx.ob(R, sg.module.rel, f"{sg.short} :: support files are placed under the support output folder by file name only", ok and ok2, "", sg.node.lineno)
    gs = px.func(NS, "Namespace.get_support_output_folder")
    rets = _returns(gs.node)
    ok = bool(rets) and all(isinstance(r, ast.Attribute) and r.attr == "_base_output_path" for r in rets)
    ctx.ob(R, m.rel, f"{gs.short} :: is the base output path", ok, "", gs.node.lineno)
    # ... and the base output path is the constructor's argument, stored as given - not re-derived from the namespace's own folder
    # (which has no component folders for the empty root namespace of a support-only run)
    nscls = px.cls(NS, "Namespace")
    init_ns = nscls.methods["__init__"]
    base_param = _params(init_ns)[2]
    stored = [n for n in ast.walk(init_ns.node) if isinstance(n, ast.Assign) and any(isinstance(t_, ast.Attribute) and t_.attr == "_base_output_path" for t_ in n.targets)]
    ok = len(stored) == 1 and isinstance(stored[0].value, ast.Name) and stored[0].value.id == base_param and "_base_output_path" not in nscls.methods
    ctx.ob(R, m.rel, "Namespace._base_output_path :: the constructor's base_output_path, stored as given", ok,
           "" if ok else "the base path is computed (property / expression) instead of stored: for a namespace whose folder equals the base - the empty root of "
           "`--generate-support only` - the derived value lies outside the output directory", init_ns.node.lineno)
    # traversal: generators yield own entries and recurse into every nested namespace, unconditionally
    # found by role: what the three public enumerations `yield from` (possibly one shared, parametrised walker)
    ns_cls = px.cls(NS, "Namespace")
    for pub in ("get_all_datatypes", "get_all_namespaces", "get_all_types"):
        pf = ns_cls.methods.get(pub)
        if pf is None:
            raise AnalysisError(f"anchor missing: Namespace.{pub}")
        # the walker the enumeration is built on: `yield from <walker>(...)` (it yields the entries itself) or
        # `for ns in <walker>(...): yield ...` (it yields the namespaces, the enumeration picks the entries)
        deleg = [(n.value, None) for n in ast.walk(pf.node) if isinstance(n, ast.YieldFrom) and isinstance(n.value, ast.Call)
                 and isinstance(n.value.func, ast.Attribute) and n.value.func.attr in ns_cls.methods and n.value.func.attr.startswith("_")]
        deleg += [(n.iter, n) for n in ast.walk(pf.node) if isinstance(n, ast.For) and isinstance(n.iter, ast.Call) and isinstance(n.iter.func, ast.Attribute)
                  and n.iter.func.attr in ns_cls.methods and n.iter.func.attr.startswith("_")]
        if len(deleg) != 1:
            raise AnalysisError(f"anchor missing: the generator Namespace.{pub} delegates to")
        call, over = deleg[0]
        g = ns_cls.methods[call.func.attr]
        # a walker that only hands over to a shared, parametrised one (`return cls._walk(ns, with_types=True, ...)`) is that one,
        # called with those arguments
        for _hop in range(2):
            body_ = [st_ for st_ in g.node.body if not (isinstance(st_, ast.Expr) and isinstance(st_.value, ast.Constant))]
            v_ = body_[0].value if len(body_) == 1 and isinstance(body_[0], (ast.Return, ast.Expr)) else None
            if isinstance(v_, ast.YieldFrom):
                v_ = v_.value
            if isinstance(v_, ast.Call) and isinstance(v_.func, ast.Attribute) and v_.func.attr in ns_cls.methods and v_.func.attr != g.name and over is None:
                g, call = ns_cls.methods[v_.func.attr], v_
            else:
                break
        rec = [n for n in ast.walk(g.node) if isinstance(n, ast.YieldFrom) and isinstance(n.value, ast.Call) and getattr(n.value.func, "attr", "") == g.name]
        ok = bool(rec)
        if ok:
            pm = pyfront.parent_map(g.node)
            lp = pm.get(id(rec[0]))
            while lp is not None and not isinstance(lp, ast.For):
                lp = pm.get(id(lp))
            ok = isinstance(lp, ast.For) and (bool(_calls(lp.iter, "get_nested_namespaces")) or "_nested_namespaces" in _attrs(lp.iter)) and \
                not any(isinstance(x, (ast.If, ast.Continue, ast.Break)) for x in ast.walk(lp)) and not pyfront.guard_terms(pyfront.guards_of(g.node, rec[0]) or ())
            # the recursion descends into the child: it is the receiver or the first argument of the recursive call
            if ok and isinstance(lp.target, ast.Name):
                rc = rec[0].value
                ok = (isinstance(rc.func.value, ast.Name) and rc.func.value.id == lp.target.id) or (bool(rc.args) and ast.unparse(rc.args[0]) == lp.target.id)
        ctx.ob(R, m.rel, f"Namespace.{pub} :: its generator recurses into every nested namespace, unconditionally", ok, f"generator {g.short}", g.node.lineno)
        if over is None:
            # what the walker yields for this enumeration: own entries switched by constant flags of the public method only
            _own_entries(ctx, R, m, pub, pf, g, call)
        else:
            _own_entries_by_loop(ctx, R, m, pub, pf, g, over)


def _own_entries_by_loop(ctx, R, m, pub, pf, g, over):
    """the walker yields every namespace it visits (itself first, unconditionally); the enumeration's loop over it yields, unconditionally,
    the nested types of each visited namespace and / or the namespace itself"""
    params = [a.arg for a in g.node.args.args]
    selfish = {params[0]} | ({params[1]} if len(params) > 1 and params[0] == "cls" else set())
    yields_self = any(isinstance(st, ast.Expr) and isinstance(st.value, ast.Yield) and isinstance(st.value.value, ast.Name) and st.value.value.id in selfish
                      for st in g.node.body)
    want = {"get_all_datatypes": ["types"], "get_all_namespaces": ["namespace"], "get_all_types": ["types", "namespace"]}[pub]
    v = over.target.id if isinstance(over.target, ast.Name) else "?"
    have = set()
    for st in over.body:     # top level of the loop body only: unconditional
        txt = ast.unparse(st)
        if isinstance(st, ast.Expr) and isinstance(st.value, ast.YieldFrom) and txt.replace(" ", "") in (f"yieldfrom{v}.get_nested_types()", f"yieldfrom{v}._data_type_to_outputs.items()"):
            have.add("types")
        if isinstance(st, ast.For) and ast.unparse(st.iter) in (f"{v}.get_nested_types()", f"{v}._data_type_to_outputs.items()") and any(isinstance(y, ast.Yield) for y in ast.walk(st)) \
                and not any(isinstance(x, (ast.If, ast.Continue, ast.Break)) for x in ast.walk(st)):
            have.add("types")
        if isinstance(st, ast.Expr) and isinstance(st.value, ast.Yield) and ast.unparse(st.value.value).replace(" ", "") in (f"({v},{v}._output_path)", f"{v},{v}._output_path"):
            have.add("namespace")
    ok = yields_self and set(want) <= have
    ctx.ob(R, m.rel, f"Namespace.{pub} :: yields {' and '.join(want)} of every visited namespace", ok,
           "" if ok else (f"the walker {g.short} does not yield every namespace it visits" if not yields_self else f"the loop over the walker yields only {sorted(have)}"),
           pf.node.lineno)


def _own_entries(ctx, R, m, pub, pf, g, call=None):
    """get_all_datatypes / get_all_types yield every nested type of every visited namespace, get_all_namespaces / get_all_types the namespace itself:
    in the walker each such yield is unconditional or guarded by a parameter for which this public method passes the constant True."""
    if call is None:
        call = [n.value for n in ast.walk(pf.node) if isinstance(n, ast.YieldFrom) and isinstance(n.value, ast.Call)][0]
    params = [a.arg for a in g.node.args.args]
    if params and params[0] in ("self", "cls"):
        params = params[1:]
    bound = {}
    for i_, a in enumerate(call.args):
        if i_ < len(params):
            bound[params[i_]] = a
    for k in call.keywords:
        if k.arg:
            bound[k.arg] = k.value
    want = {"get_all_datatypes": ["types"], "get_all_namespaces": ["namespace"], "get_all_types": ["types", "namespace"]}[pub]
    have = set()
    for st, gd in pyfront.walk_guarded(g.node.body):
        for y in [n for n in ast.walk(st) if isinstance(n, (ast.Yield, ast.YieldFrom))] if isinstance(st, (ast.Expr, ast.For)) else []:
            txt = ast.unparse(y)
            kind = "types" if ("get_nested_types" in ast.unparse(st) or "_data_type_to_outputs" in ast.unparse(st)) else \
                ("namespace" if "_output_path" in txt else None)
            if kind is None or (isinstance(y, ast.YieldFrom) and getattr(getattr(y.value, "func", None), "attr", "") == g.name):
                continue
            terms = pyfront.guard_terms(gd)
            live = all(p_ and e_ in bound and isinstance(bound[e_], ast.Constant) and bound[e_].value is True for e_, p_ in terms)
            if live:
                have.add(kind)
    ok = set(want) <= have
    ctx.ob(R, m.rel, f"Namespace.{pub} :: yields {' and '.join(want)} of every visited namespace", ok,
           "" if ok else f"reaches only {sorted(have)} with the arguments it passes", g.node.lineno)


def _every_type_registered(ctx, R, m, bt, px):
    """each element of the `types` argument is registered exactly once, with the namespace object of its own full namespace"""
    tparam = bt.node.args.args[0].arg
    loops = []
    for lp in ast.walk(bt.node):
        if isinstance(lp, ast.For) and isinstance(lp.target, ast.Name):
            it = lp.iter
            while isinstance(it, ast.Call) and isinstance(it.func, ast.Name) and it.func.id in ("sorted", "list", "tuple", "iter") and len(it.args) == 1 and not it.keywords:
                it = it.args[0]
            if isinstance(it, ast.Name) and it.id == tparam:
                loops.append(lp)
    regs = [(lp, c) for lp in loops for c in ast.walk(lp) if isinstance(c, ast.Call) and isinstance(c.func, ast.Attribute) and c.func.attr == "_add_data_type"]
    if len(loops) < 1 or not regs:
        ctx.ob(R, m.rel, f"{bt.short} :: every type of the input is registered in its namespace", False,
               f"no `_add_data_type` call inside a loop over the whole `{tparam}` argument", bt.node.lineno)
        return
    pm = pyfront.parent_map(bt.node)
    for lp, c in regs:
        v = lp.target.id
        gd = pyfront.guards_of(lp, c) or ()
        skips = []
        for b in ast.walk(lp):
            if isinstance(b, (ast.Break, ast.Continue, ast.Return)):
                cur = b
                while id(cur) in pm and not isinstance(pm[id(cur)], (ast.For, ast.While)):
                    cur = pm[id(cur)]
                if pm.get(id(cur)) is lp and b.lineno < c.lineno:
                    skips.append(b)
        ok = not gd and not skips and bool(c.args) and ast.unparse(c.args[0]) == v
        ctx.ob(R, m.rel, f"{bt.short} :: every type of the input is registered in its namespace", ok,
               "" if ok else (f"registration is conditional ({pyfront.guard_terms(gd)})" if gd else
                              "the loop skips types before registering them" if skips else f"registers `{ast.unparse(c.args[0]) if c.args else '?'}`, not the loop's type") +
               ": a type that is not registered gets no output path (it is neither generated nor resolvable from other types)", c.lineno)
        # the receiving namespace: the object for <type>.full_namespace
        recv = c.func.value
        src = None
        if isinstance(recv, ast.Name):
            for st in ast.walk(lp):
                if isinstance(st, ast.Assign) and st.lineno < c.lineno:
                    for t_ in st.targets:
                        names = [x.id for x in (t_.elts if isinstance(t_, ast.Tuple) else [t_]) if isinstance(x, ast.Name)]
                        if names and names[0] == recv.id:
                            src = st.value
        else:
            src = recv
        while isinstance(src, ast.Subscript):
            src = src.value
        ok = isinstance(src, ast.Call) and isinstance(src.func, ast.Attribute) and src.func.attr == "get_or_make_namespace" \
            and [ast.unparse(a) for a in src.args] == [f"{v}.full_namespace"]
        ctx.ob(R, m.rel, f"{bt.short} :: a type is registered with the namespace named by its own full_namespace", ok,
               "" if ok else f"receiver comes from `{ast.unparse(src)[:80] if src is not None else '?'}`", c.lineno)


def _walker_of(m, call):
    """the module-level function or the method (of a class of the module) a call names, when it is a generator"""
    f_ = None
    if isinstance(call.func, ast.Name):
        f_ = m.funcs.get(call.func.id)
    elif isinstance(call.func, ast.Attribute):
        cands = [k_.methods[call.func.attr] for k_ in m.classes.values() if call.func.attr in k_.methods]
        f_ = cands[0] if len(cands) == 1 else None
    if f_ is not None and any(isinstance(y_, (ast.Yield, ast.YieldFrom)) for y_ in ast.walk(f_.node)):
        return f_
    return None


def _ancestors(ctx, R, m, bt, px_=None):
    """for each type, every proper prefix of its name components (length >= 1) reaches namespace_index"""
    adds = [c for c in ast.walk(bt.node) if isinstance(c, ast.Call) and isinstance(c.func, ast.Attribute) and c.func.attr in ("add", "update")]
    pm = pyfront.parent_map(bt.node)
    ok, detail = False, "no loop indexing the ancestors of a type's namespace was recognised"
    lp = None
    def _resolve(fn, e, depth=0):
        """a local that is assigned once is the expression it was assigned"""
        return pyfront.subst_locals(fn, e)

    def _is_components(fn, e):
        """(is a prefix-preserving view of <type>.name_components, how many trailing components it lacks)"""
        e = _resolve(fn, e)
        if isinstance(e, ast.Attribute) and e.attr == "name_components":
            return True, 0
        if isinstance(e, ast.Subscript) and isinstance(e.slice, ast.Slice) and isinstance(e.value, ast.Attribute) and e.value.attr == "name_components" \
                and (e.slice.lower is None or (isinstance(e.slice.lower, ast.Constant) and e.slice.lower.value == 0)) and e.slice.step is None:
            up = e.slice.upper
            if isinstance(up, ast.UnaryOp) and isinstance(up.op, ast.USub) and isinstance(up.operand, ast.Constant) and isinstance(up.operand.value, int):
                return True, up.operand.value
        return False, 0

    def _affine(fn, e):
        """(coefficient of L = len(name_components), constant) of an index expression, or None"""
        e = _resolve(fn, e)
        if isinstance(e, ast.Constant) and isinstance(e.value, int):
            return (0, e.value)
        if isinstance(e, ast.Call) and isinstance(e.func, ast.Name) and e.func.id == "len" and len(e.args) == 1:
            isc, lacks = _is_components(fn, e.args[0])
            return (1, -lacks) if isc else None
        if isinstance(e, ast.UnaryOp) and isinstance(e.op, ast.USub):
            v = _affine(fn, e.operand)
            return None if v is None else (-v[0], -v[1])
        if isinstance(e, ast.BinOp) and isinstance(e.op, (ast.Add, ast.Sub)):
            a, b = _affine(fn, e.left), _affine(fn, e.right)
            if a is None or b is None:
                return None
            sg = 1 if isinstance(e.op, ast.Add) else -1
            return (a[0] + sg * b[0], a[1] + sg * b[1])
        return None

    def _prefix_loop(fn, lp_, produced):
        """does `for i in range(...)` produce name_components[:i] for i = L-1 .. 1 (descending) or 1 .. L-1 (ascending)?  -> (ok, descending, why)"""
        if not (isinstance(lp_.iter, ast.Call) and isinstance(lp_.iter.func, ast.Name) and lp_.iter.func.id == "range" and isinstance(lp_.target, ast.Name)):
            return False, False, "not a range loop"
        ra = [_affine(fn, a) for a in lp_.iter.args]
        if any(a is None for a in ra):
            return False, False, f"range({', '.join(ast.unparse(a) for a in lp_.iter.args)}) not understood"
        desc = len(ra) == 3 and ra[2] == (0, -1)
        if desc:
            good = ra[0] == (1, -1) and ra[1] == (0, 0)
        elif len(ra) == 2 or (len(ra) == 3 and ra[2] == (0, 1)):
            good = ra[0] == (0, 1) and ra[1] == (1, 0)
        else:
            good = False
        if not good:
            return False, desc, f"range({', '.join(ast.unparse(a) for a in lp_.iter.args)}) does not run over the prefix lengths 1 .. len(name_components) - 1"
        var = lp_.target.id
        src = _closure(lp_, [produced])
        sl = [s_ for e in src for s_ in ast.walk(e) if isinstance(s_, ast.Subscript) and isinstance(s_.slice, ast.Slice) and _is_components(fn, s_.value)[0]]
        sl = [s_ for s_ in sl if not any(t_.value is s_ for t_ in sl)]       # name_components[:-1][:i]: the inner slice is the view being cut
        measured = {id(c_.args[0]) for e in src for c_ in ast.walk(e) if isinstance(c_, ast.Call) and isinstance(c_.func, ast.Name) and c_.func.id == "len" and len(c_.args) == 1}
        sl = [s_ for s_ in sl if id(s_) not in measured]                      # len(name_components[:-1]) in the range bounds is no ancestor name
        good_slice = bool(sl) and all((s_.slice.lower is None or (isinstance(s_.slice.lower, ast.Constant) and s_.slice.lower.value == 0))
                                      and isinstance(s_.slice.upper, ast.Name) and s_.slice.upper.id == var for s_ in sl)
        if not good_slice:
            return False, desc, "the ancestor name is not name_components[0:i] for the loop index i"
        return True, desc, ""

    for c in adds:
        lp = pm.get(id(c))
        while lp is not None and not isinstance(lp, ast.For):
            lp = pm.get(id(lp))
        if lp is None or not c.args:
            continue
        desc = False
        if isinstance(lp.iter, ast.Call) and isinstance(lp.iter.func, ast.Name) and lp.iter.func.id == "range":
            src = _closure(lp, [c.args[0]])
            if not any("name_components" in _attrs(pyfront.subst_locals(bt.node, e)) for e in src):
                continue
            good, desc, detail_ = _prefix_loop(bt.node, lp, c.args[0])
        elif isinstance(lp.iter, ast.Call) and isinstance(lp.target, ast.Name) and isinstance(c.args[0], ast.Name) and c.args[0].id == lp.target.id \
                and _walker_of(m, lp.iter) is not None and any(isinstance(n_, ast.While) for n_ in _walker_of(m, lp.iter).node.body):
            # the ancestor names come from a generator that walks up from a namespace name, one component at a time:
            #     v = <param>;  while v: yield v; v = v.rpartition(".")[0]
            h = _walker_of(m, lp.iter)
            hp_ = [a_.arg for a_ in h.node.args.args if a_.arg not in ("self", "cls")]
            ws = [n_ for n_ in h.node.body if isinstance(n_, ast.While)]
            ys = [y for y in ast.walk(h.node) if isinstance(y, (ast.Yield, ast.YieldFrom))]
            good, desc, detail_ = False, True, f"the generator {h.short} is not a walk from a namespace name up to the root"
            if len(ws) == 1 and len(ys) == 1 and isinstance(ys[0], ast.Yield) and isinstance(ys[0].value, ast.Name) and len(hp_) == 1:
                w_, v_ = ws[0], ys[0].value.id
                top_yield = any(isinstance(st_, ast.Expr) and st_.value is ys[0] for st_ in w_.body)
                inits = [n_.value for n_ in h.node.body if isinstance(n_, ast.Assign) and any(isinstance(t_, ast.Name) and t_.id == v_ for t_ in n_.targets)]
                init_ok = v_ == hp_[0] or (len(inits) == 1 and isinstance(inits[0], ast.Name) and inits[0].id == hp_[0])

                def _up(st_):
                    if not isinstance(st_, ast.Assign) or len(st_.targets) != 1:
                        return False
                    t_, val = st_.targets[0], st_.value
                    call_ = val.value if isinstance(val, ast.Subscript) and isinstance(val.slice, ast.Constant) and val.slice.value == 0 else val
                    is_part = isinstance(call_, ast.Call) and isinstance(call_.func, ast.Attribute) and call_.func.attr == "rpartition" \
                        and isinstance(call_.func.value, ast.Name) and call_.func.value.id == v_ and call_.args and isinstance(call_.args[0], ast.Constant) and call_.args[0].value == "."
                    if not is_part:
                        return False
                    if isinstance(val, ast.Subscript):
                        return isinstance(t_, ast.Name) and t_.id == v_
                    return isinstance(t_, ast.Tuple) and len(t_.elts) == 3 and isinstance(t_.elts[0], ast.Name) and t_.elts[0].id == v_
                steps = [st_ for st_ in w_.body if _up(st_)]
                others = [st_ for st_ in ast.walk(w_) if isinstance(st_, (ast.Break, ast.Continue, ast.Return, ast.If))]
                test_ok = v_ in {x_.id for x_ in ast.walk(w_.test) if isinstance(x_, ast.Name)}
                arg_ok = len(lp.iter.args) == 1 and isinstance(lp.iter.args[0], ast.Attribute) and lp.iter.args[0].attr == "full_namespace"
                good = top_yield and init_ok and len(steps) == 1 and not others and test_ok and arg_ok
                if good and not (w_.body.index(steps[0]) > [i_ for i_, st_ in enumerate(w_.body) if isinstance(st_, ast.Expr) and st_.value is ys[0]][0]):
                    good = False          # the step comes first: the type's own namespace is skipped - harmless - but so is nothing else; keep the simple shape
                if not arg_ok:
                    detail_ = "the walk does not start at the type's own namespace"
        elif isinstance(lp.iter, ast.Call) and isinstance(lp.iter.func, ast.Name) and lp.iter.func.id in m.funcs and isinstance(lp.target, ast.Name) \
                and isinstance(c.args[0], ast.Name) and c.args[0].id == lp.target.id:
            # the ancestor names come from a module-level generator; the consumer adds each item
            h = m.funcs[lp.iter.func.id]
            hl = [n_ for n_ in h.node.body if isinstance(n_, ast.For)]
            ys = [y for n_ in hl for y in ast.walk(n_) if isinstance(y, ast.Yield) and y.value is not None]
            other = [y for y in ast.walk(h.node) if isinstance(y, (ast.Yield, ast.YieldFrom)) and not any(y is z for z in ys)]
            if len(hl) != 1 or len(ys) != 1 or other or any(isinstance(x, (ast.If, ast.Break, ast.Continue, ast.Return)) for x in ast.walk(hl[0])):
                good, detail_ = False, f"the generator {h.short} is not a single unconditional loop yielding one ancestor name per round"
            else:
                good, desc, detail_ = _prefix_loop(h.node, hl[0], ys[0].value)
        else:
            continue
        if not good:
            detail = detail_
        # a break out of the loop is sound only when the ancestor is already indexed (and the longer prefixes come first)
        brs = [b for b in ast.walk(lp) if isinstance(b, (ast.Break, ast.Continue))]
        good_break = True
        for b in brs:
            terms = pyfront.guard_terms(pyfront.guards_of(lp, b) or ())
            good_break = good_break and any(" in " in e and p for e, p in terms) and desc
        if good and not good_break:
            detail = "the ancestor loop is left early on a condition other than 'already indexed'"
        ok = good and good_break
        break
    if not ok and detail.startswith("no loop indexing"):
        lp = None
        # the other idiom: walk up from the type's own namespace, one component at a time
        #     v = <type>.full_namespace
        #     while v [and v not in index]:  index.add(v); v = v.rpartition(".")[0]
        for w in [n for n in ast.walk(bt.node) if isinstance(n, ast.While)]:
            w_adds = [c for c in ast.walk(w) if isinstance(c, ast.Call) and isinstance(c.func, ast.Attribute) and c.func.attr == "add" and c.args
                      and isinstance(c.args[0], ast.Name)]
            if not w_adds:
                continue
            v = w_adds[0].args[0].id
            steps = [n for n in ast.walk(w) if isinstance(n, ast.Assign) and any(isinstance(t, ast.Name) and t.id == v for t in n.targets)]
            inits = [n.value for n in ast.walk(bt.node) if isinstance(n, ast.Assign) and any(isinstance(t, ast.Name) and t.id == v for t in n.targets)
                     and not any(n is s_ for s_ in steps)]
            good_init = bool(inits) and all(isinstance(i, ast.Attribute) and i.attr == "full_namespace" for i in inits)

            def parent_of_self(e):
                # v.rpartition(".")[0]  /  v.rsplit(".", 1)[0]
                return isinstance(e, ast.Subscript) and isinstance(e.slice, ast.Constant) and e.slice.value == 0 and isinstance(e.value, ast.Call) \
                    and isinstance(e.value.func, ast.Attribute) and e.value.func.attr in ("rpartition", "rsplit") \
                    and isinstance(e.value.func.value, ast.Name) and e.value.func.value.id == v \
                    and e.value.args and isinstance(e.value.args[0], ast.Constant) and e.value.args[0].value == "."
            good_step = len(steps) == 1 and parent_of_self(steps[0].value)
            tnames = {x.id for x in ast.walk(w.test) if isinstance(x, ast.Name)}
            good_test = v in tnames
            brs = [b for b in ast.walk(w) if isinstance(b, (ast.Break, ast.Continue, ast.Return))]
            lp = w
            ok = good_init and good_step and good_test and not brs
            if not good_init:
                detail = "the walk does not start at the type's own namespace"
            elif not good_step:
                detail = ("the step does not take the parent of the running ancestor (v = v.rpartition('.')[0]): with more than one empty intermediate "
                          "namespace the chain to the root is not indexed and the deep sub-tree is disconnected")
            elif not good_test:
                detail = "the loop condition does not test the running ancestor"
            else:
                detail = "the ancestor walk is left early"
            break
    ctx.ob(R, m.rel, f"{bt.short} :: every ancestor namespace of a type is indexed", ok, "" if ok else detail, bt.node.lineno)
    _every_type_registered(ctx, R, m, bt, px_)
    # the loop is skipped only when the namespace already existed
    if ok:
        terms = pyfront.guard_terms(pyfront.guards_of(bt.node, lp) or ())
        made = [n for n in ast.walk(bt.node) if isinstance(n, ast.Assign) and isinstance(n.value, ast.Call) and getattr(n.value.func, "attr", "") == "get_or_make_namespace"]
        flags = set()
        for n in made:
            t = n.targets[0]
            if isinstance(t, ast.Tuple) and len(t.elts) == 2 and isinstance(t.elts[1], ast.Name):
                flags.add(t.elts[1].id)
        okg = all(any(f in e for f in flags) and not p for e, p in terms) if terms else True
        ctx.ob(R, m.rel, f"{bt.short} :: ancestors are indexed whenever the type's namespace is new", okg, f"guards {terms}", lp.lineno)


def _linking(ctx, R, m, bt):
    calls = _calls(bt.node, "_add_nested_namespace")
    ok = len(calls) == 1
    detail = f"{len(calls)} linking calls"
    if ok:
        c = calls[0]
        pm = pyfront.parent_map(bt.node)
        lp = pm.get(id(c))
        while lp is not None and not isinstance(lp, ast.For):
            lp = pm.get(id(lp))
        asg = _assignments(bt.node)
        ok = lp is not None and isinstance(lp.iter, ast.Name)
        detail = "the linking call is not in a loop over the namespace index"
        if ok:
            # loop over the index that the ancestor loop fills
            idx_adds = [x for x in ast.walk(bt.node) if isinstance(x, ast.Call) and isinstance(x.func, ast.Attribute) and x.func.attr == "add" and isinstance(x.func.value, ast.Name) and x.func.value.id == lp.iter.id]
            ok = bool(idx_adds)
            detail = "the linking loop does not iterate the set the ancestors were added to"
        if ok:
            child = c.args[0] if c.args else None
            parent = c.func.value
            # both come from the factory
            def from_factory(e):
                return isinstance(e, ast.Name) and any(isinstance(v, ast.Call) and getattr(v.func, "attr", "") == "get_or_make_namespace" for v in asg.get(e.id, []))
            ok = from_factory(child) and from_factory(parent)
            detail = "parent or child is not obtained from the namespace factory"
        if ok:
            # parent name = components[0:-1] of the child
            src = _closure(lp, [v.args[0] for v in asg.get(parent.id, []) if isinstance(v, ast.Call) and v.args])
            sl = [s for e in src for s in ast.walk(e) if isinstance(s, ast.Subscript) and isinstance(s.slice, ast.Slice)]
            ok = bool(sl) and all((s.slice.lower is None or (isinstance(s.slice.lower, ast.Constant) and s.slice.lower.value == 0)) and
                                  isinstance(s.slice.upper, ast.UnaryOp) and isinstance(s.slice.upper.operand, ast.Constant) and s.slice.upper.operand.value == 1 for s in sl) \
                or any(isinstance(e, ast.Call) and getattr(e.func, "attr", "") in ("rpartition", "rsplit") for x in src for e in ast.walk(x))
            detail = "the parent's name is not the child's components without the last one"
        if ok:
            terms = pyfront.guard_terms(pyfront.guards_of(lp, c) or ())
            ok = all(("len(" in e and "> 0" in e and p) or ("len(" in e and "== 0" in e and not p) or (e.strip().isidentifier() and p) for e, p in terms)
            detail = f"the link is made under an unexpected condition {terms}"
    ctx.ob(R, m.rel, f"{bt.short} :: every indexed namespace is linked to its (lazily created) parent", ok, "" if ok else detail, bt.node.lineno)


def run(ctx):
    ctx.explanation = (
        "C11 is decided by ownership and provenance rules over the Python AST: one constructor for a type's relative "
        "path whose inputs (namespace list, stropped stem, extension argument) and consumers (output map, include "
        "lists, lookup) are checked by parameter position and data flow; a closed set of writers for the tree links "
        "and the type->path map; a read-through factory as the only constructor of Namespace objects; ancestor "
        "indexing and parent linking in build_namespace_tree; joins onto the base output path only; unconditional "
        "recursion of the traversal generators."
    )
    ctx.declined = ["injectivity of the mapping and tree shape for all type sets (combinatorial value-level facts about build_namespace_tree)",
                    "languages configured with enable_stropping: false (namespace folders are stropped unconditionally, type paths are not)"]
    px = pyfront.PyIndex(ctx.root)
    rule_one_path(ctx, px)
    rule_links(ctx, px)
    ctx.floor("R-C11-ONE-PATH", ctx.count("R-C11-ONE-PATH"), 18)
    ctx.floor("R-C11-LINKS", ctx.count("R-C11-LINKS"), 14)
