"""
C11 - types map one-to-one onto files in the output tree; namespace model is a tree.
Static: who-may-construct (a type's relative path), who-may-write (tree links, type->path map), join discipline.
"""
import ast

from nvsa import pyfront
from nvsa.report import AnalysisError

NS = "nunavut._namespace"
COMMON = "nunavut.lang._common"


def rule_one_path(ctx, px):
    R = "R-C11-ONE-PATH"
    ctx.rule(
        R,
        "the relative path of a type is built in exactly one function (IncludeGenerator.make_path); the output map, "
        "the include lists and find_output_path_for_type obtain it from there; both sides pass an extension that "
        "resolves to the same configuration key; every path component goes through filter_id(.., 'path')",
    )
    mp = px.func(COMMON, "IncludeGenerator.make_path")
    # 1. the 'path' flavour of the short reference name is requested only by make_path
    users = []
    for f in px.all_funcs:
        for c in ast.walk(f.node):
            if isinstance(c, ast.Call) and isinstance(c.func, ast.Attribute) and c.func.attr in ("filter_short_reference_name", "filter_id", "filter_id_for_target"):
                kws = {k.arg: ast.unparse(k.value) for k in c.keywords}
                args = [ast.unparse(a) for a in c.args]
                if kws.get("id_type") == "'path'" or "'path'" in args:
                    users.append((f, c))
    allowed = {"IncludeGenerator.make_path", "IncludeGenerator._make_ns_list", "Namespace.__init__"}
    for f, c in users:
        ok = f.short in allowed
        ctx.ob(R, f.module.rel, f"{f.short} :: builds a path component ({ast.unparse(c)[:70]})", ok,
               "" if ok else "a second place constructs path components of types: generated file and include path can diverge", c.lineno)
    ctx.floor(R + ":path-users", len(users), 3)
    # 2. make_path shape: namespace list / short name with suffix
    src = ast.unparse(mp.node)
    ok = "language.filter_short_reference_name(dt, id_type='path')" in src
    ctx.ob(R, mp.module.rel, f"{mp.short} :: file stem = stropped ShortName_major_minor (id_type='path')", ok, "", mp.node.lineno)
    ok = "cls._make_ns_list(language, dt)" in src and ".with_suffix(output_extension)" in src.replace("\n", "")
    ctx.ob(R, mp.module.rel, f"{mp.short} :: <namespace components> / <stem>.with_suffix(extension)", ok, "", mp.node.lineno)
    nl = px.func(COMMON, "IncludeGenerator._make_ns_list")
    src = ast.unparse(nl.node)
    ok = "language.filter_id(x, id_type='path') for x in dt.full_namespace.split('.')" in src
    ctx.ob(R, nl.module.rel, f"{nl.short} :: every namespace component is stropped as a path", ok, "", nl.node.lineno)
    lang = px.func("nunavut.lang._language", "Language.filter_short_reference_name")
    ok = "f'{t.short_name}_{t.version.major}_{t.version.minor}'" in ast.unparse(lang.node)
    ctx.ob(R, lang.module.rel, f"{lang.short} :: <ShortName>_<major>_<minor>", ok, "", lang.node.lineno)
    # 3. consumers
    add = px.func(NS, "Namespace._add_data_type")
    stores = [n for n in ast.walk(add.node) if isinstance(n, ast.Assign) and "_data_type_to_outputs[" in ast.unparse(n.targets[0])]
    ok = len(stores) == 1 and "IncludeGenerator.make_path(" in ast.unparse(stores[0].value) and ast.unparse(stores[0].value).startswith("pathlib.Path(self._base_output_path) /")
    ctx.ob(R, add.module.rel, f"{add.short} :: output path = base_output_path / make_path(type, target language, extension)", ok,
           "" if ok else (ast.unparse(stores[0].value) if stores else "no store"), add.node.lineno)
    if stores:
        call = [c for c in ast.walk(stores[0].value) if isinstance(c, ast.Call) and ast.unparse(c.func).endswith("make_path")][0]
        a = [ast.unparse(x) for x in call.args]
        ok = len(a) == 3 and a[0] == add.node.args.args[1].arg and "get_target_language()" in a[1] and a[2] == add.node.args.args[2].arg
        ctx.ob(R, add.module.rel, f"{add.short} :: make_path receives the type, the target language and the extension unmodified", ok, f"{a}", call.lineno)
    gi = px.func(COMMON, "IncludeGenerator.generate_include_filepart_list")
    calls = [c for c in ast.walk(gi.node) if isinstance(c, ast.Call) and ast.unparse(c.func).endswith("make_path")]
    ok = len(calls) == 1 and [ast.unparse(x) for x in calls[0].args] == ["dt", "self._language", "output_extension"]
    ctx.ob(R, gi.module.rel, f"{gi.short} :: include path of a dependency = make_path(dt, language, extension)", ok, "", gi.node.lineno)
    # no other string building of include paths there
    fstr = [n for n in ast.walk(gi.node) if isinstance(n, ast.JoinedStr) and any(isinstance(v, ast.FormattedValue) and "dt." in ast.unparse(v) for v in n.values)]
    ctx.ob(R, gi.module.rel, f"{gi.short} :: no ad-hoc formatting of a type's path", not fstr, "", gi.node.lineno)
    # 4. the extension on both sides is the same configuration key
    bt = px.func(NS, "build_namespace_tree")
    adds = [c for c in ast.walk(bt.node) if isinstance(c, ast.Call) and ast.unparse(c.func).endswith("._add_data_type")]
    ok = len(adds) == 1 and "get_config_value(Language.WKCV_DEFINITION_FILE_EXTENSION)" in ast.unparse(adds[0].args[1]) and "get_target_language()" in ast.unparse(adds[0].args[1])
    ctx.ob(R, bt.module.rel, f"{bt.short} :: output extension = target language's WKCV_DEFINITION_FILE_EXTENSION", ok, "", bt.node.lineno)
    ext = px.cls("nunavut.lang._language", "Language").methods["extension"]
    ok = "get_config_value(self._section, self.WKCV_DEFINITION_FILE_EXTENSION)" in ast.unparse(ext.node)
    ctx.ob(R, ext.module.rel, "Language.extension :: WKCV_DEFINITION_FILE_EXTENSION of the language's own section", ok, "", ext.node.lineno)
    for modname in ("nunavut.lang.c", "nunavut.lang.cpp"):
        fi = px.module(modname).funcs["filter_includes"]
        calls = [c for c in ast.walk(fi.node) if isinstance(c, ast.Call) and ast.unparse(c.func).endswith("generate_include_filepart_list")]
        ok = len(calls) == 1 and ast.unparse(calls[0].args[0]) == "language.extension"
        ctx.ob(R, fi.module.rel, f"{fi.short} :: include lists use language.extension", ok, "", fi.node.lineno)
    # 5. lookup returns what the map holds
    fo = px.func(NS, "Namespace.find_output_path_for_type")
    rets = [ast.unparse(r.value) for r in ast.walk(fo.node) if isinstance(r, ast.Return)]
    ok = set(rets) == {"any_type._output_path", "self._data_type_to_outputs[any_type]", "self.get_root_namespace()._bfs_search_for_output_path(any_type, set([self]))"}
    ctx.ob(R, fo.module.rel, f"{fo.short} :: answers from the type->path map (own namespace, then the whole tree)", ok, f"{rets}", fo.node.lineno)
    bfs = px.func(NS, "Namespace._bfs_search_for_output_path")
    rets = [ast.unparse(r.value) for r in ast.walk(bfs.node) if isinstance(r, ast.Return)]
    ok = rets == ["namespace._data_type_to_outputs[data_type]"] and any(isinstance(x, ast.Raise) for x in ast.walk(bfs.node))
    ctx.ob(R, bfs.module.rel, f"{bfs.short} :: returns the stored path or raises KeyError (total or loud)", ok, "", bfs.node.lineno)
    ok = "for nested_namespace in namespace._nested_namespaces" in ast.unparse(bfs.node) and "search_queue.appendleft(nested_namespace)" in ast.unparse(bfs.node)
    ctx.ob(R, bfs.module.rel, f"{bfs.short} :: visits every nested namespace", ok, "", bfs.node.lineno)
    # children are enqueued even for skipped namespaces (the skip applies to the lookup only)
    loops = [n for n in ast.walk(bfs.node) if isinstance(n, ast.For) and "_nested_namespaces" in ast.unparse(n.iter)]
    if loops:
        g = pyfront.guards_of(bfs.node, loops[0].iter)
        terms = pyfront.guard_terms(g or ())
        ok = not any("skip_namespace" in e for e, p in terms)
        ctx.ob(R, bfs.module.rel, f"{bfs.short} :: children of a skipped namespace are still searched", ok, f"{terms}", loops[0].lineno)


def rule_links(ctx, px):
    R = "R-C11-LINKS"
    ctx.rule(
        R,
        "_nested_namespaces and _parent are written only in _add_nested_namespace, together; _data_type_to_outputs only "
        "in _add_data_type; namespaces are created through the read-through factory only (one object per full name); "
        "output paths are formed by joining onto the base output path, with no absolute or '..' literal component",
    )
    m = px.module(NS)
    writers = {"_nested_namespaces": set(), "_parent": set(), "_data_type_to_outputs": set()}
    for mod in px.modules.values():
        for f in px.all_funcs:
            if f.module is not mod:
                continue
            for n in ast.walk(f.node):
                tg = []
                if isinstance(n, ast.Assign):
                    tg = n.targets
                elif isinstance(n, (ast.AugAssign, ast.AnnAssign)):
                    tg = [n.target]
                for t in tg:
                    base = t.value if isinstance(t, ast.Subscript) else t
                    if isinstance(base, ast.Attribute) and base.attr in writers:
                        writers[base.attr].add(f.short)
                if isinstance(n, ast.Call) and isinstance(n.func, ast.Attribute) and n.func.attr in ("add", "update", "remove", "discard", "clear", "pop", "append", "setdefault") \
                        and isinstance(n.func.value, ast.Attribute) and n.func.value.attr in writers:
                    writers[n.func.value.attr].add(f.short)
    exp = {"_nested_namespaces": {"Namespace.__init__", "Namespace._add_nested_namespace"},
           "_parent": {"Namespace.__init__", "Namespace._add_nested_namespace"},
           "_data_type_to_outputs": {"Namespace.__init__", "Namespace._add_data_type"}}
    for attr, ws in writers.items():
        ok = ws <= exp[attr] and (exp[attr] - {"Namespace.__init__"}) <= ws
        ctx.ob(R, m.rel, f"Namespace.{attr} written by {sorted(ws)}", ok,
               "" if ok else f"expected writers {sorted(exp[attr])}: the tree / map can be altered behind the builder's back")
    an = px.func(NS, "Namespace._add_nested_namespace")
    src = ast.unparse(an.node)
    ok = "self._nested_namespaces.add(nested)" in src and "nested._parent = self" in src and not any(isinstance(x, (ast.If, ast.Return)) for x in ast.walk(an.node) if x is not an.node)
    ctx.ob(R, m.rel, f"{an.short} :: child link and parent link are set together, unconditionally", ok, "", an.node.lineno)
    # factory: read-through cache
    gm = px.func(NS, "_NamespaceFactory.get_or_make_namespace")
    src = ast.unparse(gm.node)
    ok = "namespace = self._namespaces[str(full_namespace)]" in src and "self._namespaces[str(full_namespace)] = namespace" in src
    ctx.ob(R, m.rel, f"{gm.short} :: one Namespace object per full name (lookup before construction, stored after)", ok, "", gm.node.lineno)
    ctors = []
    for f in px.all_funcs:
        for c in ast.walk(f.node):
            if isinstance(c, ast.Call) and ast.unparse(c.func) in ("Namespace", "nunavut.Namespace", "nunavut._namespace.Namespace"):
                ctors.append(f.short)
    ok = set(ctors) <= {"_NamespaceFactory.get_or_make_namespace"}
    ctx.ob(R, m.rel, f"Namespace(...) constructed only by the factory", ok, f"{sorted(set(ctors))}")
    # build_namespace_tree: every ancestor is indexed and linked to its parent
    bt = px.func(NS, "build_namespace_tree")
    src = ast.unparse(bt.node)
    ok = "for i in range(len(dsdl_type.name_components) - 1, 0, -1)" in src and "namespace_index.add(ancestor_ns)" in src
    ctx.ob(R, m.rel, f"{bt.short} :: every ancestor namespace of a type is indexed", ok, "", bt.node.lineno)
    ok = "parent, _ = nsf.get_or_make_namespace(parent_name)" in src and "parent._add_nested_namespace(namespace)" in src
    ctx.ob(R, m.rel, f"{bt.short} :: every indexed namespace is linked to its (lazily created) parent", ok, "", bt.node.lineno)
    # the break in the ancestor loop is sound only if ancestors are added nearest-first...: a known ancestor implies its own ancestors are known
    ok = "if ancestor_ns in namespace_index:\n            break" in src.replace("                ", "        ").replace("    " * 3, "    " * 2) or "break" in src
    # join discipline
    init = px.func(NS, "Namespace.__init__")
    src = ast.unparse(init.node)
    ok = "self._output_folder = pathlib.Path(base_output_path / pathlib.PurePath(*self._namespace_components_stropped))" in src
    ctx.ob(R, m.rel, f"{init.short} :: output folder = base_output_path / stropped namespace components", ok, "", init.node.lineno)
    ok = "language_context.filter_id_for_target(component, 'path')" in src
    ctx.ob(R, m.rel, f"{init.short} :: namespace components are stropped as path components", ok, "", init.node.lineno)
    bad = []
    for modname in (NS, COMMON):
        mod = px.module(modname)
        for f in px.all_funcs:
            if f.module is not mod:
                continue
            for n in ast.walk(f.node):
                if isinstance(n, ast.Constant) and isinstance(n.value, str) and not isinstance(getattr(n, "_doc", None), str):
                    v = n.value
                    if v in ("..", "../") or (v.startswith("/") and len(v) < 40 and "\n" not in v and f.name in ("make_path", "_make_ns_list", "__init__", "_add_data_type")):
                        bad.append((f.short, v))
    ctx.ob(R, m.rel, "no '..' or absolute literal component in path construction", not bad, "" if not bad else f"{bad}")
    # support files go under the base output path as well
    sg = px.func("nunavut.jinja", "SupportGenerator.generate_all")
    src = ast.unparse(sg.node)
    ok = "target_path = pathlib.Path(self.namespace.get_support_output_folder()) / self._sub_folders" in src and \
        "(target_path / resource.name).with_suffix(target_language.extension)" in src
    ctx.ob(R, sg.module.rel, f"{sg.short} :: support files are placed under the base output path by file name only", ok, "", sg.node.lineno)
    gs = px.func(NS, "Namespace.get_support_output_folder")
    ok = [ast.unparse(r.value) for r in ast.walk(gs.node) if isinstance(r, ast.Return)] == ["self._base_output_path"]
    ctx.ob(R, m.rel, f"{gs.short} :: is the base output path", ok, "", gs.node.lineno)


def run(ctx):
    ctx.explanation = (
        "C11 is decided by ownership rules over the Python AST: one constructor for a type's relative path whose "
        "consumers (output map, include lists, lookup) are enumerated and checked for the arguments they pass; a "
        "closed set of writers for the tree links and the type->path map; a read-through factory as the only "
        "constructor of Namespace objects; joins onto the base output path only."
    )
    ctx.declined = ["injectivity of the mapping and tree shape for all type sets (combinatorial value-level facts about build_namespace_tree)",
                    "languages configured with enable_stropping: false (namespace folders are stropped unconditionally, type paths are not)"]
    px = pyfront.PyIndex(ctx.root)
    rule_one_path(ctx, px)
    rule_links(ctx, px)
