"""
C16 - template resolution and environment contract.
Static: loader precedence/ordering rules, who-may-write rules for filters/tests/globals, shape of the instance tests.
"""
import ast
import re

from nvsa import pyfront
from nvsa.report import AnalysisError

LOADERS = "nunavut.jinja.loaders"
ENV = "nunavut.jinja.environment"
GEN = "nunavut.jinja"


def _first_line(node, pred):
    ls = [n.lineno for n in ast.walk(node) if pred(n)]
    return min(ls) if ls else None


def cache_discipline(px):
    """every write to the class -> template cache stores, under the class popped from the search queue, the template looked up by
    that class's own name: an entry for a class that was merely passed over (or a value found for another class) makes a later
    lookup depend on which classes were resolved before"""
    f = px.func(LOADERS, "DSDLTemplateLoader._type_to_template_internal")
    cache_attr = None
    for n in ast.walk(f.node):
        if isinstance(n, ast.Attribute) and "cache" in n.attr and isinstance(n.value, ast.Name) and n.value.id == "self":
            cache_attr = n.attr
    if cache_attr is None:
        return True, "no cache"
    # the cache under a local alias (`cache = self._..._cache`) is the same object
    cache_names = {f"self.{cache_attr}"} | {t.id for n in ast.walk(f.node) if isinstance(n, ast.Assign) and ast.unparse(n.value) == f"self.{cache_attr}"
                                             for t in n.targets if isinstance(t, ast.Name)}
    popped = {t.id for n in ast.walk(f.node) if isinstance(n, ast.Assign) and isinstance(n.value, ast.Call) and getattr(n.value.func, "attr", "") in ("pop", "popleft")
              for t in n.targets if isinstance(t, ast.Name)}
    # ... or handed over, one per round, by a private generator that walks the class and its ancestors (it yields what it pops)
    for lp_ in ast.walk(f.node):
        if isinstance(lp_, ast.For) and isinstance(lp_.target, ast.Name) and isinstance(lp_.iter, ast.Call) and isinstance(lp_.iter.func, ast.Attribute) \
                and isinstance(lp_.iter.func.value, ast.Name) and lp_.iter.func.value.id in ("self", "cls") and f.cls is not None and lp_.iter.func.attr in f.cls.methods:
            h_ = f.cls.methods[lp_.iter.func.attr].node
            hpopped = {t.id for n in ast.walk(h_) if isinstance(n, ast.Assign) and isinstance(n.value, ast.Call) and getattr(n.value.func, "attr", "") in ("pop", "popleft")
                       for t in n.targets if isinstance(t, ast.Name)}
            ys_ = [y_ for y_ in ast.walk(h_) if isinstance(y_, ast.Yield)]
            if len(ys_) == 1 and isinstance(ys_[0].value, ast.Name) and ys_[0].value.id in hpopped:
                popped.add(lp_.target.id)
    tparam = f.node.args.args[2].arg if len(f.node.args.args) > 2 else "templates"
    writes = []   # (key expr, value expr, node)
    for n in ast.walk(f.node):
        if isinstance(n, ast.Assign) and isinstance(n.targets[0], ast.Subscript) and ast.unparse(n.targets[0].value) in cache_names:
            writes.append((n.targets[0].slice, n.value, n))
        if isinstance(n, ast.Call) and isinstance(n.func, ast.Attribute) and ast.unparse(n.func.value) in cache_names:
            if n.func.attr in ("setdefault", "__setitem__") and len(n.args) == 2:
                writes.append((n.args[0], n.args[1], n))
            elif n.func.attr in ("update", "clear", "pop", "popitem"):
                writes.append((None, None, n))
    if not writes:
        return False, "the cache is never filled (anchor changed)"
    # values: a local assigned (only) from templates[<key>.__name__] / templates.get(...)
    def from_own_name(val, key):
        cands = [val]
        if isinstance(val, ast.Name):
            cands = [n.value for n in ast.walk(f.node) if isinstance(n, ast.Assign) and any(isinstance(t, ast.Name) and t.id == val.id for t in n.targets)
                     and not (isinstance(n.value, ast.Constant) and n.value.value is None)
                     and not (isinstance(n.value, ast.Subscript) and ast.unparse(n.value.value) in cache_names)]
        good = False
        for c in cands:
            if isinstance(c, ast.Subscript) and isinstance(c.value, ast.Name) and c.value.id == tparam:
                sl = pyfront.subst_locals(f.node, c.slice)
                if ast.unparse(sl) == f"{key}.__name__":
                    good = True
                    continue
            return False
        return good
    for key, val, node in writes:
        if key is None:
            return False, f"`{ast.unparse(node)[:60]}` rewrites the cache wholesale"
        if not (isinstance(key, ast.Name) and key.id in popped):
            return False, (f"`{ast.unparse(node)[:70]}` stores an entry under `{ast.unparse(key)}`, which is not the class whose own name selected the template: "
                           "with multiple inheritance a class passed over on one search is answered with another branch's template on the next")
        if not from_own_name(val, key.id):
            return False, "cached value is not the template named after the key class"
    return True, "memo class -> template named after that class; function of the key and the loader's fixed listing"


def rule_precedence(ctx, px):
    R = "R-C16-PRECEDENCE"
    ctx.rule(
        R,
        "get_source and type_to_template consult the file-system loader before the package loader on every path (the "
        "package loader only after the file-system loader is absent or failed); the ancestor search starts at the "
        "class itself, is first-in-first-out and enqueues __bases__",
    )
    gs = px.func(LOADERS, "DSDLTemplateLoader.get_source")
    fs_calls = [c for c in ast.walk(gs.node) if isinstance(c, ast.Call) and isinstance(c.func, ast.Attribute) and c.func.attr == "get_source"
                and "_fsloader" in ast.unparse(c.func.value)]
    pk_calls = [c for c in ast.walk(gs.node) if isinstance(c, ast.Call) and isinstance(c.func, ast.Attribute) and c.func.attr == "get_source"
                and "_package_loader" in ast.unparse(c.func.value)]
    if not fs_calls or not pk_calls:
        # the loaders held in one precedence-ordered list that get_source walks: same obligations, read off the list and the loop
        from checks import _loaders
        ol = _loaders.ordered_loop(gs)
        if ol is None:
            raise AnalysisError("anchor missing: loader get_source calls in DSDLTemplateLoader.get_source")
        lp, lv, order = ol
        ok = "_fsloader" in order and "_package_loader" in order and order.index("_fsloader") < order.index("_package_loader")
        ctx.ob(R, gs.module.rel, f"{gs.short} :: package loader consulted only after the file-system loader is absent", ok,
               "" if ok else f"the loaders are tried in the order {order}", lp.lineno)
        tries = [t_ for t_ in lp.body if isinstance(t_, ast.Try)]
        good = len(tries) == 1 and len(lp.body) - sum(isinstance(x, (ast.Assign, ast.AnnAssign)) for x in lp.body) == 1
        if good:
            t_ = tries[0]
            rets = [r for b_ in t_.body for r in ast.walk(b_) if isinstance(r, ast.Return)]
            calls = [c for r in rets for c in ast.walk(r) if isinstance(c, ast.Call) and isinstance(c.func, ast.Attribute) and c.func.attr == "get_source"
                     and isinstance(c.func.value, ast.Name) and c.func.value.id == lv]
            hs = t_.handlers
            good = len(rets) == 1 and len(calls) == 1 and len(hs) == 1 and hs[0].type is not None and ast.unparse(hs[0].type).split(".")[-1] == "TemplateNotFound" \
                and not any(isinstance(x, (ast.Return, ast.Assign, ast.Break)) for b_ in hs[0].body for x in ast.walk(b_)) and not t_.orelse and not t_.finalbody
        ctx.ob(R, gs.module.rel, f"{gs.short} :: package loader consulted only after the file-system loader failed to find the name", good,
               "" if good else "the loop over the loaders does not simply return the first loader's answer and move on only when that loader raised TemplateNotFound", lp.lineno)
        ctx.ob(R, gs.module.rel, f"{gs.short} :: a template found by the file-system loader is returned at once", good, "", lp.lineno)
        fs_calls = pk_calls = None
    if fs_calls is not None:
        _precedence_paths(ctx, R, gs, fs_calls, pk_calls)
    _precedence_rest(ctx, R, px, gs)


def _precedence_paths(ctx, R, gs, fs_calls, pk_calls):
    # Path by path: the package loader is reached only where the file-system loader does not exist, or where the file-system loader's
    # *own* lookup has just failed (the handler of the try around its get_source).  Any other evidence of absence - a cached listing,
    # a suffix test, an exists() probe - is not the authority: the FileSystemLoader resolves names the listing does not contain
    # (non-template suffixes, un-normalised names, files created later), and those user files would no longer shadow the built-ins.
    fs_tries = [t_ for t_ in ast.walk(gs.node) if isinstance(t_, ast.Try) and any(c in fs_calls for b_ in t_.body for c in ast.walk(b_))]
    not_found = {"TemplateNotFound", "TemplatesNotFound", "LookupError", "IOError", "OSError", "TemplateError", "Exception", "BaseException"}
    handler_terms = set()
    for t_ in fs_tries:
        for h in t_.handlers:
            names = [ast.unparse(x).split(".")[-1] for x in (h.type.elts if isinstance(h.type, ast.Tuple) else [h.type])] if h.type is not None else ["BaseException"]
            if "TemplateNotFound" in names or set(names) & (not_found - {"TemplatesNotFound"}):
                handler_terms.add("except " + (ast.unparse(h.type) if h.type is not None else "BaseException"))
    n_pk = 0
    for path in pyfront.enumerate_paths(gs.node.body):
        last = path.stmts[-1] if path.stmts else None
        if path.outcome != "return" or last is None or not any(c in pk_calls for c in ast.walk(last)):
            continue
        n_pk += 1
        terms = path.terms()
        absent = any((e in ("self._fsloader is not None", "self._fsloader") and not pol) or (e in ("self._fsloader is None", "not self._fsloader") and pol)
                     for e, pol in terms)
        failed = any(pol and e in handler_terms for e, pol in terms)
        ok = absent or failed
        ctx.ob(R, gs.module.rel, f"{gs.short} :: package loader consulted only after the file-system loader"
               + (" is absent" if absent else " failed to find the name" if failed else f" [{'; '.join(('' if pl else 'not ') + e[:60] for e, pl in terms)}]"), ok,
               "" if ok else "the package loader is reached on a path where a file-system loader exists and its own get_source has not failed for this "
               "name: a built-in template can be returned although a user file of the same name exists", last.lineno)
    if n_pk == 0:
        raise AnalysisError("anchor missing: no returning path through the package loader in DSDLTemplateLoader.get_source")
    # the fs success path returns immediately (no fall through to the package loader)
    for c in fs_calls:
        pm = pyfront.parent_map(gs.node)
        st = pyfront.enclosing_stmt(c, pm)
        ok = isinstance(st, ast.Return)
        ctx.ob(R, gs.module.rel, f"{gs.short} :: a user template found is returned at once", ok, "", c.lineno)


def _precedence_rest(ctx, R, px, gs):
    tt = px.func(LOADERS, "DSDLTemplateLoader.type_to_template")
    calls = [c for c in ast.walk(tt.node) if isinstance(c, ast.Call) and isinstance(c.func, ast.Attribute) and c.func.attr == "_type_to_template_internal"]
    pm = pyfront.parent_map(tt.node)

    def which_loader(txt):
        return "fs" if "_fsloader" in txt else ("pkg" if "_package_loader" in txt else "?")

    loop_form, loop_order = None, None
    if len(calls) == 1:
        from checks import _loaders
        cur = calls[0]
        while id(cur) in pm:
            cur = pm[id(cur)]
            if isinstance(cur, ast.For) and isinstance(cur.iter, (ast.Tuple, ast.List)) and isinstance(cur.target, ast.Name):
                loop_form = cur
                loop_order = [which_loader(ast.unparse(e)) for e in cur.iter.elts]
                break
            if isinstance(cur, ast.For) and isinstance(cur.target, ast.Name):
                names = _loaders._list_of_attrs(tt.cls, cur.iter, tt.node)      # the precedence-ordered loader list of the class
                if names:
                    loop_form = cur
                    loop_order = [which_loader(n_) for n_ in names]
                    break
    if len(calls) == 2:
        info = []
        for c in calls:
            gd = pyfront.guards_of(tt.node, c) or ()
            terms = pyfront.guard_terms(gd)
            st = pyfront.enclosing_stmt(c, pm)
            blk_src = ast.unparse(c.args[1]) if len(c.args) > 1 else ""
            par = pm.get(id(st))
            for s_ in getattr(par, "body", []):
                if s_ is st:
                    break
                if isinstance(s_, ast.Assign) and which_loader(blk_src) == "?":
                    blk_src = ast.unparse(s_.value)
            info.append((c.lineno, which_loader(blk_src), terms))
        info.sort()
        ok = [w for _, w, _ in info] == ["fs", "pkg"]
        ctx.ob(R, tt.module.rel, f"{tt.short} :: file-system listing searched first", ok, f"order: {[w for _, w, _ in info]}", tt.node.lineno)
        pk_terms = info[1][2] if len(info) > 1 else []
        res_names = set()
        for n in ast.walk(tt.node):
            if isinstance(n, ast.Assign) and isinstance(n.value, ast.Call) and getattr(n.value.func, "attr", "") == "_type_to_template_internal":
                res_names |= {t.id for t in n.targets if isinstance(t, ast.Name)}
        ok = any((f"{r} is None", True) in pk_terms or (f"{r} is not None", False) in pk_terms for r in res_names)
        ctx.ob(R, tt.module.rel, f"{tt.short} :: package listing searched only when the file-system search found nothing", ok,
               "" if ok else f"package search guarded by {pk_terms}", tt.node.lineno)
    elif loop_form is not None:
        order = loop_order
        ok = order == ["fs", "pkg"]
        ctx.ob(R, tt.module.rel, f"{tt.short} :: file-system listing searched first", ok, f"order: {order}", tt.node.lineno)
        # a result ends the loop at once: `if <result> is not None: return <result>` (or break) directly after the search
        res_names = {t.id for n in ast.walk(loop_form) if isinstance(n, ast.Assign) and n.value is calls[0] for t in n.targets if isinstance(t, ast.Name)}
        stops = False
        for st_, gd in pyfront.walk_guarded(loop_form.body):
            if isinstance(st_, (ast.Return, ast.Break)):
                terms = pyfront.guard_terms(gd)
                if any((f"{r} is not None", True) in terms or (f"{r} is None", False) in terms or (r, True) in terms for r in res_names):
                    stops = True
        direct = any(isinstance(st_, ast.Return) and st_.value is calls[0] for st_ in ast.walk(loop_form))
        ok = stops and not direct
        ctx.ob(R, tt.module.rel, f"{tt.short} :: package listing searched only when the file-system search found nothing", ok,
               "" if ok else "the loop over the loaders does not stop at the first loader that yields a template", loop_form.lineno)
    else:
        raise AnalysisError(f"anchor missing: the two loader searches of type_to_template (found {len(calls)} _type_to_template_internal call(s))")

    it = px.func(LOADERS, "DSDLTemplateLoader._type_to_template_internal")
    src = ast.unparse(it.node)
    # the walk over the class and its ancestors may live in a private generator the search iterates (`for c in self._walk(value_type):`):
    # the queue is judged there, the consumer's loop variable is what was popped
    it_real = it
    walker_loops = []
    for lp_ in ast.walk(it.node):
        if isinstance(lp_, ast.For) and isinstance(lp_.iter, ast.Call) and isinstance(lp_.iter.func, ast.Attribute) and isinstance(lp_.iter.func.value, ast.Name) \
                and lp_.iter.func.value.id in ("self", "cls") and it.cls is not None and lp_.iter.func.attr in it.cls.methods and isinstance(lp_.target, ast.Name):
            h_ = it.cls.methods[lp_.iter.func.attr]
            if any(isinstance(n_, ast.Call) and ast.unparse(n_.func) in ("collections.deque", "deque") for n_ in ast.walk(h_.node)) \
                    and any(isinstance(y_, ast.Yield) for y_ in ast.walk(h_.node)):
                walker_loops.append((lp_, h_))
    if len(walker_loops) == 1:
        lp_, h_ = walker_loops[0]
        hp_ = [a_.arg for a_ in h_.node.args.args if a_.arg not in ("self", "cls")]
        started = len(lp_.iter.args) == 1 and len(hp_) == 1 and ast.unparse(lp_.iter.args[0]) == it.node.args.args[1].arg
        ctx.ob(R, it.module.rel, f"{it.short} :: the ancestor walk {h_.short} is started at the class that was asked for", started, "", lp_.lineno)
        import copy as _copy
        it = _copy.copy(h_)
        # the generator's parameter plays the part of value_type: args = (self?, value_type)
        it.node = _copy.deepcopy(h_.node)
        if len(it.node.args.args) == 1:
            it.node.args.args.insert(0, ast.arg(arg="self"))
        it.short_consumer = it_real.short
    # queue discipline
    # the search queue: the local(s) bound to a deque
    qinit = [n for n in ast.walk(it.node) if isinstance(n, (ast.Assign, ast.AnnAssign)) and isinstance(n.value, ast.Call)
             and ast.unparse(n.value.func) in ("collections.deque", "deque")]
    qnames = {t.id for n in qinit for t in (n.targets if isinstance(n, ast.Assign) else [n.target]) if isinstance(t, ast.Name)}
    enq = [c for c in ast.walk(it.node) if isinstance(c, ast.Call) and isinstance(c.func, ast.Attribute) and c.func.attr in ("appendleft", "append")
           and ast.unparse(c.func.value) in qnames]
    deq = [c for c in ast.walk(it.node) if isinstance(c, ast.Call) and isinstance(c.func, ast.Attribute) and c.func.attr in ("pop", "popleft")
           and ast.unparse(c.func.value) in qnames]
    if not enq or not deq:
        raise AnalysisError("anchor missing: search queue in _type_to_template_internal")
    kinds = {c.func.attr for c in enq}, {c.func.attr for c in deq}
    fifo = kinds in (({"appendleft"}, {"pop"}), ({"append"}, {"popleft"}))
    ctx.ob(R, it.module.rel, f"{it.short} :: breadth-first (FIFO) ancestor search", fifo,
           "" if fifo else f"queue discipline {kinds}: a farther ancestor's template can win over a nearer one", it.node.lineno)
    # the first element: the deque's initial content (`deque([value_type])`) or, with an empty deque, the first enqueue
    seeded = [n.value.args[0] for n in qinit if n.value.args]
    if seeded:
        ok = all(isinstance(a_, (ast.List, ast.Tuple)) and [ast.unparse(e) for e in a_.elts] == [it.node.args.args[1].arg] for a_ in seeded)
        first_line = qinit[0].lineno
    else:
        first = min(enq, key=lambda c: c.lineno)
        ok = ast.unparse(first.args[0]) == it.node.args.args[1].arg
        first_line = first.lineno
    ctx.ob(R, it.module.rel, f"{it.short} :: search starts at the class itself", ok, "", first_line)
    loops = [n for n in ast.walk(it.node) if isinstance(n, ast.For) and "__bases__" in ast.unparse(n.iter)]
    ok = len(loops) == 1 and ast.unparse(loops[0].iter).endswith(".__bases__")
    ctx.ob(R, it.module.rel, f"{it.short} :: enqueues the direct bases of the class that had no template", ok, "", it.node.lineno)
    # template is looked up by the class's own name
    popped = {t.id for n in ast.walk(it.node) if isinstance(n, ast.Assign) and isinstance(n.value, ast.Call) and getattr(n.value.func, "attr", "") in ("pop", "popleft")
              for t in n.targets if isinstance(t, ast.Name)}
    if it_real is not it:
        # the consumer sees what the walker yields: the popped class, once per round
        ys_ = [y_ for y_ in ast.walk(it.node) if isinstance(y_, ast.Yield)]
        ok_y = len(ys_) == 1 and isinstance(ys_[0].value, ast.Name) and ys_[0].value.id in popped
        ctx.ob(R, it.module.rel, f"{it.short} :: yields every class it takes from the queue", ok_y, "", it.node.lineno)
        popped = {walker_loops[0][0].target.id} if ok_y else set()
        it = it_real
    tparam = it.node.args.args[2].arg if len(it.node.args.args) > 2 else "templates"
    lookups = [n for n in ast.walk(it.node) if isinstance(n, ast.Subscript) and isinstance(n.ctx, ast.Load) and isinstance(n.value, ast.Name) and n.value.id == tparam]
    lookups += [ast.Subscript(value=c.func.value, slice=c.args[0], ctx=ast.Load()) for c in ast.walk(it.node) if isinstance(c, ast.Call) and isinstance(c.func, ast.Attribute)
                and c.func.attr == "get" and isinstance(c.func.value, ast.Name) and c.func.value.id == tparam and c.args]

    def own_name(sl):
        sl = pyfront.subst_locals(it.node, sl)
        return isinstance(sl, ast.Attribute) and sl.attr == "__name__" and isinstance(sl.value, ast.Name) and sl.value.id in popped
    ok = bool(lookups) and all(own_name(n.slice) for n in lookups)
    ctx.ob(R, it.module.rel, f"{it.short} :: a class matches the template carrying exactly its name", ok, "", it.node.lineno)
    okc, whyc = cache_discipline(px)
    ctx.ob(R, it.module.rel, f"{it.short} :: the lookup cache is filled only for the class whose own name selected the template", okc, whyc, it.node.lineno)
    # the lookup mapping handed in is keyed by file stem
    for c in calls:
        a = ast.unparse(pyfront.subst_locals(tt.node, c.args[1])) if len(c.args) > 1 else ""
        for h in pyfront.private_helpers(px, tt):
            if f"{h.name}(" in a:
                a += " " + " ".join(ast.unparse(r.value) for r in ast.walk(h.node) if isinstance(r, ast.Return) and r.value is not None)
        ok = ".stem" in a
        ctx.ob(R, tt.module.rel, f"{tt.short} :: lookup table keyed by template file stem", ok, "" if ok else a, c.lineno)
    # get_templates returns sorted (enumeration order independent)
    gt = px.func(LOADERS, "DSDLTemplateLoader.get_templates")
    rets = [r for r in ast.walk(gt.node) if isinstance(r, ast.Return) and r.value is not None]
    ok = bool(rets) and all(isinstance(r.value, ast.Call) and ast.unparse(r.value.func) == "sorted" for r in rets)
    ctx.ob(R, gt.module.rel, f"{gt.short} :: enumeration is returned sorted", ok, "", gt.node.lineno)
    # DSDLCodeGenerator uses FIND_FIRST so a user template directory masks the built-in set entirely
    init = px.func(GEN, "DSDLCodeGenerator.__init__")
    ok = any(k.arg == "search_policy" and isinstance(k.value, ast.Attribute) and k.value.attr == "FIND_FIRST"
             for c in ast.walk(init.node) if isinstance(c, ast.Call) for k in c.keywords)
    ctx.ob(R, init.module.rel, f"{init.short} :: FIND_FIRST search policy", ok, "", init.node.lineno)
    li = px.func(LOADERS, "DSDLTemplateLoader.__init__")
    pk = [s for s in ast.walk(li.node) if isinstance(s, ast.If) and any(isinstance(a, ast.Assign) and any(isinstance(t, ast.Attribute) and t.attr == "_package_loader" for t in a.targets)
                                                                      and not (isinstance(a.value, ast.Constant) and a.value.value is None) for a in ast.walk(s))]
    pk = [s for s in pk if "FIND_ALL" in ast.unparse(s.test)]
    ok = bool(pk) and "self._fsloader is None" in ast.unparse(pk[0].test)
    ctx.ob(R, li.module.rel, f"{li.short} :: package loader exists only for FIND_ALL or when there is no user directory", ok, "", li.node.lineno)


def rule_guard(ctx, px):
    R = "R-C16-GUARD"
    ctx.rule(
        R,
        "filters, tests and uses-queries enter the environment only through _add_to_environment, which raises on an "
        "existing name unless replacement was requested; user-supplied globals are inserted only after a membership "
        "test against every name already in globals, after the reserved namespaces, Jinja defaults and language "
        "globals have been installed, and nothing overwrites globals wholesale afterwards",
    )
    env_mod = px.module(ENV)
    gen_mod = px.module(GEN)
    n = 0
    for m in (env_mod, gen_mod):
        for f in px.all_funcs:
            if f.module is not m:
                continue
            for x in ast.walk(f.node):
                tg = None
                if isinstance(x, ast.Assign):
                    for t in x.targets:
                        if isinstance(t, ast.Subscript):
                            tg = t.value
                elif isinstance(x, ast.Call) and isinstance(x.func, ast.Attribute) and x.func.attr in ("update", "setdefault", "__setitem__"):
                    tg = x.func.value
                if tg is None:
                    continue
                txt = ast.unparse(tg)
                if txt.endswith((".filters", ".tests")) or txt in ("self.filters", "self.tests", "self._env.filters", "self._env.tests"):
                    n += 1
                    ctx.ob(R, m.rel, f"{f.short} :: writes {txt} directly", False,
                           "a filter/test is installed without the already-defined check of _add_to_environment", x.lineno)
    a = px.func(ENV, "CodeGenEnvironment._add_to_environment")
    raises = []
    for st, gd in pyfront.walk_guarded(a.node.body):
        if isinstance(st, ast.Raise):
            # a condition held in a local (`already_defined = name in collection`) is spelled as its expression
            raises.append(pyfront.guard_terms([(pyfront.subst_locals(a.node, t_), p_) for t_, p_ in gd]))
    aps = [x.arg for x in a.node.args.args if x.arg != "self"]
    if len(aps) < 3:
        raise AnalysisError("anchor changed: _add_to_environment(name, item, collection)")
    a_name, a_item, a_coll = aps[0], aps[1], aps[2]
    ok = any(((f"{a_name} in {a_coll}", True) in t or (f"{a_name} not in {a_coll}", False) in t) and ("self._allow_replacements", False) in t for t in raises)
    ctx.ob(R, a.module.rel, f"{a.short} :: raises when the name exists and replacement was not requested", ok,
           "" if ok else f"raise conditions: {raises}", a.node.lineno)
    stores = []
    for st, gd in pyfront.walk_guarded(a.node.body):
        if (isinstance(st, ast.Assign) and ast.unparse(st.targets[0]).startswith(f"{a_coll}[")) or \
                (isinstance(st, ast.Expr) and ast.unparse(st.value).startswith(f"setattr({a_coll}")):
            stores.append(st)
    # the stores come after the raise (statement order) and are not inside the `exists` branch only
    raise_lines = [r.lineno for r in ast.walk(a.node) if isinstance(r, ast.Raise)]
    ctx.ob(R, a.module.rel, f"{a.short} :: single insertion point after the collision check", len(stores) == 2 and bool(raise_lines) and all(
        s.lineno > max(raise_lines) for s in stores), "", a.node.lineno)
    # every adder funnels into _add_to_environment
    for name in ("add_test", "_add_conventional_method_to_environment"):
        f = px.func(ENV, f"CodeGenEnvironment.{name}")
        ok = any(isinstance(c, ast.Call) and ast.unparse(c.func) == "self._add_to_environment" for c in ast.walk(f.node))
        ctx.ob(R, f.module.rel, f"{f.short} :: goes through _add_to_environment", ok, "", f.node.lineno)
    # _allow_replacements assigned once from the constructor parameter
    init = px.func(ENV, "CodeGenEnvironment.__init__")
    asg = [s for s in ast.walk(px.cls(ENV, "CodeGenEnvironment").node) if isinstance(s, ast.Assign) and ast.unparse(s.targets[0]) == "self._allow_replacements"]
    iparams = {x.arg for x in init.node.args.args + init.node.args.kwonlyargs}
    ok = len(asg) == 1 and isinstance(asg[0].value, ast.Name) and asg[0].value.id in iparams
    ctx.ob(R, init.module.rel, "CodeGenEnvironment :: _allow_replacements comes from the constructor argument only", ok, "", init.node.lineno)

    # steps of the constructor that write self.globals from a private method are judged where the constructor calls them
    if init.cls is not None:
        import copy as _copy
        writers_ = {k_: m_.node for k_, m_ in init.cls.methods.items() if k_ != "__init__" and k_.startswith("_") and not k_.startswith("__")
                    and any(isinstance(n_, ast.Attribute) and n_.attr == "globals" and ast.unparse(n_.value) == "self" for n_ in ast.walk(m_.node))
                    and any(isinstance(c_, ast.Call) and isinstance(c_.func, ast.Attribute) and c_.func.attr == k_ for c_ in ast.walk(init.node))}
        if writers_:
            init_ = _copy.copy(init)
            init_.node = pyfront.inline_procedures(init.node, {}, suffix="", methods=writers_)
            init = init_
    # --- globals -----------------------------------------------------------------------------------------------
    user_stores = []
    ug = next((a_.arg for a_ in init.node.args.args + init.node.args.kwonlyargs if a_.arg == "additional_globals"), None)
    if ug is None:
        raise AnalysisError("anchor missing: the additional_globals parameter of CodeGenEnvironment.__init__")
    uloops = [n for n in ast.walk(init.node) if isinstance(n, ast.For) and ug in {x.id for x in ast.walk(n.iter) if isinstance(x, ast.Name)}]
    bulk = [c for c in ast.walk(init.node) if isinstance(c, ast.Call) and ast.unparse(c.func) == "self.globals.update"
            and ug in {x.id for a_ in list(c.args) + [k.value for k in c.keywords] for x in ast.walk(a_) if isinstance(x, ast.Name)}]
    if bulk:
        # wholesale insertion: sound only when a raising membership test over the same mapping runs before it and nothing that
        # installs globals runs in between (what is installed after the test is overwritten silently by the update)
        pm_ = pyfront.parent_map(init.node)
        for c in bulk:
            top_c = pyfront.enclosing_stmt(c, pm_)
            while pm_.get(id(top_c)) is not init.node:
                top_c = pm_[id(top_c)]
            idx_c = init.node.body.index(top_c)
            chk_idx = None
            for lp in uloops:
                tnames = {x.id for x in ast.walk(lp.target) if isinstance(x, ast.Name)}
                tests = [i_ for i_ in ast.walk(lp) if isinstance(i_, ast.If) and any(isinstance(r, ast.Raise) for r in i_.body)
                         and any(ast.unparse(i_.test) == f"{tn} in self.globals" for tn in tnames)]
                if tests:
                    top_l = lp
                    while pm_.get(id(top_l)) is not init.node:
                        top_l = pm_[id(top_l)]
                    chk_idx = init.node.body.index(top_l)
            between = init.node.body[chk_idx + 1: idx_c] if chk_idx is not None and chk_idx <= idx_c else []
            if chk_idx is not None and chk_idx == idx_c:
                between = []
            installers = []
            for st in between:
                for x in ast.walk(st):
                    if isinstance(x, ast.Call) and isinstance(x.func, ast.Attribute) and ast.unparse(x.func).startswith("self.") and not ast.unparse(x.func).startswith("self._target_language"):
                        installers.append(f"{ast.unparse(x.func)} (line {x.lineno})")
                    if isinstance(x, ast.Assign) and ast.unparse(x.targets[0]).startswith("self.globals"):
                        installers.append(f"{ast.unparse(x.targets[0])} (line {x.lineno})")
            ok = chk_idx is not None and chk_idx <= idx_c and not installers and all(lp.lineno < c.lineno for lp in uloops)
            ctx.ob(R, init.module.rel, f"{init.short} :: user globals inserted wholesale only straight after a raising membership test over all of them", ok,
                   "" if ok else ("no raising `name in self.globals` test over the user globals runs before self.globals.update(<user globals>)" if chk_idx is None or chk_idx > idx_c else
                                  f"the names are tested before {installers[:4]} run and inserted afterwards: a user global named like a global installed in between "
                                  "(the target language's globals) silently replaces it"), c.lineno)
    bulk_only = bool(bulk) and not any(isinstance(lp.target, ast.Tuple) for lp in uloops)
    if bulk_only:
        ust = pyfront.enclosing_stmt(bulk[-1], pyfront.parent_map(init.node))
        pm = pyfront.parent_map(init.node)
        _globals_tail(ctx, px, R, init, ust, pm)
        return
    if len(uloops) != 1 or not isinstance(uloops[0].target, ast.Tuple) or len(uloops[0].target.elts) != 2:
        raise AnalysisError("anchor missing: loop over additional_globals.items() in CodeGenEnvironment.__init__")
    g_name, g_value = (e.id for e in uloops[0].target.elts)
    for st, gd in pyfront.walk_guarded(init.node.body):
        if isinstance(st, ast.Assign) and ast.unparse(st.targets[0]) == f"self.globals[{g_name}]" and ast.unparse(st.value) == g_value:
            user_stores.append((st, gd))
    if len(user_stores) != 1:
        raise AnalysisError(f"anchor missing: insertion of user globals in CodeGenEnvironment.__init__ (found {len(user_stores)})")
    ust, ugd = user_stores[0]
    pm = pyfront.parent_map(init.node)
    # (i) membership test against everything in globals, raising
    dom = pyfront.dominating_stmts(init.node, ust) or []
    covers_all = False
    for d in dom:
        if isinstance(d, ast.If) and any(isinstance(r, ast.Raise) for r in d.body):
            t = ast.unparse(d.test)
            if f"{g_name} in self.globals" in t:
                covers_all = True
    ctx.ob(R, init.module.rel, f"{init.short} :: user global checked against every existing global name", covers_all,
           "" if covers_all else "only the reserved-name sets are tested: a user global named like a Jinja default global "
           "(range, dict, namespace, ...) silently replaces it", ust.lineno)
    reserved = False
    for d in dom:
        if isinstance(d, ast.If) and any(isinstance(r, ast.Raise) for r in d.body):
            t = ast.unparse(d.test)
            if "RESERVED_GLOBAL_NAMESPACES" in t and "RESERVED_GLOBAL_NAMES" in t and "_allow_replacements" not in t:
                reserved = True
            if t == f"{g_name} in self.globals":
                # unconditional refusal of every existing name covers the reserved ones provided they are installed
                # before: a dominating loop assigns self.globals[<ns>] over RESERVED_GLOBAL_NAMESPACES and now_utc
                inst_ns = any(isinstance(x, ast.For) and "RESERVED_GLOBAL_NAMESPACES" in ast.unparse(x.iter)
                              and "self.globals[" in ast.unparse(x) for x in dom)
                inst_now = any(isinstance(x, ast.Assign) and ast.unparse(x.targets[0]) in ("self.globals['now_utc']",) for x in dom)
                reserved = inst_ns and inst_now
    ctx.ob(R, init.module.rel, f"{init.short} :: reserved namespaces/names are refused unconditionally", reserved, "", ust.lineno)
    _globals_tail(ctx, px, R, init, ust, pm)


def _globals_tail(ctx, px, R, init, ust, pm):
    # (ii) nothing after the insertion overwrites globals wholesale
    top = ust
    while pm.get(id(top)) is not init.node:
        top = pm[id(top)]
    later = init.node.body[init.node.body.index(top) + 1:]
    overwriters = []
    for st in later:
        for c in ast.walk(st):
            if isinstance(c, ast.Call) and ast.unparse(c.func) in ("self.globals.update", "self._update_language_support", "self.update_nunavut_globals"):
                overwriters.append(ast.unparse(c.func))
            if isinstance(c, ast.Assign) and ast.unparse(c.targets[0]).startswith("self.globals["):
                overwriters.append(ast.unparse(c.targets[0]))
    ctx.ob(R, init.module.rel, f"{init.short} :: nothing installs globals after the user globals", not overwriters,
           "" if not overwriters else f"{overwriters} run after the user globals were inserted and overwrite same-named entries silently", ust.lineno)
    # (iii) the language globals are installed by _update_language_support via globals.update - before
    uls = px.func(ENV, "CodeGenEnvironment._update_language_support")
    ok = any(isinstance(c, ast.Call) and ast.unparse(c.func) == "self.globals.update" for c in ast.walk(uls.node))
    ctx.ob(R, uls.module.rel, f"{uls.short} :: installs language globals (anchor)", ok, "", uls.node.lineno)
    callers = [f for f in px.all_funcs if f is not uls and any(isinstance(c, ast.Call) and ast.unparse(c.func).endswith("._update_language_support") for c in ast.walk(f.node))]
    ok = [f.short for f in callers] == ["CodeGenEnvironment.__init__"]
    ctx.ob(R, uls.module.rel, f"{uls.short} :: called from the constructor only", ok, f"callers: {[f.short for f in callers]}", uls.node.lineno)


def rule_tests(ctx, px):
    R = "R-C16-TESTS"
    ctx.rule(
        R,
        "_create_instance_tests_for_type binds the class name and its lower-case alias to the same predicate, the "
        "predicate tests isinstance against the class for a value and for an attribute's data_type, recursion covers "
        "__subclasses__(); aliases of distinct pydsdl classes and Jinja's built-in tests do not collide",
    )
    f = px.func(GEN, "DSDLCodeGenerator._create_instance_tests_for_type")
    root0 = f.node.args.args[1].arg
    root = root0
    # the class the entries are made for: the parameter itself (with a recursive call per subclass), or the variable of a loop over a
    # generator that yields the parameter and, recursively, every class below it
    walker_ok = None
    for lp in [n_ for n_ in f.node.body if isinstance(n_, ast.For) and isinstance(n_.target, ast.Name) and isinstance(n_.iter, ast.Call)]:
        for h in px.resolve_call(f, lp.iter, by_name_fallback=False):
            hp = [a_.arg for a_ in h.node.args.args if a_.arg not in ("self", "cls")]
            if len(hp) != 1 or [ast.unparse(a_) for a_ in lp.iter.args] != [root0]:
                continue
            yields_root = any(isinstance(st_, ast.Expr) and isinstance(st_.value, ast.Yield) and ast.unparse(st_.value.value) == hp[0] for st_ in h.node.body)
            rec = [st_ for st_ in h.node.body if isinstance(st_, ast.For) and ast.unparse(st_.iter) == f"{hp[0]}.__subclasses__()" and isinstance(st_.target, ast.Name)
                   and len(st_.body) == 1 and isinstance(st_.body[0], ast.Expr) and isinstance(st_.body[0].value, ast.YieldFrom)
                   and isinstance(st_.body[0].value.value, ast.Call) and getattr(st_.body[0].value.value.func, "attr", "") == h.name
                   and [ast.unparse(a_) for a_ in st_.body[0].value.value.args] == [st_.target.id]]
            if any(isinstance(y_, (ast.Yield, ast.YieldFrom)) for y_ in ast.walk(h.node)):
                walker_ok = yields_root and len(rec) == 1 and not any(isinstance(x_, (ast.If, ast.Continue, ast.Break, ast.Return)) for x_ in ast.walk(h.node))
                root = lp.target.id
    # the predicate: a closure over the class defined here, or made by a private factory that is handed the class
    # (`test = cls._make_test(root)`, where the factory returns its nested function)
    inner = [n for n in f.node.body if isinstance(n, ast.FunctionDef)]
    pred_names = set()      # spellings of the predicate in f
    pred_cls = root         # how the predicate spells the class
    if len(inner) == 1:
        pred = inner[0]
        pred_names = {pred.name}
    else:
        pred = None
        for st in ast.walk(f.node):
            if isinstance(st, ast.Assign) and isinstance(st.value, ast.Call) and len(st.targets) == 1 and isinstance(st.targets[0], ast.Name) \
                    and [ast.unparse(a_) for a_ in st.value.args] == [root] and not st.value.keywords:
                for h in px.resolve_call(f, st.value, by_name_fallback=False):
                    nested = [n for n in h.node.body if isinstance(n, ast.FunctionDef)]
                    hp = [a_.arg for a_ in h.node.args.args if a_.arg not in ("self", "cls")]
                    rets_h = [r for r in ast.walk(h.node) if isinstance(r, ast.Return) and r.value is not None and not any(r in ast.walk(n_) for n_ in nested)]
                    if len(nested) == 1 and len(hp) == 1 and rets_h and all(isinstance(r.value, ast.Name) and r.value.id == nested[0].name for r in rets_h):
                        pred, pred_cls = nested[0], hp[0]
                        pred_names = {st.targets[0].id}
        if pred is None:
            raise AnalysisError("anchor missing: predicate closure in _create_instance_tests_for_type")
    p = pred.args.args[0].arg
    rets = []
    for st, gd in pyfront.walk_guarded(pred.body):
        if isinstance(st, ast.Return):
            rets.append((ast.unparse(st.value), pyfront.guard_terms(gd)))
    want_attr = (f"isinstance({p}.data_type, {pred_cls})", [(f"isinstance({p}, pydsdl.Attribute)", True)])
    want_val = (f"isinstance({p}, {pred_cls})", [(f"isinstance({p}, pydsdl.Attribute)", False)])
    ok = want_attr in rets and want_val in rets and len(rets) == 2
    ctx.ob(R, f.module.rel, f"{f.short} :: predicate = isinstance(value or attribute.data_type, class)", ok,
           "" if ok else f"predicate returns {rets}", pred.lineno)
    rnames = {r.value.id for r in ast.walk(f.node) if isinstance(r, ast.Return) and isinstance(r.value, ast.Name)}
    if len(rnames) != 1:
        raise AnalysisError("anchor changed: _create_instance_tests_for_type no longer returns one local mapping")
    tdict = next(iter(rnames))
    # entries: `tests[k] = v` stores and the items of a dict display the mapping starts from; (key node, value node)
    entries = [(s_.targets[0].slice, s_.value) for s_ in ast.walk(f.node) if isinstance(s_, ast.Assign) and ast.unparse(s_.targets[0]).startswith(f"{tdict}[")]
    for s_ in ast.walk(f.node):
        if isinstance(s_, (ast.Assign, ast.AnnAssign)) and isinstance(s_.value, ast.Dict) and \
                any(isinstance(t_, ast.Name) and t_.id == tdict for t_ in (s_.targets if isinstance(s_, ast.Assign) else [s_.target])):
            entries += [(k_, v_) for k_, v_ in zip(s_.value.keys, s_.value.values) if k_ is not None]
    ok = bool(entries) and all(ast.unparse(v_) in pred_names for _, v_ in entries)
    ctx.ob(R, f.module.rel, f"{f.short} :: name and alias are bound to the same predicate", ok, "", f.node.lineno)
    keys = [ast.unparse(k_) for k_, _ in entries]
    ok = f"{root}.__name__" in keys
    ctx.ob(R, f.module.rel, f"{f.short} :: test named exactly like the class", ok, f"keys: {keys}", f.node.lineno)
    # the alias: lower-cased class name, shortened by a known suffix only when something is left over.  The computation may be
    # inline or in a private helper that receives the class name.
    alias_fn, alias_src = f, None
    for k, _v in entries:
        if isinstance(k, ast.Call) and isinstance(k.func, ast.Attribute) and isinstance(k.func.value, ast.Name) and k.func.value.id in ("cls", "self") \
                and f.cls is not None and k.func.attr in f.cls.methods and k.args and ast.unparse(k.args[0]) == f"{root}.__name__":
            alias_fn = f.cls.methods[k.func.attr]
            own = [a_.arg for a_ in alias_fn.node.args.args if a_.arg not in ("self", "cls")]
            alias_src = own[0] if own else None
    lowered = set()
    for n in ast.walk(alias_fn.node):
        if isinstance(n, ast.Assign) and isinstance(n.targets[0], ast.Name) and isinstance(n.value, ast.Call) and isinstance(n.value.func, ast.Attribute) \
                and n.value.func.attr == "lower" and ast.unparse(n.value.func.value) in (f"{root}.__name__", alias_src or "\0"):
            lowered.add(n.targets[0].id)
    if not lowered:
        raise AnalysisError("anchor missing: the lower-cased class name in the alias computation")
    consts = {}
    if alias_fn.cls is not None:
        for st_ in alias_fn.cls.node.body:
            if isinstance(st_, ast.Assign) and isinstance(st_.targets[0], ast.Name) and isinstance(st_.value, (ast.Tuple, ast.List)):
                consts[st_.targets[0].id] = st_.value
    pm_a = pyfront.parent_map(alias_fn.node)
    n_cut = 0
    for n in ast.walk(alias_fn.node):
        if not (isinstance(n, ast.Subscript) and isinstance(n.ctx, ast.Load) and isinstance(n.value, ast.Name) and n.value.id in lowered and isinstance(n.slice, ast.Slice)):
            continue
        a_ = n.value.id
        up = n.slice.upper
        if n.slice.lower is not None or up is None or not (isinstance(up, ast.UnaryOp) and isinstance(up.op, ast.USub)):
            ctx.ob(R, alias_fn.module.rel, f"{alias_fn.short} :: alias cut `{ast.unparse(n)}`", False, "the alias is not the lower-cased name minus a suffix", n.lineno)
            continue
        n_cut += 1
        def _fold(t_):      # len('type') -> 4  (a suffix loop written out leaves the literal in place of the loop variable)
            return re.sub(r"len\((['\"])((?:(?!\1).)*)\1\)", lambda m_: str(len(m_.group(2))), t_)
        k = _fold(ast.unparse(up.operand))        # "4"  or  "len(suffix)"
        terms = [(_fold(e_), p_) for e_, p_ in pyfront.guard_terms(pyfront.guards_of(alias_fn.node, n) or ())]
        # enclosing `for suffix in (...)`: the suffix variable ranges over string constants
        ends = [e for e, pol in terms if pol and e.startswith(f"{a_}.endswith(")]
        suffix_ok, len_ok = False, False
        for e in ends:
            arg = e[len(f"{a_}.endswith("):-1]
            try:
                lit = ast.literal_eval(arg)
            except Exception:
                lit = None
            if isinstance(lit, str):
                suffix_ok = suffix_ok or k == str(len(lit))
                len_ok = len_ok or any(pol and e2.replace(" ", "") in (f"len({a_})>{len(lit)}", f"{len(lit)}<len({a_})", f"len({a_})>={len(lit) + 1}") for e2, pol in terms)
            elif arg.isidentifier():
                suffix_ok = suffix_ok or k == f"len({arg})"
                len_ok = len_ok or any(pol and e2.replace(" ", "") in (f"len({a_})>len({arg})", f"len({arg})<len({a_})") for e2, pol in terms)
        ok = suffix_ok and len_ok
        ctx.ob(R, alias_fn.module.rel, f"{alias_fn.short} :: alias cut `{ast.unparse(n)}` removes a suffix the name ends with and leaves a non-empty alias", ok,
               "" if ok else f"cut guarded by {terms}: a class named exactly like the suffix (pydsdl.Field) gets the empty alias, or a name is cut that does not end with the suffix",
               n.lineno)
    ctx.ob(R, alias_fn.module.rel, f"{alias_fn.short} :: the alias drops a Type/Field suffix", n_cut >= 1, "", alias_fn.node.lineno)
    # the uncut lower-case name is the alias otherwise
    if alias_fn is f:
        whole = any(ast.unparse(k_) in lowered for k_, _ in entries)
    else:
        whole = any(isinstance(r, ast.Return) and isinstance(r.value, ast.Name) and r.value.id in lowered for r in ast.walk(alias_fn.node))
    ctx.ob(R, alias_fn.module.rel, f"{alias_fn.short} :: a name without a known suffix is its own (lower-case) alias", whole, "", alias_fn.node.lineno)
    loops = [n for n in f.node.body if isinstance(n, ast.For)]
    if walker_ok is not None:
        ok = walker_ok and len(loops) == 1 and not any(isinstance(x_, (ast.If, ast.Continue, ast.Break)) for x_ in ast.walk(loops[0]))
    else:
        ok = len(loops) == 1 and ast.unparse(loops[0].iter) == f"{root}.__subclasses__()" and "_create_instance_tests_for_type" in ast.unparse(loops[0])
    ctx.ob(R, f.module.rel, f"{f.short} :: recursion over __subclasses__()", ok, "", f.node.lineno)
    allf = px.func(GEN, "DSDLCodeGenerator._create_all_dsdl_tests")
    roots = []
    pm_all = pyfront.parent_map(allf.node)
    for c in ast.walk(allf.node):
        if isinstance(c, ast.Call) and ast.unparse(c.func).endswith("_create_instance_tests_for_type") and c.args:
            a0 = c.args[0]
            cur, expanded = c, False
            while id(cur) in pm_all and isinstance(a0, ast.Name):
                cur = pm_all[id(cur)]
                if isinstance(cur, ast.For) and isinstance(cur.target, ast.Name) and cur.target.id == a0.id and isinstance(cur.iter, (ast.Tuple, ast.List)):
                    roots += [ast.unparse(e) for e in cur.iter.elts]
                    expanded = True
                    break
            # ... or in a comprehension whose generator walks the literal sequence of roots
            cur = c
            while not expanded and id(cur) in pm_all and isinstance(a0, ast.Name):
                cur = pm_all[id(cur)]
                if isinstance(cur, (ast.DictComp, ast.ListComp, ast.SetComp, ast.GeneratorExp)):
                    for g_ in cur.generators:
                        if isinstance(g_.target, ast.Name) and g_.target.id == a0.id and isinstance(g_.iter, (ast.Tuple, ast.List)) and not g_.ifs:
                            roots += [ast.unparse(e) for e in g_.iter.elts]
                            expanded = True
                    break
            if not expanded:
                roots.append(ast.unparse(a0))
    ok = set(roots) >= {"pydsdl.SerializableType", "pydsdl.Attribute"}
    ctx.ob(R, allf.module.rel, f"{allf.short} :: roots SerializableType and Attribute", ok, f"roots: {roots}", allf.node.lineno)
    init = px.func(GEN, "DSDLCodeGenerator.__init__")
    ok = False
    for lp in ast.walk(init.node):
        if not isinstance(lp, ast.For):
            continue
        it = ast.unparse(pyfront.subst_locals(init.node, lp.iter))
        if "_create_all_dsdl_tests" not in it:
            continue
        adds = [c for c in ast.walk(lp) if isinstance(c, ast.Call) and getattr(c.func, "attr", "") == "add_test" and len(c.args) == 2]
        if isinstance(lp.target, ast.Tuple) and len(lp.target.elts) == 2:
            k, v = (ast.unparse(e) for e in lp.target.elts)
            ok = any([ast.unparse(x) for x in c.args] == [k, v] for c in adds)
        elif isinstance(lp.target, ast.Name):
            # `for name in tests: env.add_test(name, tests[name])`
            k = lp.target.id
            ok = any(ast.unparse(c.args[0]) == k and isinstance(c.args[1], ast.Subscript) and ast.unparse(c.args[1].slice) == k
                     and "_create_all_dsdl_tests" in ast.unparse(pyfront.subst_locals(init.node, c.args[1].value)) for c in adds)
        ok = ok and not any(isinstance(x_, (ast.If, ast.Continue, ast.Break, ast.Try)) for x_ in ast.walk(lp))
    ctx.ob(R, init.module.rel, f"{init.short} :: tests installed through env.add_test (collision raises)", ok, "", init.node.lineno)
    # alias table from the installed pydsdl hierarchy
    import pydsdl  # the dependency's class hierarchy is data for this rule

    def subs(c):
        out = [c]
        for s in c.__subclasses__():
            out.extend(subs(s))
        return out

    classes = []
    for r in (pydsdl.SerializableType, pydsdl.Attribute):
        for c in subs(r):
            if c not in classes:
                classes.append(c)

    def alias(name):
        low = name.lower()
        if len(low) > 4 and low.endswith("type"):
            return low[:-4]
        if len(low) > 5 and low.endswith("field"):
            return low[:-5]
        return low

    seen = {}
    collisions = []
    for c in classes:
        for k in {c.__name__, alias(c.__name__)}:
            if k in seen and seen[k] is not c:
                collisions.append((k, seen[k].__name__, c.__name__))
            seen[k] = c
    ctx.unit("pydsdl_classes", len(classes))
    ctx.ob(R, "pydsdl (installed)", f"alias table over {len(classes)} classes is collision free", not collisions,
           "" if not collisions else f"collisions: {collisions}")
    # jinja built-in tests
    vend = ast.parse((ctx.src / "jinja" / "jinja2" / "tests.py").read_text())
    builtin = set()
    for n in ast.walk(vend):
        if isinstance(n, ast.Assign) and any(isinstance(t, ast.Name) and t.id == "TESTS" for t in n.targets) and isinstance(n.value, ast.Dict):
            builtin = {k.value for k in n.value.keys if isinstance(k, ast.Constant)}
    if len(builtin) < 20:
        raise AnalysisError("anchor missing: TESTS table of the bundled jinja2")
    clash = sorted(set(seen) & builtin)
    ctx.ob(R, "src/nunavut/jinja/jinja2/tests.py", "no pydsdl test name or alias shadows a Jinja built-in test", not clash,
           "" if not clash else f"{clash}")


def run(ctx):
    ctx.explanation = (
        "C16 is decided on the code shape of the loader and the environment: ordering of the two loaders on every "
        "path, FIFO ancestor search from the class itself over __bases__, a single guarded insertion point for "
        "filters/tests, membership-tested insertion of user globals after all built-in globals are installed, and the "
        "construction of the class-name tests (with the alias table computed from the installed pydsdl hierarchy)."
    )
    ctx.declined = ["the resolution function over all (class, template set, cache history) triples (cheap dynamically; not a shape property)"]
    px = pyfront.PyIndex(ctx.root)
    rule_precedence(ctx, px)
    rule_guard(ctx, px)
    rule_tests(ctx, px)
