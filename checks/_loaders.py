"""
The "ordered loader list" idiom of DSDLTemplateLoader, shared by C08 and C16:

    def _get_loaders(self):  return [l for l in (self._fsloader, self._package_loader) if l is not None]
    for loader in self._get_loaders(): ...                  (possibly through enumerate(...) or a local holding the list)

`ordered_loop(func)` returns (loop node, loop variable, [attribute names in precedence order]) for the first such loop of a method, or None.
"""
import ast
import typing

from nvsa import pyfront


def _list_of_attrs(cls, e, fn_node) -> typing.Optional[typing.List[str]]:
    e = pyfront.subst_locals(fn_node, e)
    if isinstance(e, ast.Call) and isinstance(e.func, ast.Name) and e.func.id in ("list", "tuple") and len(e.args) == 1:
        e = e.args[0]
    if isinstance(e, ast.Call) and isinstance(e.func, ast.Attribute) and isinstance(e.func.value, ast.Name) and e.func.value.id == "self" \
            and cls is not None and e.func.attr in cls.methods and not e.args:
        h = cls.methods[e.func.attr]
        rets = [r.value for r in ast.walk(h.node) if isinstance(r, ast.Return) and r.value is not None]
        ys = [y for y in ast.walk(h.node) if isinstance(y, (ast.Yield, ast.YieldFrom))]
        if ys and not rets:
            return _yielded_attrs(h.node)
        if len(rets) != 1:
            return None
        return _list_of_attrs(cls, rets[0], h.node)
    if isinstance(e, (ast.ListComp, ast.GeneratorExp)) and len(e.generators) == 1:
        g = e.generators[0]
        if not (isinstance(g.target, ast.Name) and isinstance(e.elt, ast.Name) and e.elt.id == g.target.id and isinstance(g.iter, (ast.Tuple, ast.List))):
            return None
        v = g.target.id
        if [ast.unparse(i).replace(" ", "") for i in g.ifs] != [f"{v}isnotNone"]:
            return None
        names = []
        for x in g.iter.elts:
            if isinstance(x, ast.Attribute) and isinstance(x.value, ast.Name) and x.value.id == "self":
                names.append(x.attr)
            else:
                return None
        return names
    return None


def _yielded_attrs(hnode) -> typing.Optional[typing.List[str]]:
    """a generator that yields the configured loaders in order:
         for l in (self._a, self._b):            or        if self._a is not None: yield self._a
             if l is not None: yield l                     if self._b is not None: yield self._b"""
    body = [st for st in hnode.body if not (isinstance(st, ast.Expr) and isinstance(st.value, ast.Constant))]
    names: typing.List[str] = []

    def attr(x):
        return x.attr if isinstance(x, ast.Attribute) and isinstance(x.value, ast.Name) and x.value.id == "self" else None

    if len(body) == 1 and isinstance(body[0], ast.For) and isinstance(body[0].target, ast.Name) and isinstance(body[0].iter, (ast.Tuple, ast.List)) and not body[0].orelse:
        v = body[0].target.id
        inner = body[0].body
        ok = len(inner) == 1 and isinstance(inner[0], ast.If) and not inner[0].orelse and ast.unparse(inner[0].test).replace(" ", "") == f"{v}isnotNone" \
            and len(inner[0].body) == 1 and isinstance(inner[0].body[0], ast.Expr) and isinstance(inner[0].body[0].value, ast.Yield) \
            and isinstance(inner[0].body[0].value.value, ast.Name) and inner[0].body[0].value.value.id == v
        if not ok:
            return None
        for x in body[0].iter.elts:
            if attr(x) is None:
                return None
            names.append(attr(x))
        return names
    for st in body:
        if isinstance(st, ast.If) and not st.orelse and len(st.body) == 1 and isinstance(st.body[0], ast.Expr) and isinstance(st.body[0].value, ast.Yield) \
                and attr(st.body[0].value.value) is not None and ast.unparse(st.test).replace(" ", "") == f"self.{attr(st.body[0].value.value)}isnotNone":
            names.append(attr(st.body[0].value.value))
        else:
            return None
    return names or None


def ordered_loop(f, comprehensions: bool = False):
    """comprehensions=True: an enumeration may also be a comprehension whose first generator walks the loader list, unfiltered"""
    r = _ordered_for(f)
    if r is None and comprehensions:
        for comp in ast.walk(f.node):
            if isinstance(comp, (ast.ListComp, ast.SetComp, ast.GeneratorExp)) and comp.generators and isinstance(comp.generators[0].target, ast.Name) \
                    and not comp.generators[0].ifs:
                names = _list_of_attrs(f.cls, comp.generators[0].iter, f.node)
                if names:
                    return comp, comp.generators[0].target.id, names
    return r


def _ordered_for(f):
    for lp in ast.walk(f.node):
        if not isinstance(lp, ast.For):
            continue
        it, tgt = lp.iter, lp.target
        if isinstance(it, ast.Call) and isinstance(it.func, ast.Name) and it.func.id == "enumerate" and it.args and isinstance(tgt, ast.Tuple) and len(tgt.elts) == 2:
            it, tgt = it.args[0], tgt.elts[1]
        if not isinstance(tgt, ast.Name):
            continue
        names = _list_of_attrs(f.cls, it, f.node)
        if names:
            return lp, tgt.id, names
    return None
