"""
The "ordered loader list" idiom of DSDLTemplateLoader, shared by C08 and C16:

    def _get_loaders(self):  return [l for l in (self._fsloader, self._package_loader) if l is not None]
    for loader in self._get_loaders(): ...                  (possibly through enumerate(...) or a local holding the list)

`ordered_loop(func)` returns (loop node, loop variable, [attribute names in precedence order]) for the first such loop of a method, or None.
"""
import ast
import typing

from nvsa import pyfront


def _list_of_attrs(cls, e, fn_node) -> typing.Optional[typing.List[str]]:
    e = pyfront.subst_locals(fn_node, e)
    if isinstance(e, ast.Call) and isinstance(e.func, ast.Name) and e.func.id in ("list", "tuple") and len(e.args) == 1:
        e = e.args[0]
    if isinstance(e, ast.Call) and isinstance(e.func, ast.Attribute) and isinstance(e.func.value, ast.Name) and e.func.value.id == "self" \
            and cls is not None and e.func.attr in cls.methods and not e.args:
        h = cls.methods[e.func.attr]
        rets = [r.value for r in ast.walk(h.node) if isinstance(r, ast.Return) and r.value is not None]
        if len(rets) != 1:
            return None
        return _list_of_attrs(cls, rets[0], h.node)
    if isinstance(e, (ast.ListComp, ast.GeneratorExp)) and len(e.generators) == 1:
        g = e.generators[0]
        if not (isinstance(g.target, ast.Name) and isinstance(e.elt, ast.Name) and e.elt.id == g.target.id and isinstance(g.iter, (ast.Tuple, ast.List))):
            return None
        v = g.target.id
        if [ast.unparse(i).replace(" ", "") for i in g.ifs] != [f"{v}isnotNone"]:
            return None
        names = []
        for x in g.iter.elts:
            if isinstance(x, ast.Attribute) and isinstance(x.value, ast.Name) and x.value.id == "self":
                names.append(x.attr)
            else:
                return None
        return names
    return None


def ordered_loop(f, comprehensions: bool = False):
    """comprehensions=True: an enumeration may also be a comprehension whose first generator walks the loader list, unfiltered"""
    r = _ordered_for(f)
    if r is None and comprehensions:
        for comp in ast.walk(f.node):
            if isinstance(comp, (ast.ListComp, ast.SetComp, ast.GeneratorExp)) and comp.generators and isinstance(comp.generators[0].target, ast.Name) \
                    and not comp.generators[0].ifs:
                names = _list_of_attrs(f.cls, comp.generators[0].iter, f.node)
                if names:
                    return comp, comp.generators[0].target.id, names
    return r


def _ordered_for(f):
    for lp in ast.walk(f.node):
        if not isinstance(lp, ast.For):
            continue
        it, tgt = lp.iter, lp.target
        if isinstance(it, ast.Call) and isinstance(it.func, ast.Name) and it.func.id == "enumerate" and it.args and isinstance(tgt, ast.Tuple) and len(tgt.elts) == 2:
            it, tgt = it.args[0], tgt.elts[1]
        if not isinstance(tgt, ast.Name):
            continue
        names = _list_of_attrs(f.cls, it, f.node)
        if names:
            return lp, tgt.id, names
    return None
